"""C12 extractor, part 2: flag analysis and edge generation (see design/C12.md for the rules)."""
import ast
from collections import defaultdict

from gen.c12_index import Func, Index, TranslateError

SECRET_NAMES = ("auth_password", "auth_private_key_passphrase", "auth_secondary")
EVENTS = "interact_events"      # documented API: list of (input, expected prompt[, hidden flag])
EVENT_INPUT, EVENT_HIDDEN = 0, 2
FLAG_PARAMS = ("redacted",)     # documented contract of BaseChannel.write
LOG_METHODS = {"debug", "info", "warning", "warn", "error", "exception", "critical", "fatal", "log"}
NONPROP = {"type", "len", "isinstance", "issubclass", "bool", "callable", "hasattr", "id", "any", "all", "iscoroutinefunction"}
MUTATORS = {"append", "extend", "update", "add", "insert", "write", "setdefault", "appendleft"}
MAXDEPTH = 3


# ---------------------------------------------------------------- shapes: access path -> set of nodes
def s_join(*shapes):
    out = defaultdict(set)
    for sh in shapes:
        for p, ns in sh.items():
            out[p] |= ns
    return dict(out)


def s_flat(sh):
    out = set()
    for ns in sh.values():
        out |= ns
    return out


def s_whole(nodes):
    return {(): set(nodes)} if nodes else {}


def s_sub(sh, key):
    """value of sh[key] for a constant key"""
    out = defaultdict(set)
    for p, ns in sh.items():
        if not p:
            out[()] |= ns
        elif p[0] == key or p[0] == "*":
            out[p[1:]] |= ns
    return dict(out)


def s_any(sh):
    """value of sh[i] for an unknown i / of an element when iterating"""
    out = defaultdict(set)
    for p, ns in sh.items():
        out[p[1:]] |= ns
    return dict(out)


def s_wrap(sh, key):
    out = defaultdict(set)
    for p, ns in sh.items():
        q = (key,) + p
        out[q[:MAXDEPTH]] |= ns
    return dict(out)


def path_str(p):
    return "".join(f"[{k!r}]" if isinstance(k, str) and k != "*" else f"[{k}]" for k in p)


class Flag:
    def __init__(self, kind, base):
        self.kind, self.base = kind, base   # ("param", name) | ("event", event variable)
        self.locals = set()                 # local names that hold the flag


class Analyzer:
    def __init__(self, repo):
        self.ix = Index(repo)
        self.comps = defaultdict(set)   # (fq, var) -> set of access paths
        self.edges = set()
        self.kinds = {}                 # node -> source|sink|sanitiser|advisory
        self.sites = {}                 # sink node -> dict(kind, file, line, end, func)
        self.notes = []
        self.driver_classes = self._driver_classes()
        self.dataclass_fields = sorted({f for c in self.ix.classes if c.is_dataclass for f in c.all_fields()})
        for f in self.ix.funcs:
            self._flag_analysis(f)
        for f in self.ix.funcs:
            if EVENTS in f.params:
                self.comps[(f.fq, EVENTS)].add(("*", EVENT_INPUT))
        for rnd in range(12):
            before = {k: set(v) for k, v in self.comps.items()}
            self.edges, self.kinds, self.sites = set(), {}, {}
            self.alias_links, self.mutated = [], set()
            self.unnamed_log_sinks, self.narrow_handlers = set(), set()
            for m in self.ix.mods.values():
                ModuleWalker(self, m).run()
            for f in self.ix.funcs:
                for ctx in self.ctxs(f):
                    Walker(self, f, ctx).run()
            if before == {k: set(v) for k, v in self.comps.items()}:
                break
        else:
            raise TranslateError("access-path components did not stabilise")
        self.rounds = rnd + 1
        self._alias_pass()
        self._mark_sources()

    # ---- which classes are drivers (repr/str of these are sinks)
    def _driver_classes(self):
        base = [c for c in self.ix.classes if c.name == "BaseDriver" and c.mod.rel.endswith("driver/base/base_driver.py")]
        if len(base) != 1:
            raise TranslateError("BaseDriver not found")
        out = set()
        for d in [base[0]] + base[0].descendants():
            out.add(d)
            out.update(d.ancestors())
        return out

    def ctxs(self, f):
        return ["@T", "@F"] if f.flag else [""]

    # ---- nodes
    def var(self, f, ctx, name, path=()):
        if not f.flag or name in f.shared:
            ctx = ""
        self.comps[(f.fq, name)].add(path)
        return f"v:{f.fq}{ctx}:{name}{path_str(path)}"

    def load_var(self, f, ctx, name):
        paths = set(self.comps[(f.fq, name)]) | {()}
        return {p: {self.var(f, ctx, name, p)} for p in paths}

    def edge(self, srcs, dst, cut=None):
        for s in srcs:
            if cut:
                self.edges.add((s, cut))
            else:
                self.edges.add((s, dst))
        if cut and srcs:
            self.edges.add((cut, dst))

    def assign_var(self, f, ctx, name, sh, cut=None):
        for p, ns in sh.items():
            self.edge(ns, self.var(f, ctx, name, p), cut)

    # ---- flag analysis (which functions carry the secret-marking flag)
    def _flag_analysis(self, f: Func):
        body = f.node.body
        nodes = [n for n in self._walk_own(f.node)]
        events = set()
        has_events = any(EVENTS in g.params for g in self._scope_chain(f))
        if has_events:
            for n in nodes:
                it = tgt = None
                if isinstance(n, (ast.For, ast.AsyncFor)):
                    it, tgt = n.iter, n.target
                elif isinstance(n, ast.comprehension):
                    it, tgt = n.iter, n.target
                if isinstance(it, ast.Name) and it.id == EVENTS and isinstance(tgt, ast.Name):
                    events.add(tgt.id)
        fl = None
        for p in FLAG_PARAMS:
            if p in f.params:
                fl = Flag("param", p)
        f._events = events
        cand = fl
        # local flag variables: every assignment is a flag expression (same base) or a bool constant
        assigns = defaultdict(list)
        for n in nodes:
            if isinstance(n, ast.Assign) and len(n.targets) == 1 and isinstance(n.targets[0], ast.Name):
                assigns[n.targets[0].id].append(n.value)
            elif isinstance(n, (ast.AugAssign, ast.AnnAssign)) and isinstance(n.target, ast.Name):
                assigns[n.target.id].append(None if isinstance(n, ast.AugAssign) else n.value)
            elif isinstance(n, (ast.For, ast.AsyncFor, ast.comprehension, ast.With, ast.AsyncWith, ast.ExceptHandler, ast.NamedExpr)):
                for t in Index._targets(n):
                    assigns[t].append(None)
        flag_locals, base = set(), (cand.base if cand and cand.kind == "event" else None)
        for _ in range(3):
            for name, vals in assigns.items():
                if name in f.params or name in flag_locals:
                    continue
                bases, ok = set(), True
                for v in vals:
                    if isinstance(v, ast.Constant) and isinstance(v.value, bool):
                        continue
                    r = self._flag_of(f, v, flag_locals, cand) if v is not None else None
                    if r is None:
                        ok = False
                        break
                    bases.add(r[0])
                if ok and len(bases) == 1:
                    b = bases.pop()
                    if cand is None:
                        cand = Flag(b[0], b[1])
                    if (cand.kind, cand.base) != b:
                        raise TranslateError(f"{f.fq}: two different secret-marking flags")
                    flag_locals.add(name)
        # is a flag actually used (test of if / ifexp, or passed on as a flag argument)?
        used = cand is not None and cand.kind == "param"
        for n in nodes:
            exprs = []
            if isinstance(n, (ast.If, ast.IfExp, ast.While)):
                exprs.append(n.test)
            if isinstance(n, ast.Call):
                exprs.extend(k.value for k in n.keywords if k.arg in FLAG_PARAMS)
            for e in exprs:
                r = self._flag_of(f, e, flag_locals, cand)
                if r is not None:
                    if cand is None:
                        cand = Flag(r[0][0], r[0][1])
                    if (cand.kind, cand.base) != r[0]:
                        raise TranslateError(f"{f.fq}: two different secret-marking flags")
                    used = True
        if cand is not None and used:
            cand.locals = flag_locals
            f.flag = cand
            # accumulators are shared between the two contexts
            for n in nodes:
                if isinstance(n, ast.AugAssign) and isinstance(n.target, ast.Name):
                    f.shared.add(n.target.id)
                if isinstance(n, ast.Call) and isinstance(n.func, ast.Attribute) and n.func.attr in MUTATORS and isinstance(n.func.value, ast.Name):
                    f.shared.add(n.func.value.id)
                if isinstance(n, ast.Assign) and len(n.targets) == 1 and isinstance(n.targets[0], ast.Name):
                    if any(isinstance(x, ast.Name) and x.id == n.targets[0].id for x in ast.walk(n.value)):
                        f.shared.add(n.targets[0].id)
            f.shared -= set(FLAG_PARAMS) | {"self", "cls"}
            if f.nested:
                raise TranslateError(f"{f.fq}: flagged function with nested functions not supported")
        if f.parent is not None and f.flag is not None:
            raise TranslateError(f"{f.fq}: nested flagged function not supported")

    @staticmethod
    def _scope_chain(f):
        while f is not None:
            yield f
            f = f.parent

    @staticmethod
    def _walk_own(fnode):
        todo = list(fnode.body)
        while todo:
            n = todo.pop(0)
            if isinstance(n, (ast.FunctionDef, ast.AsyncFunctionDef, ast.ClassDef)):
                continue
            yield n
            todo.extend(ast.iter_child_nodes(n))

    def _flag_of(self, f, e, flag_locals=None, cand=None):
        """((kind, base), positive?) when e is exactly the secret-marking flag (or its negation)"""
        flag_locals = f.flag.locals if (flag_locals is None and f.flag) else (flag_locals or set())
        if isinstance(e, ast.Name):
            if e.id in FLAG_PARAMS and e.id in f.params:
                return (("param", e.id), True)
            if e.id in flag_locals:
                c = cand or f.flag
                return ((c.kind, c.base), True) if c else None
            return None
        if isinstance(e, ast.Subscript) and isinstance(e.value, ast.Name) and e.value.id in getattr(f, "_events", ()):
            if isinstance(e.slice, ast.Constant) and e.slice.value == EVENT_HIDDEN:
                return (("event", e.value.id), True)
            return None
        if isinstance(e, ast.Call) and isinstance(e.func, ast.Name) and e.func.id == "bool" and len(e.args) == 1 and not e.keywords:
            return self._flag_of(f, e.args[0], flag_locals, cand)
        if isinstance(e, ast.UnaryOp) and isinstance(e.op, ast.Not):
            r = self._flag_of(f, e.operand, flag_locals, cand)
            return (r[0], not r[1]) if r else None
        if isinstance(e, ast.BoolOp) and isinstance(e.op, ast.And):
            found = None
            for v in e.values:
                r = self._flag_of(f, v, flag_locals, cand)
                if r is not None and r[1]:
                    if found is not None and found != r[0]:
                        return None
                    found = r[0]
                elif self._is_len_guard(f, v):
                    continue
                else:
                    return None
            return (found, True) if found else None
        return None

    @staticmethod
    def _is_len_guard(f, e):
        """len(E) > c / len(E) >= c for an event variable E: only says whether the flag member exists"""
        if not (isinstance(e, ast.Compare) and len(e.ops) == 1 and isinstance(e.ops[0], (ast.Gt, ast.GtE, ast.Eq))):
            return False
        l = e.left
        return (isinstance(l, ast.Call) and isinstance(l.func, ast.Name) and l.func.id == "len" and len(l.args) == 1
                and isinstance(l.args[0], ast.Name) and l.args[0].id in getattr(f, "_events", ())
                and isinstance(e.comparators[0], ast.Constant))

    # ---- mutation through aliases: a container that is mutated in place (x[k] = v, x.setdefault/update/append/…)
    #      is the same object as whatever it was assigned from (name, attribute, element, .get() result, argument,
    #      returned value): what flows into it also flows into those, transitively
    @staticmethod
    def ident(node):
        return node.split("[", 1)[0] if node.startswith("v:") else node

    def _alias_pass(self):
        members = defaultdict(set)
        for a, b in self.edges:
            members[self.ident(a)].add(a)
            members[self.ident(b)].add(b)
        back = defaultdict(set)
        for srcs, dsts in self.alias_links:
            for d in dsts:
                back[d] |= {x for x in srcs if not x.startswith(("k:", "s:"))}
        todo = []
        for m in self.mutated:
            todo.extend(members.get(self.ident(m), {m}))
        seen = set()
        self.alias_edges = 0
        while todo:
            n = todo.pop()
            if n in seen:
                continue
            seen.add(n)
            for s_ in back.get(n, set()) | back.get(self.ident(n), set()):
                if s_ != n and (n, s_) not in self.edges:
                    self.edges.add((n, s_))
                    self.alias_edges += 1
                todo.append(s_)

    # ---- sources
    def _mark_sources(self):
        nodes = set()
        for a, b in self.edges:
            nodes.add(a)
            nodes.add(b)
        srcs = set()
        for name in SECRET_NAMES:
            srcs.add(f"a:{name}")
        for f in self.ix.funcs:
            for ctx in self.ctxs(f):
                for name in SECRET_NAMES:
                    if name in f.locals:
                        srcs.add(self.var(f, ctx, name))
                if EVENTS in f.params:
                    srcs.add(self.var(f, ctx, EVENTS, ("*", EVENT_INPUT)))
        for s in srcs:
            if self.kinds.get(s) not in (None, "source"):
                raise TranslateError(f"source node {s} is also {self.kinds[s]}")
            self.kinds[s] = "source"
        self.nodes = nodes | set(self.kinds)


class ModuleWalker:
    """module level and class level assignments (globals, class attributes)"""

    def __init__(self, an, mod):
        self.an, self.mod = an, mod

    def run(self):
        pseudo = _module_func(self.an, self.mod)
        w = Walker(self.an, pseudo, "")
        for node in self.mod.tree.body:
            if isinstance(node, ast.ClassDef):
                for sub in node.body:
                    if isinstance(sub, (ast.Assign, ast.AnnAssign)) and getattr(sub, "value", None) is not None:
                        sh = w.shape(sub.value)
                        for t in (sub.targets if isinstance(sub, ast.Assign) else [sub.target]):
                            if isinstance(t, ast.Name):
                                self.an.edge(s_flat(sh), f"a:{t.id}")
            elif not isinstance(node, (ast.FunctionDef, ast.AsyncFunctionDef)):
                w.stmt(node)


_PSEUDO = {}


def _module_func(an, mod):
    key = (id(an), mod.rel)
    if key not in _PSEUDO:
        fn = ast.parse("def __module__(): pass").body[0]
        f = Func(mod, fn)
        f.fq = f"{mod.rel}::<module>"
        f.locals = set()
        f.is_module = True
        f._events = set()
        _PSEUDO[key] = f
    return _PSEUDO[key]


class Walker:
    def __init__(self, an: Analyzer, f: Func, ctx: str):
        self.an, self.ix, self.f, self.ctx = an, an.ix, f, ctx
        self.cut = None
        self.collectors = []    # stacks of node sets: arguments of external calls inside try bodies
        self.nsan = 0
        self.written = None     # when a list: nodes written by the assignment being processed

    # ---- helpers
    def san(self, node, why):
        self.nsan += 1
        name = f"s:{self.f.mod.rel}:{getattr(node, 'lineno', 0)}:{why}:{self.f.qual}{self.ctx}#{self.nsan}"
        self.an.kinds[name] = "sanitiser"
        return name

    def edge(self, srcs, dst):
        self.an.edge(srcs, dst, self.cut)

    def sink(self, kind, node, srcs, label=None):
        rel = self.f.mod.rel
        name = f"k:{kind}:{rel}:{node.lineno}:{label or self.f.qual}{self.ctx}"
        self.an.kinds[name] = "advisory" if kind == "arepr" else "sink"
        self.an.sites[name] = {"kind": kind, "file": rel, "line": node.lineno, "end": getattr(node, "end_lineno", node.lineno),
                               "func": self.f.qual, "ctx": self.ctx}
        self.edge(srcs, name)
        return name

    def feasible(self, positive):
        """is the branch taken when the flag has this value feasible in the current context?"""
        return (self.ctx == "@T") == positive

    def run(self):
        f = self.f
        for s in f.node.body:
            self.stmt(s)
        # decorators written in the package see every argument of the decorated function
        if f.parent is None:
            for d in f.decorators:
                r = self.ix.resolve_name_expr(d.func if isinstance(d, ast.Call) else d, f.mod)
                if r and r[0] == "func":
                    for w in r[1].all_nested():
                        if w.vararg and w.kwarg:
                            for wctx in self.an.ctxs(w):
                                for i, p in enumerate(f.pos):
                                    self.an.assign_var(w, wctx, w.vararg, s_wrap(self.an.load_var(f, self.ctx, p), i))
                                for p in f.pos + f.kwonly:
                                    self.an.assign_var(w, wctx, w.kwarg, s_wrap(self.an.load_var(f, self.ctx, p), p))

    # ---- variable access with scoping
    def scope_of(self, name):
        g = self.f
        while g is not None:
            if name in g.locals:
                return g
            g = g.parent
        return None

    def load_name(self, name, node=None):
        g = self.scope_of(name)
        if g is not None:
            if g is self.f:
                sh = self.an.load_var(g, self.ctx, name)
                fl = g.flag
                if fl and fl.kind == "event" and self.ctx == "@F" and name == fl.base:
                    # entry sanitiser: in the context "flag is false" the event is by definition not marked hidden
                    out = {}
                    for p, ns in sh.items():
                        s = f"s:{g.mod.rel}:{g.node.lineno}:entry-not-hidden:{g.qual}@F:{name}{path_str(p)}"
                        self.an.kinds[s] = "sanitiser"
                        for n in ns:
                            self.an.edges.add((n, s))
                        out[p] = {s}
                    return out
                return sh
            return self.an.load_var(g, "", name)
        r = self.ix.lookup_global(self.f.mod, name)
        if r is None:
            return {}
        if r[0] == "glob":
            return s_whole({f"g:{r[1]}:{r[2]}"})
        return {}

    def store_name(self, name, sh, mutate=False):
        g = self.scope_of(name)
        if g is None:
            # module level or `global`
            self.edge(s_flat(sh), f"g:{self.f.mod.rel}:{name}")
            if self.written is not None:
                self.written.append(f"g:{self.f.mod.rel}:{name}")
            if mutate:
                self.an.mutated.add(f"g:{self.f.mod.rel}:{name}")
            return
        ctx = self.ctx if g is self.f else ""
        self.an.assign_var(g, ctx, name, sh, self.cut)
        if self.written is not None:
            self.written.append(self.an.var(g, ctx, name))
        if mutate:
            self.an.mutated.add(self.an.var(g, ctx, name))

    ALIAS_CALLS = {"get", "setdefault", "pop", "popitem", "values", "items", "__getitem__"}

    def alias_capable(self, e):
        """may the value of e be an existing mutable object (rather than a freshly built one)?"""
        if isinstance(e, (ast.Name, ast.Attribute, ast.Subscript)):
            return True
        if isinstance(e, (ast.Await, ast.Starred)):
            return self.alias_capable(e.value)
        if isinstance(e, ast.NamedExpr):
            return self.alias_capable(e.value)
        if isinstance(e, ast.BoolOp):
            return any(self.alias_capable(v) for v in e.values)
        if isinstance(e, ast.IfExp):
            return self.alias_capable(e.body) or self.alias_capable(e.orelse)
        if isinstance(e, ast.Call):
            fn = e.func
            if isinstance(fn, ast.Attribute):
                if fn.attr in self.ALIAS_CALLS:
                    return True
                cands, _ = self.method_candidates(fn.value, fn.attr)
                return bool(cands)
            if isinstance(fn, ast.Name):
                if self.scope_of(fn.id) is not None:
                    return True
                r = self.ix.lookup_global(self.f.mod, fn.id)
                return bool(r and r[0] == "func")
        return False

    def link(self, srcs, dsts):
        if srcs and dsts:
            self.an.alias_links.append((frozenset(srcs), frozenset(dsts)))

    # ---- statements
    def stmts(self, body):
        for s in body:
            self.stmt(s)

    def branch(self, test, body, orelse, node):
        r = self.an._flag_of(self.f, test) if self.f.flag else None
        self.shape(test)
        if r is None or (self.f.flag.kind, self.f.flag.base) != r[0]:
            self.stmts(body)
            self.stmts(orelse)
            return
        for positive, blk in ((r[1], body), (not r[1], orelse)):
            if self.feasible(positive) or not blk:
                self.stmts(blk)
            else:
                old = self.cut
                self.cut = self.cut or self.san(node, "flag-guard")
                self.stmts(blk)
                self.cut = old

    def stmt(self, s):
        if isinstance(s, ast.Expr):
            self.shape(s.value)
        elif isinstance(s, (ast.Assign, ast.AnnAssign)):
            if s.value is None:
                return
            sh = self.shape(s.value)
            old, self.written = self.written, []
            for t in (s.targets if isinstance(s, ast.Assign) else [s.target]):
                self.assign(t, sh)
            wr, self.written = self.written, old
            if self.alias_capable(s.value):
                tg = (s.targets if isinstance(s, ast.Assign) else [s.target])
                if len(tg) == 1 and isinstance(tg[0], ast.Name) and self.scope_of(tg[0].id) is not None:
                    g_ = self.scope_of(tg[0].id)
                    for p_, ns in sh.items():
                        self.link(ns, [self.an.var(g_, self.ctx if g_ is self.f else "", tg[0].id, p_)])
                else:
                    self.link(s_flat(sh), wr)
        elif isinstance(s, ast.AugAssign):
            cur = self.shape(_as_load(s.target))
            # `x += …` mutates x in place only when x is a list (str / bytes / int are rebound): recognised by a
            # list-valued right hand side
            if isinstance(s.value, (ast.List, ast.ListComp)):
                if isinstance(s.target, ast.Name) and self.scope_of(s.target.id) is not None:
                    g_ = self.scope_of(s.target.id)
                    self.an.mutated.add(self.an.var(g_, self.ctx if g_ is self.f else "", s.target.id))
                elif isinstance(s.target, ast.Attribute):
                    self.an.mutated.add(f"a:{s.target.attr}")
            self.assign(s.target, {(): s_flat(cur) | s_flat(self.shape(s.value))} if not isinstance(s.op, ast.Add)
                        else s_join(cur, self.shape(s.value)))
        elif isinstance(s, (ast.For, ast.AsyncFor)):
            sh = s_any(self.shape(s.iter))
            old, self.written = self.written, []
            self.assign(s.target, sh)
            wr, self.written = self.written, old
            if self.alias_capable(s.iter):
                self.link(s_flat(sh), wr)
            self.stmts(s.body)
            self.stmts(s.orelse)
        elif isinstance(s, ast.While):
            self.branch(s.test, s.body, s.orelse, s)
        elif isinstance(s, ast.If):
            self.branch(s.test, s.body, s.orelse, s)
        elif isinstance(s, (ast.With, ast.AsyncWith)):
            for it in s.items:
                sh = self.shape(it.context_expr)
                if it.optional_vars is not None:
                    self.assign(it.optional_vars, sh)
            self.stmts(s.body)
        elif isinstance(s, ast.Try) or s.__class__.__name__ == "TryStar":
            self.collectors.append(set())
            self.stmts(s.body)
            got = self.collectors.pop()
            for c in self.collectors:
                c |= got
            for h in s.handlers:
                if h.type is not None:
                    self.shape(h.type)
                if h.name:
                    # a handler for everything (`except Exception as exc`, bare) may see an exception whose text
                    # embeds any argument given to third-party code in the try body; a handler that names specific
                    # classes receives library-authored text (assumption, see design/C12.md; validated with fakes)
                    if not _broad_handler(h.type):
                        self.an.narrow_handlers.add(f"{self.f.mod.rel}::{self.f.qual}: except {ast.unparse(h.type)} as {h.name}")
                    self.store_name(h.name, s_whole(got) if _broad_handler(h.type) else {})
                self.stmts(h.body)
            self.stmts(s.orelse)
            self.stmts(s.finalbody)
        elif isinstance(s, ast.Return):
            if s.value is not None:
                sh = self.shape(s.value)
                self.an.assign_var(self.f, self.ctx, "<return>", sh, self.cut)
                if self.alias_capable(s.value):
                    for p_, ns in sh.items():
                        self.link(ns, [self.an.var(self.f, self.ctx, "<return>", p_)])
                if self.f.name in ("__repr__", "__str__") and self.f.cls is not None and self.f.parent is None:
                    kind = "repr" if self.f.cls in self.an.driver_classes else "arepr"
                    self.sink(kind, s, s_flat(sh), label=f"{self.f.cls.name}.{self.f.name}")
        elif isinstance(s, ast.Raise):
            srcs = set()
            if s.exc is not None:
                if isinstance(s.exc, ast.Call):
                    for a in s.exc.args:
                        srcs |= s_flat(self.shape(a.value if isinstance(a, ast.Starred) else a))
                    for k in s.exc.keywords:
                        srcs |= s_flat(self.shape(k.value))
                    self.call(s.exc, evaluated=True)
                else:
                    srcs |= s_flat(self.shape(s.exc))
            if s.cause is not None:
                # `raise X(...) from cause`: the cause object (usually a third-party exception) is attached, its
                # text is not part of the message scrapli builds; interpolating it (X(exc), f"{exc}") is a flow
                self.shape(s.cause)
            if s.exc is not None:
                self.sink("raise", s, srcs)
        elif isinstance(s, (ast.FunctionDef, ast.AsyncFunctionDef)):
            for d in s.decorator_list:
                self.shape(d)
            for d in list(s.args.defaults) + [x for x in s.args.kw_defaults if x is not None]:
                self.shape(d)
        elif isinstance(s, ast.Delete):
            pass
        elif isinstance(s, ast.Assert):
            self.shape(s.test)
            if s.msg is not None:
                self.sink("raise", s, s_flat(self.shape(s.msg)))
        elif isinstance(s, (ast.Pass, ast.Break, ast.Continue, ast.Import, ast.ImportFrom, ast.Global, ast.ClassDef)):
            pass
        elif s.__class__.__name__ == "Match":
            raise TranslateError(f"{self.f.fq}:{s.lineno}: match statement not supported")
        else:
            raise TranslateError(f"{self.f.fq}:{getattr(s, 'lineno', 0)}: statement {s.__class__.__name__} not supported")

    def assign(self, t, sh):
        if isinstance(t, ast.Name):
            self.store_name(t.id, sh)
        elif isinstance(t, (ast.Tuple, ast.List)):
            for i, e in enumerate(t.elts):
                if isinstance(e, ast.Starred):
                    self.assign(e.value, s_wrap(s_any(sh), "*"))
                else:
                    self.assign(e, s_sub(sh, i))
        elif isinstance(t, ast.Attribute):
            self.shape(t.value)
            self.store_attr(t.attr, sh)
        elif isinstance(t, ast.Subscript):
            key = t.slice.value if isinstance(t.slice, ast.Constant) and isinstance(t.slice.value, (int, str)) else "*"
            if not isinstance(t.slice, ast.Constant):
                self.shape(t.slice)
            if isinstance(t.value, ast.Name):
                self.store_name(t.value.id, s_wrap(sh, key), mutate=True)
            elif isinstance(t.value, ast.Attribute):
                self.shape(t.value.value)
                self.store_attr(t.value.attr, sh, mutate=True)
            else:
                # x.y[k][j] = v, f()[k] = v, …: the innermost name / attribute is what gets mutated
                base = t.value
                while isinstance(base, ast.Subscript):
                    base = base.value
                self.shape(t.value)
                if isinstance(base, ast.Name):
                    self.store_name(base.id, s_wrap(s_whole(s_flat(sh)), "*"), mutate=True)
                elif isinstance(base, ast.Attribute):
                    self.store_attr(base.attr, sh, mutate=True)
        elif isinstance(t, ast.Starred):
            self.assign(t.value, sh)
        else:
            raise TranslateError(f"{self.f.fq}: assignment target {t.__class__.__name__} not supported")

    def store_attr(self, attr, sh, mutate=False):
        if attr.startswith("__") and not attr.endswith("__") and self.f.cls is not None:
            attr = f"_{self.f.cls.name}{attr}"
        if not self.ix.is_handle_attr(attr):
            self.edge(s_flat(sh), f"a:{attr}")
            if self.written is not None:
                self.written.append(f"a:{attr}")
            if mutate:
                self.an.mutated.add(f"a:{attr}")
        for setter in self.ix.setters.get(attr, []):
            ps = setter.bind_pos()
            if ps:
                for c in self.an.ctxs(setter):
                    self.an.assign_var(setter, c, ps[0], sh, self.cut)

    # ---- expressions
    def shape(self, e):
        m = getattr(self, "e_" + e.__class__.__name__, None)
        if m is None:
            raise TranslateError(f"{self.f.fq}:{getattr(e, 'lineno', 0)}: expression {e.__class__.__name__} not supported")
        return m(e)

    def e_Constant(self, e):
        return {}

    def e_Name(self, e):
        return self.load_name(e.id, e)

    def e_Attribute(self, e):
        attr = e.attr
        base = self.shape(e.value)
        if attr == "__dict__":
            return s_whole({"a:*"})
        if attr.startswith("__") and not attr.endswith("__") and self.f.cls is not None:
            attr = f"_{self.f.cls.name}{attr}"
        out = set() if self.ix.is_handle_attr(attr) else {f"a:{attr}"}
        sh = s_whole(out)
        for g in self.ix.getters.get(attr, []):
            for c in self.an.ctxs(g):
                sh = s_join(sh, self.an.load_var(g, c, "<return>"))
        if isinstance(e.value, ast.Name) and e.value.id not in ("self", "cls"):
            sh = s_join(sh, s_whole(base.get((), set())))
        return sh

    def e_Subscript(self, e):
        base = self.shape(e.value)
        if isinstance(e.slice, ast.Constant) and isinstance(e.slice.value, (int, str)):
            return s_sub(base, e.slice.value)
        if isinstance(e.slice, ast.Slice):
            for x in (e.slice.lower, e.slice.upper, e.slice.step):
                if x is not None:
                    self.shape(x)
            return base
        self.shape(e.slice)
        return s_any(base) if base else {}

    def e_Tuple(self, e):
        out = {}
        for i, x in enumerate(e.elts):
            if isinstance(x, ast.Starred):
                out = s_join(out, s_wrap(s_any(self.shape(x.value)), "*"))
            else:
                out = s_join(out, s_wrap(self.shape(x), i))
        return out

    def e_List(self, e):
        out = {}
        for x in e.elts:
            if isinstance(x, ast.Starred):
                out = s_join(out, s_wrap(s_any(self.shape(x.value)), "*"))
            else:
                out = s_join(out, s_wrap(self.shape(x), "*"))
        return out

    e_Set = e_List

    def e_Dict(self, e):
        out = {}
        for k, v in zip(e.keys, e.values):
            if k is None:
                out = s_join(out, self.shape(v))
            elif isinstance(k, ast.Constant) and isinstance(k.value, (str, int)):
                out = s_join(out, s_wrap(self.shape(v), k.value))
            else:
                out = s_join(out, s_wrap(s_join(self.shape(v), s_whole(s_flat(self.shape(k)))), "*"))
        return out

    def e_JoinedStr(self, e):
        out = set()
        for v in e.values:
            if isinstance(v, ast.FormattedValue):
                out |= s_flat(self.shape(v.value))
                if v.format_spec is not None:
                    out |= s_flat(self.shape(v.format_spec))
        return s_whole(out)

    def e_FormattedValue(self, e):
        return s_whole(s_flat(self.shape(e.value)))

    def e_BinOp(self, e):
        l, r = self.shape(e.left), self.shape(e.right)
        if isinstance(e.op, ast.Add):
            return s_join(l, r)       # concatenation keeps element structure (lists) / whole (strings)
        return s_whole(s_flat(l) | s_flat(r))

    def e_BoolOp(self, e):
        return s_join(*[self.shape(v) for v in e.values])

    def e_UnaryOp(self, e):
        sh = self.shape(e.operand)
        return {} if isinstance(e.op, ast.Not) else s_whole(s_flat(sh))

    def e_Compare(self, e):
        self.shape(e.left)
        for c in e.comparators:
            self.shape(c)
        return {}

    def e_IfExp(self, e):
        r = self.an._flag_of(self.f, e.test) if self.f.flag else None
        self.shape(e.test)
        if r is None or (self.f.flag.kind, self.f.flag.base) != r[0]:
            return s_join(self.shape(e.body), self.shape(e.orelse))
        out = {}
        for positive, arm in ((r[1], e.body), (not r[1], e.orelse)):
            sh = self.shape(arm)
            if self.feasible(positive):
                out = s_join(out, sh)
            elif sh:
                s = self.san(e, "flag-guard")
                for n in s_flat(sh):
                    self.an.edges.add((n, s))
                out = s_join(out, {p: {s} for p in sh})
        return out

    def e_Await(self, e):
        return self.shape(e.value)

    def e_Yield(self, e):
        if e.value is not None:
            self.an.assign_var(self.f, self.ctx, "<return>", s_wrap(self.shape(e.value), "*"), self.cut)
        return {}

    def e_YieldFrom(self, e):
        self.an.assign_var(self.f, self.ctx, "<return>", self.shape(e.value), self.cut)
        return {}

    def e_Starred(self, e):
        return self.shape(e.value)

    def e_NamedExpr(self, e):
        sh = self.shape(e.value)
        self.assign(e.target, sh)
        return sh

    def e_Lambda(self, e):
        return {}

    def e_Slice(self, e):
        return {}

    def _comp(self, e, elts):
        for g in e.generators:
            self.assign(g.target, s_any(self.shape(g.iter)))
            for c in g.ifs:
                self.shape(c)
        return [self.shape(x) for x in elts]

    def e_ListComp(self, e):
        return s_wrap(self._comp(e, [e.elt])[0], "*")

    e_SetComp = e_GeneratorExp = e_ListComp

    def e_DictComp(self, e):
        g = e.generators[0]
        if (len(e.generators) == 1 and isinstance(g.iter, ast.Call) and isinstance(g.iter.func, ast.Attribute)
                and g.iter.func.attr == "items" and not g.iter.args and isinstance(g.target, ast.Tuple)
                and len(g.target.elts) == 2 and all(isinstance(x, ast.Name) for x in g.target.elts)
                and isinstance(e.key, ast.Name) and isinstance(e.value, ast.Name)
                and (e.key.id, e.value.id) == (g.target.elts[0].id, g.target.elts[1].id)):
            # {k: v for k, v in d.items() if ...}: a sub-dictionary of d, keys keep their values
            for c in g.ifs:
                self.shape(c)
            return self.shape(g.iter.func.value)
        k, v = self._comp(e, [e.key, e.value])
        return s_wrap(s_join(v, s_whole(s_flat(k))), "*")

    # ---- calls
    def e_Call(self, e):
        return self.call(e)

    def recv_tags(self, r):
        """light type of a receiver expression: set of ('pkg', Cls) | ('super', Cls) | ('ext',) | ('data',) | ('unknown',)"""
        f = self.f
        if isinstance(r, ast.Name):
            if r.id in ("self", "cls") and f.cls is not None and self.scope_of(r.id) is not None:
                return {("pkg", f.cls)}
            g = self.scope_of(r.id)
            if g is not None:
                tags = set()
                if r.id in g.ann and r.id in g.params:
                    tags |= self.ix.ann_tags(g.ann[r.id], g.mod)
                for kind, x in g.local_types.get(r.id, []):
                    if kind == "ann":
                        tags |= self.ix.ann_tags(x, g.mod)
                    else:
                        rr = self.ix.resolve_name_expr(x, g.mod)
                        tags.add(("pkg", rr[1]) if rr and rr[0] == "cls" else ("unknown",))
                return tags or {("unknown",)}
            rr = self.ix.lookup_global(f.mod, r.id)
            if rr and rr[0] == "cls":
                return {("pkgcls", rr[1])}
            if rr and rr[0] == "mod":
                return {("mod", rr[1])}
            if rr and rr[0] == "ext":
                return {("ext",)}
            return {("unknown",)} if rr else {("ext",)}
        if isinstance(r, ast.Call) and isinstance(r.func, ast.Name) and r.func.id == "super" and f.cls is not None:
            return {("super", f.cls)}
        if isinstance(r, ast.Attribute):
            return set(self.ix.attr_types(r.attr)) or {("unknown",)}
        if isinstance(r, (ast.Constant, ast.JoinedStr, ast.List, ast.Dict, ast.Tuple, ast.BinOp, ast.Subscript, ast.ListComp)):
            return {("data",)} if not isinstance(r, ast.Subscript) else {("unknown",)}
        return {("unknown",)}

    def method_candidates(self, recv, name):
        """(package functions that may be called, may the callee be outside the package)"""
        tags = self.recv_tags(recv)
        cands, ext = [], False
        for t in tags:
            if t[0] in ("pkg", "pkgcls"):
                fam = t[1].family()
                found = [m for c in fam for m in c.methods.get(name, []) if not m.setter_of]
                if found:
                    cands += found
                elif any(c.ext_bases for c in fam):
                    ext = True
                else:
                    t = ("unknown",)
            if t[0] == "super":
                found = [m for c in t[1].ancestors() for m in c.methods.get(name, []) if not m.setter_of]
                cands += found
                if not found or any(c.ext_bases for c in [t[1]] + t[1].ancestors()):
                    ext = True
            elif t[0] == "mod":
                if name in t[1].funcs:
                    cands.append(t[1].funcs[name])
                elif name in t[1].classes:
                    cands += self.ctor_targets(t[1].classes[name])
                else:
                    ext = True
            elif t[0] in ("ext", "data", "extval"):
                ext = True
            elif t[0] == "unknown":
                found = [m for m in self.ix.by_name.get(name, []) if m.cls is not None and not m.setter_of]
                cands += found
                ext = True
        out = []
        for c in cands:
            if c not in out:
                out.append(c)
        return out, ext or not out

    def ctor_targets(self, cls):
        for c in [cls] + cls.ancestors():
            if "__init__" in c.methods:
                return c.methods["__init__"]
        return []

    def callee_ctxs(self, callee, e):
        if not callee.flag:
            return [""]
        if callee.flag.kind != "param":
            return ["@T", "@F"]
        p = callee.flag.base
        arg = None
        for k in e.keywords:
            if k.arg == p:
                arg = k.value
        pos = callee.bind_pos()
        if arg is None and p in pos and pos.index(p) < len(e.args) and not any(isinstance(a, ast.Starred) for a in e.args):
            arg = e.args[pos.index(p)]
        if arg is None:
            if any(k.arg is None for k in e.keywords) or any(isinstance(a, ast.Starred) for a in e.args):
                return ["@T", "@F"]
            arg = callee.defaults.get(p)
            if arg is None:
                return ["@T", "@F"]
        if isinstance(arg, ast.Constant) and isinstance(arg.value, bool):
            return ["@T" if arg.value else "@F"]
        if self.f.flag:
            r = self.an._flag_of(self.f, arg)
            if r is not None and r[0] == (self.f.flag.kind, self.f.flag.base):
                return [self.ctx if r[1] else ("@F" if self.ctx == "@T" else "@T")]
        return ["@T", "@F"]

    def bind(self, callee, cctxs, pos_sh, kw_sh, star, dstar, skip_first):
        pos = callee.pos[1:] if (skip_first and callee.pos) else callee.pos
        names = set(callee.pos + callee.kwonly)
        pos_al, kw_al, star_al, dstar_al = getattr(self, "_arg_alias", None) or ([True] * len(pos_sh), {k: True for k in kw_sh}, True, True)

        def put(cctx, pname, sh, alias):
            self.an.assign_var(callee, cctx, pname, sh, self.cut)
            if alias:
                for p_, ns in sh.items():
                    self.link(ns, [self.an.var(callee, cctx, pname, p_)])
        for cctx in cctxs:
            bound = set()
            for i, sh in enumerate(pos_sh):
                al = pos_al[i] if i < len(pos_al) else True
                if i < len(pos):
                    put(cctx, pos[i], sh, al)
                    bound.add(pos[i])
                elif callee.vararg:
                    put(cctx, callee.vararg, s_wrap(sh, i - len(pos)), al)
            for k, sh in kw_sh.items():
                al = kw_al.get(k, True)
                if k in names:
                    put(cctx, k, sh, al)
                    bound.add(k)
                elif callee.kwarg:
                    put(cctx, callee.kwarg, s_wrap(sh, k), al)
            if star is not None:
                for p in pos[len(pos_sh):]:
                    put(cctx, p, s_any(star), star_al)
                if callee.vararg:
                    put(cctx, callee.vararg, star, star_al)
            if dstar is not None:
                for p in callee.pos + callee.kwonly:
                    if p not in bound:
                        sub = s_sub(dstar, p)
                        if sub:
                            put(cctx, p, sub, dstar_al)
                if callee.kwarg:
                    put(cctx, callee.kwarg, dstar, False)   # **kwargs is a new dict in the callee

    def call(self, e, evaluated=False):
        f = self.f
        fn = e.func
        # arguments
        pos_sh, star = [], None
        for a in e.args:
            if isinstance(a, ast.Starred):
                star = s_join(star or {}, self.shape(a.value))
            else:
                pos_sh.append(self.shape(a))
        kw_sh, dstar = {}, None
        for k in e.keywords:
            if k.arg is None:
                dstar = s_join(dstar or {}, self.shape(k.value))
            else:
                kw_sh[k.arg] = self.shape(k.value)
        allargs = set()
        for sh in pos_sh + list(kw_sh.values()) + [star or {}, dstar or {}]:
            allargs |= s_flat(sh)
        self._arg_alias = ([self.alias_capable(a) for a in e.args if not isinstance(a, ast.Starred)],
                           {k.arg: self.alias_capable(k.value) for k in e.keywords if k.arg is not None}, True, True)

        # logging calls are sinks
        if isinstance(fn, ast.Attribute) and fn.attr in LOG_METHODS:
            # every `<anything>.debug/info/warning/…(…)` is a log sink, whatever the receiver is called
            # (`log = self.logger; log.debug(x)`, `logging.getLogger("scrapli").info(x)`, `logging.warning(x)`);
            # the only receivers exempted are ones with a KNOWN non-logger light type. Receivers not recognised by
            # name are counted (an.unnamed_log_sinks) so that a reviewer sees them.
            tags = self.recv_tags(fn.value)
            known_other = bool(tags) and all(t[0] in ("pkg", "pkgcls", "data", "super") for t in tags) and not _is_logger(fn.value)
            if not known_other:
                if not _is_logger(fn.value):
                    self.an.unnamed_log_sinks.add(f"{self.f.mod.rel}:{e.lineno}")
                # the logger object itself carries data into every record (LoggerAdapter extras: host, port, uid)
                self.sink("log", e, allargs | s_flat(self.shape(fn.value)))
                return {}
        # other ways of putting text in front of a user: advisory sinks (not log records / repr / exception text)
        out_name = None
        if isinstance(fn, ast.Name) and fn.id in ("print", "warn") and self.scope_of(fn.id) is None:
            out_name = fn.id
        elif isinstance(fn, ast.Attribute) and fn.attr == "warn" and isinstance(fn.value, ast.Name) and fn.value.id == "warnings":
            out_name = "warn"
        elif (isinstance(fn, ast.Attribute) and fn.attr in ("write", "writelines") and isinstance(fn.value, ast.Attribute)
              and fn.value.attr in ("stdout", "stderr", "__stdout__", "__stderr__") and isinstance(fn.value.value, ast.Name)
              and fn.value.value.id == "sys"):
            out_name = "stdio"
        if out_name:
            self.sink("arepr", e, allargs, label=f"{out_name}:{self.f.qual}")

        if isinstance(fn, ast.Name):
            name = fn.id
            if name in NONPROP and self.scope_of(name) is None:
                return {}
            if name == "getattr" and self.scope_of(name) is None and len(e.args) >= 2:
                return self.dyn_getattr(e)
            if name == "setattr" and self.scope_of(name) is None and len(e.args) == 3:
                return self.dyn_setattr(e, pos_sh)
            if name == "super":
                return {}
            if name == "partial" and e.args and self.scope_of(name) is None:
                r = self.ix.resolve_name_expr(e.args[0], f.mod)
                if r and r[0] == "func":
                    self.bind(r[1], self.an.ctxs(r[1]), pos_sh[1:], kw_sh, star, dstar, False)
                    return {}
            g = self.scope_of(name)
            if g is not None:
                nested = [n for n in g.nested if n.name == name]
                if nested:
                    out = {}
                    for n in nested:
                        self.bind(n, [""], pos_sh, kw_sh, star, dstar, False)
                        out = s_join(out, self.an.load_var(n, "", "<return>"))
                    return out
                return self.unknown_callee(e, self.load_name(name), allargs, kw_sh, dstar)
            r = self.ix.lookup_global(f.mod, name)
            if r and r[0] == "func":
                cc = self.callee_ctxs(r[1], e)
                self.bind(r[1], cc, pos_sh, kw_sh, star, dstar, False)
                out = {}
                for c in cc:
                    out = s_join(out, self.an.load_var(r[1], c, "<return>"))
                return out
            if r and r[0] == "cls":
                return self.construct(r[1], e, pos_sh, kw_sh, star, dstar, allargs)
            if r and r[0] == "glob":
                return self.unknown_callee(e, self.load_name(name), allargs, kw_sh, dstar)
            return self.external(allargs)

        if isinstance(fn, ast.Attribute):
            recv_sh = self.shape(fn.value)
            name = fn.attr
            if isinstance(fn.value, ast.Name) and self.scope_of(fn.value.id) is None:
                r = self.ix.lookup_global(f.mod, fn.value.id)
                if r and r[0] == "ext":
                    return self.external(allargs)
            if name == "get" and isinstance(fn.value, ast.Name) and e.args and isinstance(e.args[0], ast.Constant) \
                    and isinstance(e.args[0].value, (str, int)) and self.scope_of(fn.value.id) is not None:
                out = s_sub(recv_sh, e.args[0].value)
                for sh in pos_sh[1:]:
                    out = s_join(out, sh)
                return out
            if name == "copy" and not e.args and not e.keywords:
                return recv_sh
            cands, ext = self.method_candidates(fn.value, name)
            out = {}
            tags = self.recv_tags(fn.value)
            via_class = any(t[0] == "pkgcls" for t in tags)
            for c in cands:
                cc = self.callee_ctxs(c, e)
                skip = c.kind in ("method", "class") and not (via_class and c.kind == "method")
                self.bind(c, cc, pos_sh, kw_sh, star, dstar, skip)
                for x in cc:
                    out = s_join(out, self.an.load_var(c, x, "<return>"))
            if ext:
                nodes = s_flat(recv_sh) | allargs
                if name in MUTATORS and isinstance(fn.value, ast.Name) and self.scope_of(fn.value.id) is not None:
                    self.store_name(fn.value.id, s_wrap(s_whole(allargs), "*"), mutate=name != "write")
                elif name in MUTATORS and name != "write" and isinstance(fn.value, ast.Subscript):
                    base = fn.value
                    while isinstance(base, ast.Subscript):
                        base = base.value
                    if isinstance(base, ast.Name) and self.scope_of(base.id) is not None:
                        self.store_name(base.id, s_wrap(s_whole(allargs), "*"), mutate=True)
                    elif isinstance(base, ast.Attribute):
                        self.store_attr(base.attr, s_whole(allargs), mutate=True)
                elif name in MUTATORS and name != "write" and isinstance(fn.value, ast.Attribute):
                    # (`self.x.write(data)` is output to an I/O object, not a store: what the peer sends back is
                    #  device output, the echo case the property exempts)
                    self.store_attr(fn.value.attr, s_whole(allargs), mutate=True)
                out = s_join(out, self.external(nodes))
            return out

        # call of a call result, subscript, ...
        sh = self.shape(fn)
        return self.unknown_callee(e, sh, allargs, kw_sh, dstar)

    def external(self, nodes):
        for c in self.collectors:
            c |= nodes
        return s_whole(nodes)

    def unknown_callee(self, e, callee_sh, allargs, kw_sh, dstar):
        """callee is a value (variable holding a function/class): keyword arguments reach every package
        parameter of that name; the result may depend on every argument"""
        names = dict(kw_sh)
        if dstar is not None:
            for p in dstar:
                if p and isinstance(p[0], str) and p[0] != "*":
                    names[p[0]] = s_join(names.get(p[0], {}), s_sub(dstar, p[0]))
        if names:
            for g in self.ix.funcs:
                if g.parent is None and all(k in g.params for k in kw_sh):
                    for k, sh in names.items():
                        if k in g.pos + g.kwonly:
                            for c in self.an.ctxs(g):
                                self.an.assign_var(g, c, k, sh, self.cut)
        return self.external(allargs)

    def construct(self, cls, e, pos_sh, kw_sh, star, dstar, allargs):
        inits = self.ctor_targets(cls)
        for init in inits:
            self.bind(init, self.an.ctxs(init), pos_sh, kw_sh, star, dstar, True)
        if not inits:
            fields = cls.all_fields() if cls.is_dataclass else []
            for i, sh in enumerate(pos_sh):
                if i < len(fields):
                    self.store_attr(fields[i], sh)
            for k, sh in kw_sh.items():
                self.store_attr(k, sh)
                if (getattr(self, "_arg_alias", None) or ([], {}, 1, 1))[1].get(k, True) and not self.ix.is_handle_attr(k):
                    self.link(s_flat(sh), [f"a:{k}"])
            if dstar is not None:
                for fld in fields:
                    sub = s_sub(dstar, fld)
                    if sub:
                        self.store_attr(fld, sub)
        if any(c.ext_bases for c in [cls] + cls.ancestors()) and not inits:
            return self.external(allargs)   # e.g. exception classes: the arguments live on in the object
        return {}

    def dyn_names(self, key_expr):
        """the set of attribute names a non-constant getattr/setattr key can take, if it can be bounded"""
        if isinstance(key_expr, ast.Constant) and isinstance(key_expr.value, str):
            return [key_expr.value]
        if isinstance(key_expr, ast.Attribute) and key_expr.attr == "name" and isinstance(key_expr.value, ast.Name):
            v = key_expr.value.id     # `field.name for field in fields(<dataclass>)`
            for n in Analyzer._walk_own(self.f.node):
                if isinstance(n, (ast.comprehension, ast.For)) and isinstance(n.target, ast.Name) and n.target.id == v \
                        and isinstance(n.iter, ast.Call) and isinstance(n.iter.func, ast.Name) and n.iter.func.id == "fields":
                    return list(self.an.dataclass_fields)
        if isinstance(key_expr, ast.Name):
            v = key_expr.id
            for n in Analyzer._walk_own(self.f.node):
                if isinstance(n, (ast.comprehension, ast.For)) and isinstance(n.target, ast.Name) and n.target.id == v \
                        and isinstance(n.iter, ast.Name) and self.scope_of(n.iter.id) is None:
                    r = self.ix.lookup_global(self.f.mod, n.iter.id)
                    if r and r[0] == "glob":
                        val = _module_const(self.ix.mods[r[1]], r[2])
                        if val is not None:
                            return val
        if isinstance(key_expr, (ast.JoinedStr, ast.BinOp)):
            return None
        return None

    def dyn_getattr(self, e):
        names = self.dyn_names(e.args[1])
        self.shape(e.args[0])
        out = {}
        for d in e.args[2:]:
            out = s_join(out, self.shape(d))
        if names is None:
            r = self.recv_tags(e.args[0])
            if all(t[0] in ("ext", "mod") for t in r):
                return s_join(out, self.external(set()))
            raise TranslateError(f"{self.f.fq}:{e.lineno}: getattr with a name that cannot be bounded")
        for n in names:
            out = s_join(out, self.e_Attribute(ast.Attribute(value=e.args[0], attr=n, ctx=ast.Load())))
        return out

    def dyn_setattr(self, e, pos_sh):
        names = self.dyn_names(e.args[1])
        if names is None:
            raise TranslateError(f"{self.f.fq}:{e.lineno}: setattr with a name that cannot be bounded")
        for n in names:
            self.store_attr(n, pos_sh[2])
        return {}


def _module_const(mod, name):
    for node in mod.tree.body:
        if isinstance(node, ast.Assign) and any(isinstance(t, ast.Name) and t.id == name for t in node.targets):
            try:
                v = ast.literal_eval(node.value)
            except Exception:
                return None
            if isinstance(v, (tuple, list)) and all(isinstance(x, str) for x in v):
                return list(v)
    return None


def _broad_handler(t):
    if t is None:
        return True
    elts = t.elts if isinstance(t, ast.Tuple) else [t]
    for x in elts:
        name = x.id if isinstance(x, ast.Name) else x.attr if isinstance(x, ast.Attribute) else ""
        if name in ("Exception", "BaseException"):
            return True
    return False


def _is_logger(e):
    if isinstance(e, ast.Name):
        return "logger" in e.id.lower()
    if isinstance(e, ast.Attribute):
        return "logger" in e.attr.lower()
    return False


def _as_load(t):
    t2 = ast.parse(ast.unparse(t), mode="eval").body
    ast.copy_location(t2, t)
    for n in ast.walk(t2):
        ast.copy_location(n, t)
    return t2
