"""C12 extractor, part 1: index of the package (modules, classes, functions, imports, light types).
Used by gen/c12.py.  Pure AST, nothing is imported from scrapli."""
import ast
from pathlib import Path

DATA_NAMES = {"str", "bytes", "int", "float", "bool", "Any", "object", "list", "dict", "tuple", "set", "List", "Dict",
              "Tuple", "Set", "DefaultDict", "Iterable", "Iterator", "Sequence", "Pattern", "bytearray", "None"}
UNION_NAMES = {"Optional", "Union"}


try:
    from translate import TranslateError
except Exception:  # stand-alone use
    class TranslateError(Exception):
        pass


class Mod:
    def __init__(self, rel, tree):
        self.rel, self.tree = rel, tree
        self.dotted = rel[:-3].replace("/", ".")
        if self.dotted.endswith(".__init__"):
            self.dotted = self.dotted[: -len(".__init__")]
        self.imports = {}     # local name -> ("pkgmod", dotted) | ("pkgobj", dotted module, name) | ("ext", text)
        self.funcs = {}       # top-level name -> Func
        self.classes = {}     # top-level name -> Cls
        self.globals = set()  # top-level assigned names


class Cls:
    def __init__(self, mod, node):
        self.mod, self.node, self.name = mod, node, node.name
        self.key = f"{mod.rel}::{node.name}"
        self.base_exprs = node.bases
        self.bases = []         # resolved package classes
        self.ext_bases = False  # has a base that is not a package class (other than object)
        self.methods = {}       # name -> [Func] (property getter/setter share a name)
        self.is_dataclass = any(_dec_name(d) == "dataclass" for d in node.decorator_list)
        self.fields = []        # annotated class-level names in order (dataclass fields)
        self.subs = []

    def ancestors(self):
        out, todo = [], list(self.bases)
        while todo:
            c = todo.pop()
            if c not in out:
                out.append(c)
                todo.extend(c.bases)
        return out

    def descendants(self):
        out, todo = [], list(self.subs)
        while todo:
            c = todo.pop()
            if c not in out:
                out.append(c)
                todo.extend(c.subs)
        return out

    def family(self):
        fam = [self] + self.ancestors()
        for d in self.descendants():
            for c in [d] + d.ancestors():
                if c not in fam:
                    fam.append(c)
        return fam

    def all_fields(self):
        out = []
        for c in reversed([self] + self.ancestors()):
            for f in c.fields:
                if f not in out:
                    out.append(f)
        return out


def _dec_name(d):
    if isinstance(d, ast.Call):
        d = d.func
    if isinstance(d, ast.Name):
        return d.id
    if isinstance(d, ast.Attribute):
        return d.attr
    return ""


class Func:
    def __init__(self, mod, node, cls=None, parent=None):
        self.mod, self.node, self.cls, self.parent = mod, node, cls, parent
        self.name = node.name
        q = (parent.qual + ".<locals>." if parent else (cls.name + "." if cls else "")) + node.name
        if parent:
            q += f"#L{node.lineno}"
        self.qual = q
        decs = [_dec_name(d) for d in node.decorator_list]
        self.decorators = node.decorator_list
        self.is_property = "property" in decs
        self.setter_of = None
        for d in node.decorator_list:
            if isinstance(d, ast.Attribute) and d.attr == "setter" and isinstance(d.value, ast.Name):
                self.setter_of = d.value.id
        self.kind = "function"
        if cls is not None and parent is None:
            self.kind = "static" if "staticmethod" in decs else "class" if "classmethod" in decs else "method"
        suffix = ".setter" if self.setter_of else ""
        self.fq = f"{mod.rel}::{q}{suffix}"
        a = node.args
        self.pos = [x.arg for x in a.posonlyargs + a.args]
        self.kwonly = [x.arg for x in a.kwonlyargs]
        self.vararg = a.vararg.arg if a.vararg else None
        self.kwarg = a.kwarg.arg if a.kwarg else None
        self.params = self.pos + self.kwonly + ([self.vararg] if self.vararg else []) + ([self.kwarg] if self.kwarg else [])
        self.ann = {x.arg: x.annotation for x in a.posonlyargs + a.args + a.kwonlyargs if x.annotation is not None}
        self.defaults = {}
        for p, d in zip(reversed(a.posonlyargs + a.args), reversed(a.defaults)):
            self.defaults[p.arg] = d
        for p, d in zip(a.kwonlyargs, a.kw_defaults):
            if d is not None:
                self.defaults[p.arg] = d
        self.nested = []
        self.locals = set(self.params)
        self.local_types = {}   # name -> list of annotation/ctor exprs
        self.global_decl = set()
        self.flag = None        # set by the flag analysis
        self.shared = set()     # accumulator variables (never cloned per context)

    def bind_pos(self):
        """positional parameter names as seen by a caller through an instance / class"""
        if self.kind in ("method", "class") and self.pos:
            return self.pos[1:]
        return self.pos

    def all_nested(self):
        out = []
        for n in self.nested:
            out.append(n)
            out.extend(n.all_nested())
        return out


class Index:
    def __init__(self, repo: Path, package="scrapli"):
        self.repo, self.package = Path(repo), package
        self.mods = {}
        self.by_dotted = {}
        self.funcs = []
        self.classes = []
        self.by_name = {}       # function name -> [Func] (methods and functions, not nested)
        self.setters = {}       # attribute name -> [Func]
        self.getters = {}
        self.attr_tags = {}     # attribute name -> set of tags
        self.attr_ann = {}      # attribute name -> tags from explicit annotations only
        for p in sorted((self.repo / package).rglob("*.py")):
            rel = str(p.relative_to(self.repo))
            try:
                tree = ast.parse(p.read_text(), filename=rel)
            except SyntaxError as e:
                raise TranslateError(f"{rel}: {e}")
            m = Mod(rel, tree)
            self.mods[rel] = m
            self.by_dotted[m.dotted] = m
        if not self.mods:
            raise TranslateError(f"no modules under {self.repo / package}")
        for m in self.mods.values():
            self._collect(m)
        for m in self.mods.values():
            self._imports(m)
        for c in self.classes:
            for b in c.base_exprs:
                r = self.resolve_name_expr(b, c.mod)
                if r and r[0] == "cls":
                    c.bases.append(r[1])
                    r[1].subs.append(c)
                elif not (isinstance(b, ast.Name) and b.id == "object"):
                    c.ext_bases = True
        self._attr_types()

    # ---- collection
    def _collect(self, m):
        for node in m.tree.body:
            self._collect_node(m, node, None, None, toplevel=True)

    def _collect_node(self, m, node, cls, parent, toplevel=False):
        if isinstance(node, (ast.FunctionDef, ast.AsyncFunctionDef)):
            f = Func(m, node, cls, parent)
            self.funcs.append(f)
            if parent is not None:
                parent.nested.append(f)
                parent.locals.add(f.name)
            elif cls is not None:
                cls.methods.setdefault(f.name, []).append(f)
            else:
                m.funcs[f.name] = f
            if parent is None:
                self.by_name.setdefault(f.name, []).append(f)
                if f.setter_of:
                    self.setters.setdefault(f.setter_of, []).append(f)
                if f.is_property:
                    self.getters.setdefault(f.name, []).append(f)
            self._locals(f, node.body)
            for sub in self._iter_defs(node.body):
                self._collect_node(m, sub, None, f)
        elif isinstance(node, ast.ClassDef):
            if parent is not None or cls is not None:
                raise TranslateError(f"{m.rel}:{node.lineno}: nested class {node.name} not supported")
            c = Cls(m, node)
            self.classes.append(c)
            m.classes[c.name] = c
            for sub in node.body:
                if isinstance(sub, (ast.FunctionDef, ast.AsyncFunctionDef)):
                    self._collect_node(m, sub, c, None)
                elif isinstance(sub, ast.AnnAssign) and isinstance(sub.target, ast.Name):
                    c.fields.append(sub.target.id)
                elif isinstance(sub, ast.ClassDef):
                    raise TranslateError(f"{m.rel}:{sub.lineno}: nested class not supported")
        elif toplevel:
            todo = [node]
            while todo:
                n = todo.pop(0)
                if isinstance(n, (ast.FunctionDef, ast.AsyncFunctionDef, ast.ClassDef)):
                    self._collect_node(m, n, None, None, toplevel=True)
                    continue
                for t in self._targets(n):
                    m.globals.add(t)
                todo.extend(c for c in ast.iter_child_nodes(n) if isinstance(c, (ast.stmt, ast.ExceptHandler)))

    @staticmethod
    def _iter_defs(body):
        """function defs nested in a function body (not inside further defs)"""
        todo = list(body)
        while todo:
            n = todo.pop(0)
            if isinstance(n, (ast.FunctionDef, ast.AsyncFunctionDef)):
                yield n
            elif isinstance(n, ast.ClassDef):
                raise TranslateError(f"line {n.lineno}: class inside a function not supported")
            else:
                todo.extend(ast.iter_child_nodes(n))

    @staticmethod
    def _targets(node):
        out = []

        def tnames(t):
            if isinstance(t, ast.Name):
                out.append(t.id)
            elif isinstance(t, (ast.Tuple, ast.List)):
                for e in t.elts:
                    tnames(e)
            elif isinstance(t, ast.Starred):
                tnames(t.value)
        if isinstance(node, ast.Assign):
            for t in node.targets:
                tnames(t)
        elif isinstance(node, (ast.AnnAssign, ast.AugAssign)):
            tnames(node.target)
        elif isinstance(node, (ast.For, ast.AsyncFor)):
            tnames(node.target)
        elif isinstance(node, (ast.With, ast.AsyncWith)):
            for it in node.items:
                if it.optional_vars is not None:
                    tnames(it.optional_vars)
        elif isinstance(node, ast.ExceptHandler) and node.name:
            out.append(node.name)
        elif isinstance(node, (ast.Import, ast.ImportFrom)):
            for a in node.names:
                out.append((a.asname or a.name).split(".")[0])
        elif isinstance(node, ast.NamedExpr):
            tnames(node.target)
        elif isinstance(node, ast.comprehension):
            tnames(node.target)
        return out

    def _locals(self, f, body):
        """names assigned anywhere in the function body (not inside nested defs)"""
        todo = list(body)
        while todo:
            n = todo.pop()
            if isinstance(n, (ast.FunctionDef, ast.AsyncFunctionDef, ast.ClassDef, ast.Lambda)):
                continue
            for t in self._targets(n):
                f.locals.add(t)
            if isinstance(n, ast.Nonlocal):
                raise TranslateError(f"{f.fq}: nonlocal not supported")
            if isinstance(n, ast.Global):
                f.global_decl.update(n.names)
            if isinstance(n, ast.AnnAssign) and isinstance(n.target, ast.Name):
                f.local_types.setdefault(n.target.id, []).append(("ann", n.annotation))
            if isinstance(n, ast.Assign) and len(n.targets) == 1 and isinstance(n.targets[0], ast.Name) and isinstance(n.value, ast.Call):
                f.local_types.setdefault(n.targets[0].id, []).append(("ctor", n.value.func))
            todo.extend(ast.iter_child_nodes(n))
        f.locals -= f.global_decl
        for g in f.global_decl:
            f.mod.globals.add(g)

    def _imports(self, m):
        for node in ast.walk(m.tree):
            if isinstance(node, ast.Import):
                for a in node.names:
                    local = (a.asname or a.name).split(".")[0]
                    if a.name == self.package or a.name.startswith(self.package + "."):
                        m.imports[local] = ("pkgmod", a.name if a.asname else self.package)
                    else:
                        m.imports[local] = ("ext", a.name)
            elif isinstance(node, ast.ImportFrom):
                modname = node.module or ""
                if node.level:
                    base = m.dotted.split(".")
                    if not m.rel.endswith("__init__.py"):
                        base = base[:-1]
                    base = base[: len(base) - (node.level - 1)]
                    modname = ".".join(base + ([modname] if modname else []))
                for a in node.names:
                    local = a.asname or a.name
                    if modname == self.package or modname.startswith(self.package + "."):
                        if f"{modname}.{a.name}" in self.by_dotted:
                            m.imports[local] = ("pkgmod", f"{modname}.{a.name}")
                        else:
                            m.imports[local] = ("pkgobj", modname, a.name)
                    else:
                        m.imports[local] = ("ext", f"{modname}.{a.name}")

    # ---- name resolution
    def lookup_global(self, mod, name, depth=0):
        """('func', Func) | ('cls', Cls) | ('glob', rel, name) | ('ext', text) | ('mod', Mod) | None (builtin/unknown)"""
        if name in mod.funcs:
            return ("func", mod.funcs[name])
        if name in mod.classes:
            return ("cls", mod.classes[name])
        imp = mod.imports.get(name)
        if imp is not None:
            if imp[0] == "ext":
                return ("ext", imp[1])
            if imp[0] == "pkgmod":
                tm = self.by_dotted.get(imp[1])
                return ("mod", tm) if tm else ("ext", imp[1])
            tm = self.by_dotted.get(imp[1])
            if tm is None or depth > 6:
                return ("ext", f"{imp[1]}.{imp[2]}")
            r = self.lookup_global(tm, imp[2], depth + 1)
            return r if r is not None else ("glob", tm.rel, imp[2])
        if name in mod.globals:
            return ("glob", mod.rel, name)
        return None

    def resolve_name_expr(self, e, mod):
        if isinstance(e, ast.Name):
            return self.lookup_global(mod, e.id)
        if isinstance(e, ast.Attribute) and isinstance(e.value, ast.Name):
            r = self.lookup_global(mod, e.value.id)
            if r and r[0] == "mod":
                return self.lookup_global(r[1], e.attr)
            if r and r[0] == "ext":
                return ("ext", f"{r[1]}.{e.attr}")
        return None

    # ---- light types: tags ('pkg', Cls) | ('ext',) | ('data',) | ('unknown',)
    def ann_tags(self, ann, mod):
        if ann is None:
            return {("unknown",)}
        if isinstance(ann, ast.Constant):
            if ann.value is None:
                return set()
            if isinstance(ann.value, str):
                try:
                    return self.ann_tags(ast.parse(ann.value, mode="eval").body, mod)
                except SyntaxError:
                    return {("unknown",)}
            return {("data",)}
        if isinstance(ann, ast.Name):
            r = self.lookup_global(mod, ann.id)
            if r and r[0] == "cls":
                return {("pkg", r[1])}
            if ann.id in DATA_NAMES:
                return {("data",)}
            if r and r[0] == "ext":
                return {("data",)} if ann.id in DATA_NAMES else {("ext",)}
            if r is None:
                return {("ext",)} if ann.id[:1].isupper() else {("unknown",)}
            return {("unknown",)}
        if isinstance(ann, ast.Attribute):
            r = self.resolve_name_expr(ann, mod)
            if r and r[0] == "cls":
                return {("pkg", r[1])}
            return {("ext",)}
        if isinstance(ann, ast.Subscript):
            head = ann.value.id if isinstance(ann.value, ast.Name) else ann.value.attr if isinstance(ann.value, ast.Attribute) else ""
            if head in UNION_NAMES:
                elts = ann.slice.elts if isinstance(ann.slice, ast.Tuple) else [ann.slice]
                out = set()
                for x in elts:
                    out |= self.ann_tags(x, mod)
                return out
            if head in DATA_NAMES:
                return {("data",)}
            if head in ("Type", "Callable", "Awaitable", "Coroutine"):
                return {("ext",)}
            return self.ann_tags(ann.value, mod)
        if isinstance(ann, ast.BinOp) and isinstance(ann.op, ast.BitOr):
            return self.ann_tags(ann.left, mod) | self.ann_tags(ann.right, mod)
        return {("unknown",)}

    def _attr_types(self):
        tags = self.attr_tags
        for c in self.classes:
            for sub in c.node.body:
                if isinstance(sub, ast.AnnAssign) and isinstance(sub.target, ast.Name):
                    tags.setdefault(sub.target.id, set()).update(self.ann_tags(sub.annotation, c.mod))
                    self.attr_ann.setdefault(sub.target.id, set()).update(self.ann_tags(sub.annotation, c.mod))
                elif isinstance(sub, ast.Assign):
                    for t in sub.targets:
                        if isinstance(t, ast.Name):
                            tags.setdefault(t.id, set()).add(("unknown",))
        for f in self.funcs:
            for n in ast.walk(f.node):
                tgt, val, ann = None, None, None
                if isinstance(n, ast.AnnAssign) and isinstance(n.target, ast.Attribute):
                    tgt, val, ann = n.target, n.value, n.annotation
                elif isinstance(n, ast.Assign):
                    for t in n.targets:
                        for tt in (t.elts if isinstance(t, (ast.Tuple, ast.List)) else [t]):
                            if isinstance(tt, ast.Attribute):
                                single = not isinstance(t, (ast.Tuple, ast.List))
                                self._attr_assign(f, tt, n.value if single else None, None)
                    continue
                if tgt is not None:
                    self._attr_assign(f, tgt, val, ann)

    def _attr_assign(self, f, tgt, val, ann):
        s = self.attr_tags.setdefault(tgt.attr, set())
        if ann is not None:
            s |= self.ann_tags(ann, f.mod)
            self.attr_ann.setdefault(tgt.attr, set()).update(self.ann_tags(ann, f.mod))
            return
        if val is None:
            s.add(("unknown",))
        elif isinstance(val, ast.Constant) and val.value is None:
            pass
        elif isinstance(val, ast.Call):
            r = self.resolve_name_expr(val.func, f.mod)
            # ("extval": whatever an external callable returned - never a package object, maybe data)
            s.add(("pkg", r[1]) if r and r[0] == "cls" else ("extval",) if r and r[0] == "ext" else ("unknown",))
        elif isinstance(val, ast.Name) and val.id in f.ann and val.id in f.params:
            s |= self.ann_tags(f.ann[val.id], f.mod)
        else:
            s.add(("unknown",))

    def attr_types(self, attr):
        """declared (annotated) types win over types guessed from plain assignments"""
        return self.attr_ann.get(attr) or self.attr_tags.get(attr) or set()

    def is_handle_attr(self, attr):
        """every known type of the attribute is a class type that is not a package dataclass"""
        tags = self.attr_types(attr)
        if not tags:
            return False
        for t in tags:
            if t[0] == "ext":
                continue
            if t[0] == "pkg" and not t[1].is_dataclass:
                continue
            return False
        return True
