"""translator piece for C08: the transports' ERROR MAPS at the library boundary.

Two extractions from /repo's live code:

* dynamic (this is *dynamic extraction*, not source translation): tools/harness/libfakes.py injects every
  boundary outcome into every method of every REAL transport object and records what the scrapli method did;
  the observed tables are written to lean/ScrapliModel/Gen/LossMaps.lean (errTbl, afterDev, aliveAfterTbl) together
  with the hand-written boundary domain (domainTbl, from libfakes.DOMAIN — library behaviour, not scrapli's) and the
  summaries the theorems in ScrapliProps/C08.lean are re-checked against (totalTransports, badEntries ...).
* static (`static_map`): from the AST of each transport method — which exception classes are caught around the
  boundary call and what is raised instead.  props/c08.py compares the static prediction with the dynamic table.
"""
import ast

from translate import HEADER, TranslateError, _parse

TRANSPORT_FILES = {
    "system": "scrapli/transport/plugins/system/transport.py",
    "telnet": "scrapli/transport/plugins/telnet/transport.py",
    "asynctelnet": "scrapli/transport/plugins/asynctelnet/transport.py",
    "paramiko": "scrapli/transport/plugins/paramiko/transport.py",
    "asyncssh": "scrapli/transport/plugins/asyncssh/transport.py",
}
PTY = "scrapli/transport/plugins/system/ptyprocess.py"
SOCK = "scrapli/transport/base/base_socket.py"


# ---------------------------------------------------------------------------------------------------
# dynamic tables -> Lean
def lean_act(a):
    from harness.libfakes import short
    a = short(a)
    if a.startswith("S:"):
        return f"(.raiseS .{a[2:]})"
    if a.startswith("raw:"):
        return f"(.raiseRaw .{a[4:]})"
    if a in ("retData", "retEmpty", "retEmptyBusy", "retNone", "retTrue", "retFalse"):
        return "." + a
    raise TranslateError(f"act {a!r} observed on a real transport has no counterpart in the model (would block / hang inside one transport call)")


def act_ok(a):
    return not (a.startswith("raw:") or a == "S:other" or a == "na")


def loss_out(t, o):
    """a read with this outcome never delivers bytes"""
    from harness.libfakes import DATA_LIKE
    return o not in DATA_LIKE and o != "none" and not (t == "sim" and o == "empty")


def sets_loss(t, o):
    """... and the session is gone for good (a socket.timeout fails the call but does not end the session)"""
    return loss_out(t, o) and (o != "timeout" or t == "asynctelnet") and o != "cmdTimeout"


def _rows(lines):
    """lines = [(lean term, comment)] -> list body with the commas before the comments"""
    return "".join(f"  {term}{',' if i + 1 < len(lines) else ''}  -- {cm}\n" for i, (term, cm) in enumerate(lines))


class Tables:
    """the observed tables with the control-buffer dimension folded in (c = 0 for every transport, c = 1, 2 for the Telnet ones)"""

    def __init__(self, L, emap, after, alive, emapC=None, afterC=None, aliveC=None):
        self.L, self.emap, self.after, self.alive = L, emap, after, alive
        self.emapC, self.afterC, self.aliveC = emapC or {}, afterC or {}, aliveC or {}

    def ctrls(self, t):
        return (0, 1, 2) if t in self.L.TELNETS else (0,)

    def E(self, c, t, m, o):
        if c and t in self.L.TELNETS and (c, t, m, o) in self.emapC:
            return self.emapC[(c, t, m, o)]
        return self.emap.get((t, m, o), "na")

    def A(self, c, t, lm, lo, m, o):
        if c and t in self.L.TELNETS:
            return self.afterC.get((c, t, lm, lo, m, o), self.E(c, t, m, o))
        return self.after.get((t, lm, lo, m, o), self.E(0, t, m, o))

    def AL(self, c, t, lm, lo):
        if c and t in self.L.TELNETS:
            return self.aliveC.get((c, t, lm, lo), "na")
        return self.alive.get((t, lm, lo), "na")


def compute_total(L, emap, after, alive, emapC=None, afterC=None, aliveC=None):
    """python twin of ScrapliModel/Loss.lean `mapTotalB` / `aliveTotalB` (Lean re-decides both; a difference breaks the build).
    returns (total transports, alive-total transports, bad entries)"""
    from harness.libfakes import short
    T = Tables(L, emap, after, alive, emapC, afterC, aliveC)
    total, alive_total, bad = [], [], []
    for t in L.TRANSPORTS:
        ok = True
        for c in T.ctrls(t):
            for m in L.METHODS:
                for o in L.OUTCOMES:
                    if not L.in_domain(t, m, o):
                        continue
                    a = short(T.E(c, t, m, o))
                    good = act_ok(a)
                    if m == "read":
                        good = good and (a in ("retData", "retEmpty", "retEmptyBusy") or a.startswith("S:"))
                    if m == "read" and loss_out(t, o):
                        good = good and (a in ("retEmpty", "retEmptyBusy") or a.startswith("S:"))
                    if m == "read" and a == "retEmptyBusy" and not sets_loss(t, o):
                        good = False
                    if not good:
                        ok = False
                        bad.append(("fresh", t, m, o, a, c))
            for lm in ("read", "write"):
                for lo in L.OUTCOMES:
                    if not (L.in_domain(t, lm, lo) and sets_loss(t, lo)):
                        continue
                    for m in ("read", "write", "close"):
                        for o in L.OUTCOMES:
                            if not L.in_domain(t, m, o) or (m == "read" and o not in L.post_read(t, lm, lo)) or o == "none":
                                continue
                            a = short(T.A(c, t, lm, lo, m, o))
                            good = act_ok(a)
                            if m == "read" and loss_out(t, o):
                                good = good and (a == "retEmpty" or a.startswith("S:"))
                            if m == "read" and a == "retEmptyBusy":
                                good = False
                            if not good:
                                ok = False
                                bad.append(("after", t, lm, lo, m, o, a, c))
            if short(T.E(c, t, "write", "data")).startswith(("S:", "raw:")):
                ok = False
                bad.append(("write-data-raises", t, c))
        E0 = lambda m, o: short(T.E(0, t, m, o))
        if not (E0("read", "none") == "S:notOpened" and E0("write", "none") == "S:notOpened" and E0("isalive", "none") == "retFalse" and act_ok(E0("close", "none"))):
            ok = False
            bad.append(("none", t, E0("read", "none"), E0("write", "none"), E0("isalive", "none")))
        if ok:
            total.append(t)
        aok = True
        for c in T.ctrls(t):
            for lm in ("read", "write"):
                for lo in L.OUTCOMES:
                    if L.in_domain(t, lm, lo) and sets_loss(t, lo):
                        if short(T.AL(c, t, lm, lo)) != "retFalse":
                            aok = False
                            bad.append(("alive", t, lm, lo, T.AL(c, t, lm, lo), c))
        if aok:
            alive_total.append(t)
    return total, alive_total, bad


def _pat(p, x):
    return p == "*" or x in p.split("|")


def assumed_impossible(L, emap):
    """out-of-domain rows whose observed act is not allowed = what the hand-written domain hypothesis defines away.
    Each must match a rule of the REVIEWED file tools/gen/c08_impossible.json; returns [(t, m, o, act, rule index)]"""
    import json
    from pathlib import Path
    from harness.libfakes import short
    rules = json.load(open(Path(__file__).with_name("c08_impossible.json")))["rules"]
    rows, unmatched = [], []
    for (t, m, o), a in sorted(emap.items(), key=lambda kv: key3(L, *kv[0])):
        if L.in_domain(t, m, o) or act_ok(short(a)):
            continue
        idx = next((i for i, r in enumerate(rules) if _pat(r["t"], t) and _pat(r["m"], m) and _pat(r["o"], o)), None)
        if idx is None:
            unmatched.append((t, m, o, a))
        rows.append((t, m, o, a, idx))
    if unmatched:
        raise TranslateError("the boundary domain (libfakes.DOMAIN) excludes rows that let a non-allowed act through and that no rule of "
                             f"tools/gen/c08_impossible.json justifies: {unmatched[:12]}{' ...' if len(unmatched) > 12 else ''}")
    return rows, rules


def observe():
    from harness import libfakes as L
    return (L, L.observe_map(), L.observe_after(), L.observe_alive_after()) + tuple(L.observe_ctrl())


NOUT = 20


def key3(L, t, m, o):
    return (L.TRANSPORTS.index(t) * 8 + L.METHODS.index(m)) * NOUT + L.OUTCOMES.index(o)


def key5(L, t, lm, lo, m, o):
    return (key3(L, t, lm, lo) * 8 + L.METHODS.index(m)) * NOUT + L.OUTCOMES.index(o)


def keyC3(L, c, t, m, o):
    return c * 1000000 + key3(L, t, m, o)


def keyC5(L, c, t, lm, lo, m, o):
    return c * 1000000 + key5(L, t, lm, lo, m, o)


def generate(obs=None):
    L, emap, after, alive, emapC, afterC, aliveC = obs or observe()
    from harness.libfakes import short
    T = Tables(L, emap, after, alive, emapC, afterC, aliveC)
    if len(L.TRANSPORTS) != 6 or len(L.METHODS) != 8 or len(L.OUTCOMES) != NOUT or len(L.CTRLS) != 3 or key5(L, "sim", "close", "moreIacVerb", "close", "moreIacVerb") >= 1000000:
        raise TranslateError("vocabulary of libfakes and ScrapliModel/LossTypes.lean differ")
    body = HEADER.format(src="the behaviour of the real transports under boundary injection (tools/harness/libfakes.py, dynamic extraction) "
                             "+ libfakes.DOMAIN (hand-written library behaviour)")
    body += "import ScrapliModel.LossTypes\nnamespace Scrapli.Gen.Loss\nopen Scrapli.Loss\n\n"
    body += "/-- can the library / OS call produce this outcome? [transport][method][outcome] (hand-written: libfakes.DOMAIN) -/\n"
    body += "def domainTbl : List (List (List Bool)) := [\n"
    for t in L.TRANSPORTS:
        body += f"  [ -- {t}\n"
        for m in L.METHODS:
            row = ", ".join("true" if L.in_domain(t, m, o) else "false" for o in L.OUTCOMES)
            body += f"    [{row}]{',' if m != L.METHODS[-1] else ''}  -- {m}\n"
        body += f"  ]{',' if t != L.TRANSPORTS[-1] else ''}\n"
    body += "]\n\n/-- OBSERVED: what the real method does on a fresh (opened) transport when its boundary call has that outcome -/\n"
    body += "def errTbl : List (List (List Act)) := [\n"
    for t in L.TRANSPORTS:
        body += f"  [ -- {t}\n"
        for m in L.METHODS:
            row = ", ".join(lean_act(emap[(t, m, o)]) if (t, m, o) in emap else ".na" for o in L.OUTCOMES)
            names = " ".join(f"{o}={emap[(t, m, o)].split(':')[-1]}" for o in L.OUTCOMES if (t, m, o) in emap and emap[(t, m, o)].startswith("raw:") and L.in_domain(t, m, o))
            body += f"    [{row}]{',' if m != L.METHODS[-1] else ''}  -- {m}{'  RAW: ' + names if names else ''}\n"
        body += f"  ]{',' if t != L.TRANSPORTS[-1] else ''}\n"
    body += "]\n\n/-- OBSERVED (Telnet transports): entries that differ from errTbl when a control sequence is pending: keyC3 ctrl t method outcome -/\n"
    body += "def errDevC : List (Nat × Act) := [\n"
    devc = [(k, v) for k, v in sorted(emapC.items(), key=lambda kv: keyC3(L, *kv[0])) if short(v) != short(emap.get(k[1:], "na"))]
    body += _rows([(f"({keyC3(L, *k)}, {lean_act(v)})", f"{k[1]} [{L.CTRLS[k[0]]}]: {k[2]}×{k[3]}") for k, v in devc])
    body += "]\n\n/-- OBSERVED: entries of the post-loss table that differ from the loss-free one: keyC5 ctrl t lossMethod lossOutcome method outcome -/\n"
    body += "def afterDev : List (Nat × Act) := [\n"
    allafter = [((0,) + k, v) for k, v in after.items()] + list(afterC.items())
    dev = [(k, v) for k, v in sorted(allafter, key=lambda kv: keyC5(L, *kv[0])) if short(v) != short(T.E(k[0], k[1], k[4], k[5]))]
    body += _rows([(f"({keyC5(L, *k)}, {lean_act(v)})", f"{k[1]} [{L.CTRLS[k[0]]}]: after {k[2]}×{k[3]}, {k[4]}×{k[5]}") for k, v in dev])
    body += "]\n\n/-- which outcomes a read can have once the loss (key3 t lossMethod lossOutcome) was delivered; head = the library's default (hand-written: libfakes.post_read) -/\n"
    body += "def postReadTbl : List (Nat × List Outcome) := [\n"
    pr = [(t, lm, lo) for t in L.TRANSPORTS for lm in ("read", "write") for lo in L.OUTCOMES if L.is_loss(t, lm, lo)]
    body += _rows([(f"({key3(L, *k)}, [{', '.join('.' + o for o in L.post_read(*k))}])", f"{k[0]}: after {k[1]}×{k[2]}") for k in pr])
    body += "]\n\n/-- OBSERVED: isalive() right after a detectable loss: keyC3 ctrl t lossMethod lossOutcome -/\n"
    body += "def aliveAfterTbl : List (Nat × Act) := [\n"
    allalive = [((0,) + k, v) for k, v in alive.items()] + list(aliveC.items())
    body += _rows([(f"({keyC3(L, *k)}, {lean_act(v)})", f"{k[1]} [{L.CTRLS[k[0]]}]: after {k[2]}×{k[3]}") for k, v in sorted(allalive, key=lambda kv: keyC3(L, *kv[0]))])
    body += "]\n\n"
    total, alive_total, bad = compute_total(L, emap, after, alive, emapC, afterC, aliveC)
    # the tables must be complete: every in-domain row observed, none silently missing or empty
    missing = [(t, m, o) for t in L.TRANSPORTS for m in L.METHODS for o in L.OUTCOMES if L.in_domain(t, m, o) and (t, m, o) not in emap]
    if missing or len(emap) < 300 or len(after) < 100 or len(alive) < 15 or len(emapC) < 100:
        raise TranslateError(f"incomplete observation: {len(emap)} rows, {len(after)} post-loss rows, {len(alive)} isalive rows, "
                             f"{len(emapC)} ctrl rows; in-domain rows never observed: {missing[:10]}")
    for t in L.TRANSPORTS:
        for lm in ("read", "write"):
            for lo in L.DOMAIN[t][lm]:
                if L.is_loss(t, lm, lo) and not L.post_read(t, lm, lo):
                    raise TranslateError(f"post_read({t}, {lm}, {lo}) is empty")
    imp, rules = assumed_impossible(L, emap)
    body += ("/-- THE DOMAIN HYPOTHESIS MADE VISIBLE: every out-of-domain row of errTbl whose observed act is not allowed (if the library could do\n"
             "    this, a raw exception would escape).  Each row is justified by a rule class of the reviewed file tools/gen/c08_impossible.json;\n"
             "    `out_of_domain_bad_rows_listed` (ScrapliProps/C08.lean) decides that there is no other such row. -/\n")
    body += "def assumedImpossible : List (Transport × Method × Outcome) := [\n"
    body += _rows([(f"(.{t}, .{m}, .{o})", f"{a.split(':')[-1]}  [rule {i}: {rules[i]['why'][:70]}…]") for t, m, o, a, i in imp])
    body += "]\n\n"
    for t in L.TRANSPORTS:
        for o in L.OUTCOMES:
            for m in ("read", "write"):
                if L.in_domain(t, m, o) and L.is_loss(t, m, o) != sets_loss(t, o):
                    raise TranslateError(f"libfakes.is_loss and gen.sets_loss differ on {(t, m, o)}")
    body += "/-- generated twins of the hand-written Lean `neverData` / `setsLoss` ([transport][outcome]); `loss_predicates_match` decides equality -/\n"
    body += "def neverDataTbl : List (List Bool) := [\n" + _rows([("[" + ", ".join("true" if loss_out(t, o) else "false" for o in L.OUTCOMES) + "]", t) for t in L.TRANSPORTS]) + "]\n"
    body += "def setsLossTbl : List (List Bool) := [\n" + _rows([("[" + ", ".join("true" if sets_loss(t, o) else "false" for o in L.OUTCOMES) + "]", t) for t in L.TRANSPORTS]) + "]\n\n"
    body += "/-- transports whose generated error map is total into the allowed scrapli classes (re-decided in ScrapliProps/C08.lean) -/\n"
    body += "def totalTransports : List Transport := [" + ", ".join("." + t for t in total) + "]\n"
    body += "/-- transports that report isalive() = False after every detectable loss -/\n"
    body += "def aliveTotalTransports : List Transport := [" + ", ".join("." + t for t in alive_total) + "]\n"
    body += "/-- one in-domain witness (method, outcome) per transport that is NOT total: an obligation left undischarged -/\n"
    wit = {}
    for b in bad:
        if b[0] == "fresh" and b[5] == 0 and b[1] not in wit and b[1] not in total:
            wit[b[1]] = (b[2], b[3])
    for b in bad:
        if b[0] == "after" and b[1] not in wit and b[1] not in total:
            wit[b[1]] = None
    body += "def freshWitnesses : List (Transport × Method × Outcome) := [" + ", ".join(f"(.{t}, .{w[0]}, .{w[1]})" for t, w in wit.items() if w) + "]\n"
    body += "end Scrapli.Gen.Loss\n"
    return [("ScrapliModel/Gen/LossMaps.lean", body)]


# ---------------------------------------------------------------------------------------------------
# static cross-check: handlers around the boundary call, from the AST
def _cls(tree, name):
    for n in ast.walk(tree):
        if isinstance(n, ast.ClassDef) and n.name == name:
            return n
    raise TranslateError(f"class {name} not found")


def _func(node, name):
    for n in ast.walk(node):
        if isinstance(n, (ast.FunctionDef, ast.AsyncFunctionDef)) and n.name == name:
            return n
    raise TranslateError(f"function {name} not found")


def _names(expr):
    """exception class names of an `except <expr>` / suppress(<expr>) argument"""
    if expr is None:
        return ["BaseException"]
    if isinstance(expr, ast.Tuple):
        return [x for e in expr.elts for x in _names(e)]
    if isinstance(expr, ast.Name):
        return [expr.id]
    if isinstance(expr, ast.Attribute):
        return [expr.attr if not (isinstance(expr.value, ast.Name) and expr.value.id in ("socket", "asyncio")) else f"{expr.value.id}.{expr.attr}"]
    raise TranslateError(f"cannot read exception class expression {ast.dump(expr)}")


def _handler_action(h):
    """('raise', ClassName) | ('reraise',) | ('swallow',) | ('cond', errno name, then, else) for the body of an except clause"""
    def act_of(stmts):
        for s in stmts:
            if isinstance(s, ast.Raise):
                if s.exc is None:
                    return ("reraise",)
                e = s.exc.func if isinstance(s.exc, ast.Call) else s.exc
                return ("raise", _names(e)[0])
            if isinstance(s, ast.If):
                names = [n.attr for n in ast.walk(s.test) if isinstance(n, ast.Attribute) and isinstance(n.value, ast.Name) and n.value.id == "errno"]
                inner = act_of(s.body)
                if names and inner and not s.orelse:
                    rest = act_of(stmts[stmts.index(s) + 1:]) or ("swallow",)
                    return ("cond", names[0], inner, rest)
                if not names:
                    # a condition on something else (a setting, message text, address family index): either branch possible
                    a = act_of(s.body)
                    b = act_of(s.orelse) if s.orelse else None
                    rest = act_of(stmts[stmts.index(s) + 1:])
                    alts = []
                    for x in (a, b if s.orelse else rest, rest if a is None or (s.orelse and b is None) else None):
                        if x is not None and x not in alts:
                            alts.append(x)
                    if a is None or (s.orelse and b is None):
                        pass
                    if not alts:
                        continue
                    if a is not None and not s.orelse and rest is None:
                        alts.append(("swallow",)) if ("swallow",) not in alts else None
                    return alts[0] if len(alts) == 1 else ("alt", alts)
        return None
    return act_of(h.body) or ("swallow",)


def _find_call(fn, attr):
    """the first Call whose function is an attribute / name `attr` inside fn, with its chain of enclosing nodes"""
    best = None

    def walk(node, chain):
        nonlocal best
        for ch in ast.iter_child_nodes(node):
            if isinstance(ch, (ast.FunctionDef, ast.AsyncFunctionDef, ast.ClassDef, ast.Lambda)) and ch is not fn:
                continue
            c2 = chain + [(node, ch)]
            if isinstance(ch, ast.Call):
                f = ch.func
                nm = f.attr if isinstance(f, ast.Attribute) else f.id if isinstance(f, ast.Name) else None
                if nm == attr and best is None:
                    best = (ch, c2)
            walk(ch, c2)
    walk(fn, [])
    if best is None:
        raise TranslateError(f"boundary call {attr} not found in {fn.name}")
    return best


def _guards(fn):
    """does the function start with `if not self.x [or ...]: raise ScrapliConnectionNotOpened` before touching the handle?"""
    for s in fn.body:
        if isinstance(s, ast.Expr) and isinstance(s.value, ast.Constant):
            continue
        if isinstance(s, ast.If) and any(isinstance(b, ast.Raise) and b.exc is not None and _names(b.exc.func if isinstance(b.exc, ast.Call) else b.exc)[0] == "ScrapliConnectionNotOpened" for b in s.body):
            return True
        if isinstance(s, ast.Expr) and isinstance(s.value, ast.Call) and isinstance(s.value.func, ast.Attribute) and s.value.func.attr == "_pre_open_closing_log":
            continue
        return False
    return False


def handlers_around(fn, attr):
    """innermost-first list of (class names, action) of the try/except and suppress() contexts enclosing the call"""
    call, chain = _find_call(fn, attr)
    out = []
    for parent, child in reversed(chain):
        if isinstance(parent, ast.Try) and any(child is s for s in parent.body):
            for h in parent.handlers:
                out.append((_names(h.type), _handler_action(h), id(parent)))
        if isinstance(parent, (ast.With, ast.AsyncWith)) and any(child is s for s in parent.body):
            for item in parent.items:
                c = item.context_expr
                if isinstance(c, ast.Call) and isinstance(c.func, ast.Name) and c.func.id == "suppress":
                    out.append(([x for a in c.args for x in _names(a)], ("swallow",), id(parent)))
    return out


# (transport, method) -> chain of (file, class, function, boundary call attr) from the outermost scrapli method to the library call
CHAINS = {
    ("telnet", "read"): [("telnet", "TelnetTransport", "read", "_read"), ("telnet", "TelnetTransport", "_read", "recv")],
    ("telnet", "write"): [("telnet", "TelnetTransport", "write", "send")],
    ("telnet", "open"): [("telnet", "TelnetTransport", "open", "open"), (SOCK, "Socket", "open", "_connect"), (SOCK, "Socket", "_connect", "connect")],
    ("asynctelnet", "read"): [("asynctelnet", "AsynctelnetTransport", "read", "_read"), ("asynctelnet", "AsynctelnetTransport", "_read", "read")],
    ("asynctelnet", "write"): [("asynctelnet", "AsynctelnetTransport", "write", "write")],
    ("asynctelnet", "open"): [("asynctelnet", "AsynctelnetTransport", "open", "open_connection")],
    ("system", "read"): [("system", "SystemTransport", "read", "read"), (PTY, "PtyProcess", "read", "read1")],
    ("system", "write"): [("system", "SystemTransport", "write", "write"), (PTY, "PtyProcess", "write", "write")],
    ("paramiko", "read"): [("paramiko", "ParamikoTransport", "read", "recv")],
    ("paramiko", "write"): [("paramiko", "ParamikoTransport", "write", "send")],
    ("paramiko", "open"): [("paramiko", "ParamikoTransport", "open", "open"), (SOCK, "Socket", "open", "_connect"), (SOCK, "Socket", "_connect", "connect")],
    ("paramiko", "openHs"): [("paramiko", "ParamikoTransport", "open", "start_client")],
    ("paramiko", "openAuth"): [("paramiko", "ParamikoTransport", "open", "_authenticate"), ("paramiko", "ParamikoTransport", "_authenticate", "_authenticate_password"),
                               ("paramiko", "ParamikoTransport", "_authenticate_password", "auth_password")],
    ("paramiko", "openChan"): [("paramiko", "ParamikoTransport", "open", "_open_channel"), ("paramiko", "ParamikoTransport", "_open_channel", "open_session")],
    ("asyncssh", "read"): [("asyncssh", "AsyncsshTransport", "read", "read")],
    ("asyncssh", "write"): [("asyncssh", "AsyncsshTransport", "write", "write")],
    ("asyncssh", "open"): [("asyncssh", "AsyncsshTransport", "open", "connect")],
    ("asyncssh", "openChan"): [("asyncssh", "AsyncsshTransport", "open", "open_session")],
    ("asyncssh", "close"): [("asyncssh", "AsyncsshTransport", "close", "close")],
}


def _resolve(name):
    """python class for a name used in an except clause"""
    import asyncio, builtins, socket
    if name.startswith("socket."):
        return getattr(socket, name.split(".")[1])
    if name.startswith("asyncio."):
        return getattr(asyncio, name.split(".")[1])
    if hasattr(builtins, name):
        return getattr(builtins, name)
    import scrapli.exceptions as X
    if hasattr(X, name):
        return getattr(X, name)
    for modname in ("paramiko", "paramiko.ssh_exception", "asyncssh", "asyncssh.misc", "scrapli.transport.plugins.system.ptyprocess"):
        import importlib
        m = importlib.import_module(modname)
        if hasattr(m, name):
            return getattr(m, name)
    raise TranslateError(f"cannot resolve exception class {name}")


def static_chain(t, m):
    """[(class names, action)] innermost-first along the whole call chain, and whether the outermost method guards a None handle"""
    chain = CHAINS[(t, m)]
    hs = []
    guard = None
    for f, cls, fn, attr in chain:
        rel = TRANSPORT_FILES.get(f, f)
        fnode = _func(_cls(_parse(rel), cls), fn)
        if guard is None:
            guard = _guards(fnode)
        hs = handlers_around(fnode, attr) + hs
    return hs, guard


def predict(t, m, exc):
    """static prediction: the SET of things that can escape method m of transport t when its boundary call raises `exc`"""
    import errno as E
    from harness.libfakes import classify_exc
    hs, _ = static_chain(t, m)

    def go(cur, i):
        while i < len(hs):
            names, action = hs[i][0], hs[i][1]
            i += 1
            if not any(isinstance(cur, _resolve(n)) for n in names):
                continue
            return apply(cur, action, i)
        return {classify_exc(cur)}

    def apply(cur, action, i):
        if action[0] == "alt":
            out = set()
            for a in action[1]:
                out |= apply(cur, a, i)
            return out
        if action[0] == "cond":
            hit = getattr(cur, "errno", None) == getattr(E, action[1]) or bool(cur.args and cur.args[0] == getattr(E, action[1]))
            return apply(cur, action[2] if hit else action[3], i)
        if action[0] == "swallow":
            return {"swallowed"}
        if action[0] == "reraise":
            # re-raised from inside an except clause: sibling clauses of the same try do not see it, outer ones do
            return go(cur, _skip_siblings(hs, i))
        return go(_resolve(action[1])("x"), _skip_siblings(hs, i))
    return go(exc, 0)


def _skip_siblings(hs, i):
    """index of the first handler that belongs to an outer try statement (handlers carry the id of their try)"""
    if i == 0:
        return i
    tid = hs[i - 1][2] if len(hs[i - 1]) > 2 else None
    while i < len(hs) and len(hs[i]) > 2 and hs[i][2] == tid and tid is not None:
        i += 1
    return i


def static_map():
    """(t, m, o) -> predicted act for exception outcomes and for a None handle, wherever a chain is declared"""
    from harness import libfakes as L
    res = {}
    for (t, m) in CHAINS:
        _, guard = static_chain(t, m)
        for o in L.OUTCOMES:
            e = L.exc_for(t, o)
            if e is not None:
                res[(t, m, o)] = sorted(predict(t, m, e))
        if m in ("read", "write"):
            res[(t, m, "none")] = ["S:notOpened" if guard else "raw:attrError:AttributeError"]
    return res
