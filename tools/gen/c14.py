"""translator piece for C14: everything the TimeoutRestore model and the C14 theorems take from the source.

From the live AST of /repo (REPO):
  * the SHAPE of every place that temporarily rewrites timeout_ops / timeout_transport: is the restoring
    assignment in a `finally` that encloses the code run under the temporary value?  (timeout_modifier sync
    and async, Channel/AsyncChannel._read_until_prompt_or_time, GenericDriver/AsyncGenericDriver.read_callback)
  * the defaults (read_duration 2.5 in channel and driver, read_timeout -1.0, ReadCallback.next_timeout -1.0,
    the `>= 0` threshold of read_callback), in thousandths of a second
  * the methods decorated with timeout_modifier, every driver method that has a `timeout_ops` parameter and the
    calls that hand it on as `timeout_ops=timeout_ops` (sync and async generic/network drivers)
  * every function in scrapli/ that assigns an attribute called timeout_ops / timeout_transport
Anything that does not have one of the recognised forms raises TranslateError (never approximated)."""
import ast
from pathlib import Path

from translate import HEADER, TranslateError, _parse
from vlib.common import REPO

OUT = "ScrapliModel/Gen/TimeoutRestoreConsts.lean"
DEC = "scrapli/decorators.py"
CHAN = {"sync": ("scrapli/channel/sync_channel.py", "Channel"), "async": ("scrapli/channel/async_channel.py", "AsyncChannel")}
GEN = {"sync": ("scrapli/driver/generic/sync_driver.py", "GenericDriver"), "async": ("scrapli/driver/generic/async_driver.py", "AsyncGenericDriver")}
NET = {"sync": ("scrapli/driver/network/sync_driver.py", "NetworkDriver"), "async": ("scrapli/driver/network/async_driver.py", "AsyncNetworkDriver")}
ATTRS = ("timeout_ops", "timeout_transport")
FUNC = (ast.FunctionDef, ast.AsyncFunctionDef)


# ---------------------------------------------------------------- AST helpers
def _cls(rel, name):
    for n in _parse(rel).body:
        if isinstance(n, ast.ClassDef) and n.name == name:
            return n
    raise TranslateError(f"{rel}: class {name} not found")


def _method(cnode, name, rel=""):
    for n in cnode.body:
        if isinstance(n, FUNC) and n.name == name:
            return n
    raise TranslateError(f"{rel}: {cnode.name}.{name} not found")


def _parents(root):
    par = {}
    for n in ast.walk(root):
        for ch in ast.iter_child_nodes(n):
            par[ch] = n
    return par


def _assigns(fn, attr, base=None):
    """Assign statements in fn (not in nested defs) whose single target is <base>.<attr>"""
    out = []
    for n in ast.walk(fn):
        if isinstance(n, (ast.Assign, ast.AugAssign, ast.AnnAssign)):
            tgts = n.targets if isinstance(n, ast.Assign) else [n.target]
            for t in tgts:
                if isinstance(t, ast.Attribute) and t.attr == attr and (base is None or (isinstance(t.value, ast.Name) and t.value.id == base)):
                    out.append(n)
    return sorted(out, key=lambda n: n.lineno)


def _contains(node_list, pred):
    return any(pred(x) for s in node_list for x in ast.walk(s))


def _in_finally_of(par, stmt):
    """the Try whose finalbody (directly) holds stmt, or None"""
    p = par.get(stmt)
    if isinstance(p, ast.Try) and stmt in p.finalbody:
        return p
    return None


def _block_of(par, stmt):
    p = par[stmt]
    for f in ("body", "orelse", "finalbody"):
        b = getattr(p, f, None)
        if isinstance(b, list) and stmt in b:
            return b
    if isinstance(p, ast.Try):
        for h in p.handlers:
            if stmt in h.body:
                return h.body
    raise TranslateError(f"line {stmt.lineno}: cannot locate enclosing block")


def _milli(v, what):
    if isinstance(v, bool) or not isinstance(v, (int, float)):
        raise TranslateError(f"{what}: not a number: {v!r}")
    m = round(v * 1000)
    if abs(v * 1000 - m) > 1e-9:
        raise TranslateError(f"{what}: {v!r} is not a whole number of milliseconds")
    return int(m)


def _param_default(fn, name, what):
    a = fn.args
    pos = a.posonlyargs + a.args
    for arg, d in zip(pos[len(pos) - len(a.defaults):], a.defaults):
        if arg.arg == name:
            return ast.literal_eval(d)
    for arg, d in zip(a.kwonlyargs, a.kw_defaults):
        if arg.arg == name and d is not None:
            return ast.literal_eval(d)
    raise TranslateError(f"{what}: parameter {name} has no literal default")


def _has_param(fn, name):
    a = fn.args
    return any(x.arg == name for x in a.posonlyargs + a.args + a.kwonlyargs)


# ---------------------------------------------------------------- shapes
def _is_loop(x):
    return isinstance(x, ast.While)


def _is_read(x):
    """self.read() / self.channel.read()"""
    return isinstance(x, ast.Call) and isinstance(x.func, ast.Attribute) and x.func.attr == "read"


def _swap_site(fn, attr, what):
    """the temporary assignment to <obj>.<attr> in fn and the assignments that put the saved value back.
    -> (swap stmt, [restore stmts]); the saved value is whatever local was read from <obj>.<attr> before the swap"""
    asg = _assigns(fn, attr)
    if len(asg) < 2:
        raise TranslateError(f"{what}: expected a temporary assignment to .{attr} and its restore, found {len(asg)} assignment(s)")
    swap, restores = asg[0], asg[1:]
    saved = {n.targets[0].id for n in ast.walk(fn)
             if isinstance(n, ast.Assign) and len(n.targets) == 1 and isinstance(n.targets[0], ast.Name)
             and isinstance(n.value, ast.Attribute) and n.value.attr == attr and n.lineno < swap.lineno}
    if not saved:
        raise TranslateError(f"{what}: the value of .{attr} is not saved before line {swap.lineno}")
    for r in restores:
        if not (isinstance(r.value, ast.Name) and r.value.id in saved):
            raise TranslateError(f"{what}: line {r.lineno} assigns .{attr} something other than the saved value ({ast.unparse(r.value)})")
    return swap, restores


SAFE_CALLS = {"BytesIO", "time.time"}     # calls allowed between a swap and its try (they cannot raise on the values they get)


def _safe_stmt(st):
    """a statement that cannot raise: a plain (annotated) assignment to a local whose value calls nothing but SAFE_CALLS"""
    if not isinstance(st, (ast.Assign, ast.AnnAssign)):
        return False
    tgts = st.targets if isinstance(st, ast.Assign) else [st.target]
    if not all(isinstance(t, ast.Name) for t in tgts):
        return False
    if st.value is None:
        return True
    for x in ast.walk(st.value):        # (the annotation of a local is not evaluated)
        if isinstance(x, (ast.Await, ast.Yield, ast.YieldFrom, ast.Subscript)):
            return False
        if isinstance(x, ast.Call) and ast.unparse(x.func) not in SAFE_CALLS:
            return False
    return True


def _protected(par, swap, restore, what, need_loop=False):
    """-> (protected, swap_in_try).  protected: the restore is the FIRST statement of the `finally` of a try that either
    follows the swap in the same block with nothing but `_safe_stmt`s in between, or holds the swap in its body with
    nothing but `_safe_stmt`s before it; for the read loops the try body must hold the `while`."""
    tr = _in_finally_of(par, restore)
    if tr is None:
        return False, False
    if tr.finalbody[0] is not restore:
        raise TranslateError(f"{what}: line {restore.lineno}: the restore is not the first statement of its finally")
    if tr.handlers or not tr.body:
        raise TranslateError(f"{what}: the try holding the restore has except handlers / an empty body")
    if need_loop and not _contains(tr.body, _is_loop):
        raise TranslateError(f"{what}: the try holding the restore does not hold the read loop")
    blk = _block_of(par, swap)
    if blk is tr.body:
        before = blk[:blk.index(swap)]
        if not all(_safe_stmt(x) for x in before):
            raise TranslateError(f"{what}: code that can fail stands in the try before the swap")
        return True, True
    if tr not in blk or blk.index(tr) < blk.index(swap):
        raise TranslateError(f"{what}: the try/finally holding the restore does not follow the swap in the same block")
    between = blk[blk.index(swap) + 1:blk.index(tr)]
    bad = [x for x in between if not _safe_stmt(x)]
    if bad:
        raise TranslateError(f"{what}: line {bad[0].lineno}: `{ast.unparse(bad[0])[:60]}` stands between the swap and the try and can fail")
    return True, False


def _shape_modifier():
    """{'sync': bool, 'async': bool}: restore of <driver>.timeout_ops is in the finally around the wrapped call"""
    tree = _parse(DEC)
    tm = next((n for n in tree.body if isinstance(n, ast.FunctionDef) and n.name == "timeout_modifier"), None)
    if tm is None:
        raise TranslateError(f"{DEC}: timeout_modifier not found")
    decs = [n for n in ast.walk(tm) if isinstance(n, FUNC) and n is not tm]
    if len(decs) != 2 or sum(isinstance(d, ast.AsyncFunctionDef) for d in decs) != 1:
        raise TranslateError(f"{DEC}: timeout_modifier: expected one sync and one async inner function")
    res = {}
    for d in decs:
        stack = "async" if isinstance(d, ast.AsyncFunctionDef) else "sync"
        what = f"{DEC}: timeout_modifier ({stack})"
        par = _parents(d)
        swap, restores = _swap_site(d, "timeout_ops", what)
        if len(restores) != 1:
            raise TranslateError(f"{what}: {len(restores)} restores")
        restore = restores[0]
        is_call = lambda x: isinstance(x, ast.Call) and isinstance(x.func, ast.Name) and x.func.id == "wrapped_func"
        prot, in_try = _protected(par, swap, restore, what)
        if prot:
            if in_try or not _contains(_in_finally_of(par, restore).body, is_call):
                raise TranslateError(f"{what}: the try does not enclose the wrapped call / holds the swap")
            res[stack] = True
        else:
            blk = _block_of(par, swap)
            # recognised unprotected form: swap; result = call; restore   in one block
            if restore in blk and blk.index(restore) > blk.index(swap) and _contains(blk[blk.index(swap) + 1:blk.index(restore)], is_call):
                res[stack] = False
            else:
                raise TranslateError(f"{what}: restore of timeout_ops has an unrecognised form")
    return res


def _shape_channel(stack):
    rel, cname = CHAN[stack]
    fn = _method(_cls(rel, cname), "_read_until_prompt_or_time", rel)
    what = f"{rel}: _read_until_prompt_or_time"
    par = _parents(fn)
    swap, restores = _swap_site(fn, "timeout_transport", what)
    if len(restores) != 1:
        raise TranslateError(f"{what}: {len(restores)} restores")
    restore = restores[0]
    v = swap.value
    if not (isinstance(v, ast.Call) and isinstance(v.func, ast.Name) and v.func.id == "int" and len(v.args) == 1
            and isinstance(v.args[0], ast.Name) and v.args[0].id == "read_duration"):
        raise TranslateError(f"{what}: swap value is not int(read_duration)")
    prot, in_try = _protected(par, swap, restore, what, need_loop=True)
    if prot:
        fin = True      # (the channel assigns the args attribute directly: nothing can raise inside the swap itself)
    else:
        blk = _block_of(par, swap)
        if restore in blk and blk.index(restore) > blk.index(swap) and _contains(blk[blk.index(swap) + 1:blk.index(restore)], _is_loop):
            fin = False
        else:
            raise TranslateError(f"{what}: restore has an unrecognised form")
    # default duration
    dflt = None
    for n in ast.walk(fn):
        if (isinstance(n, ast.If) and isinstance(n.test, ast.Compare) and isinstance(n.test.left, ast.Name) and n.test.left.id == "read_duration"
                and isinstance(n.test.ops[0], ast.Is) and isinstance(n.test.comparators[0], ast.Constant) and n.test.comparators[0].value is None
                and len(n.body) == 1 and isinstance(n.body[0], ast.Assign)):
            dflt = ast.literal_eval(n.body[0].value)
    if dflt is None:
        raise TranslateError(f"{what}: `if read_duration is None: read_duration = <literal>` not found")
    return fin, in_try, _milli(dflt, f"{rel} default read_duration")


def _shape_read_callback(stack):
    rel, cname = GEN[stack]
    fn = _method(_cls(rel, cname), "read_callback", rel)
    what = f"{rel}: read_callback"
    par = _parents(fn)
    swap, restores = _swap_site(fn, "timeout_transport", what)
    v = swap.value
    if not (isinstance(v, ast.IfExp) and isinstance(v.test, ast.Compare) and isinstance(v.test.left, ast.Name) and v.test.left.id == "read_timeout"
            and isinstance(v.test.ops[0], ast.GtE) and isinstance(v.test.comparators[0], ast.Constant)
            and isinstance(v.body, ast.Name) and v.body.id == "read_timeout"
            and isinstance(v.orelse, ast.Attribute) and v.orelse.attr == "timeout_transport"):
        raise TranslateError(f"{what}: swap is not `read_timeout if read_timeout >= <c> else self.timeout_transport`")
    thr = _milli(v.test.comparators[0].value, f"{rel} read_timeout threshold")
    fin, in_try = None, False
    if len(restores) == 1:
        prot, in_try = _protected(par, swap, restores[0], what, need_loop=True)
        if prot:
            fin = True
    if fin is None and len(restores) == 2:
        a, b = restores
        pa = par.get(a)
        in_handler = isinstance(pa, ast.ExceptHandler) and any(isinstance(s, ast.Raise) for s in pa.body)
        if in_handler and _in_finally_of(par, a) is None and _in_finally_of(par, b) is None and not isinstance(par.get(b), ast.ExceptHandler):
            fin = False            # the form before 9d6a16c: `except ScrapliTimeout: restore; raise` + restore before callback.run
    if fin is None:
        raise TranslateError(f"{what}: the restores of self.timeout_transport have an unrecognised form")
    return fin, in_try, thr, _milli(_param_default(fn, "read_timeout", rel), f"{rel} read_timeout default")


# ---------------------------------------------------------------- tables
def _driver_tables():
    """decorated, takes (methods with a timeout_ops parameter), passes (edges handing timeout_ops on by keyword).
    Every class of every module under scrapli/ is looked at; self./super(). calls are resolved to the class itself
    (if it defines the method) or its first base."""
    decorated, takes, passes = [], [], []
    four = {GEN["sync"][1]: GEN["sync"][0], GEN["async"][1]: GEN["async"][0], NET["sync"][1]: NET["sync"][0], NET["async"][1]: NET["async"][0]}
    need_base = {"NetworkDriver": "GenericDriver", "AsyncNetworkDriver": "AsyncGenericDriver"}
    classes = []
    for cname, rel in four.items():
        classes.append((rel, _cls(rel, cname)))
    for p in sorted((Path(REPO) / "scrapli").rglob("*.py")):
        rel = str(p.relative_to(REPO))
        for n in ast.walk(ast.parse(p.read_text())):
            if isinstance(n, ast.ClassDef) and not (n.name in four and four[n.name] == rel):
                classes.append((rel, n))
            if isinstance(n, FUNC) and any(getattr(d, "id", getattr(d, "attr", None)) == "timeout_modifier" for d in n.decorator_list):
                pass  # handled per class below; module-level functions:
        for n in ast.parse(p.read_text()).body:
            if isinstance(n, FUNC) and any(getattr(d, "id", getattr(d, "attr", None)) == "timeout_modifier" for d in n.decorator_list):
                raise TranslateError(f"{rel}: module-level function {n.name} is decorated with timeout_modifier")
    for rel, c in classes:
        cname = c.name
        bases = [getattr(b, "id", getattr(b, "attr", None)) for b in c.bases]
        if cname in need_base and rel == four.get(cname) and need_base[cname] not in bases:
            raise TranslateError(f"{rel}: {cname} does not derive from {need_base[cname]}")
        base = need_base.get(cname) if rel == four.get(cname) else (bases[0] if bases else None)
        own = {n.name for n in c.body if isinstance(n, FUNC)}
        for fn in c.body:
            if not isinstance(fn, FUNC):
                continue
            decs = [getattr(d, "id", getattr(d, "attr", None)) for d in fn.decorator_list]
            if "timeout_modifier" in decs:
                decorated.append((cname, fn.name))
                if not _has_param(fn, "timeout_ops"):
                    raise TranslateError(f"{rel}: {cname}.{fn.name} is decorated with timeout_modifier but has no timeout_ops parameter")
            if fn.name in ("__init__", "__new__") or not _has_param(fn, "timeout_ops"):   # constructors: the configured value
                continue
            takes.append((cname, fn.name))
            for call in ast.walk(fn):
                if not (isinstance(call, ast.Call) and isinstance(call.func, ast.Attribute)):
                    continue
                kw = [k for k in call.keywords if k.arg == "timeout_ops"]
                if not kw:
                    continue
                if not (isinstance(kw[0].value, ast.Name) and kw[0].value.id == "timeout_ops"):
                    raise TranslateError(f"{rel}: {cname}.{fn.name}: passes timeout_ops={ast.unparse(kw[0].value)} (not its own parameter)")
                recv, m = call.func.value, call.func.attr
                if isinstance(recv, ast.Name) and recv.id == "self":
                    tcls = cname if m in own else base
                elif isinstance(recv, ast.Call) and getattr(recv.func, "id", None) == "super":
                    tcls = base
                else:
                    raise TranslateError(f"{rel}: {cname}.{fn.name}: timeout_ops handed to {ast.unparse(call.func)}")
                if tcls is None:
                    raise TranslateError(f"{rel}: {cname}.{fn.name}: cannot resolve {ast.unparse(call.func)}")
                if ((cname, fn.name), (tcls, m)) not in passes:
                    passes.append(((cname, fn.name), (tcls, m)))
    return decorated, takes, passes


def _assign_sites():
    """(file, enclosing function path, attribute) of every assignment to an attribute named timeout_ops / timeout_transport"""
    out = set()
    root = Path(REPO) / "scrapli"
    for p in sorted(root.rglob("*.py")):
        rel = str(p.relative_to(REPO))
        tree = ast.parse(p.read_text())

        def visit(node, path):
            for ch in ast.iter_child_nodes(node):
                if isinstance(ch, (ast.ClassDef, *FUNC)):
                    visit(ch, path + [ch.name])
                    continue
                if isinstance(ch, (ast.Assign, ast.AugAssign, ast.AnnAssign)):
                    for t in (ch.targets if isinstance(ch, ast.Assign) else [ch.target]):
                        for x in ast.walk(t):
                            if isinstance(x, ast.Attribute) and x.attr in ATTRS and isinstance(x.ctx, ast.Store):
                                out.add((rel, ".".join(path), x.attr))
                if isinstance(ch, ast.Call) and getattr(ch.func, "id", None) == "setattr" and len(ch.args) >= 2 \
                        and isinstance(ch.args[1], ast.Constant) and ch.args[1].value in ATTRS:
                    out.add((rel, ".".join(path), ch.args[1].value))
                visit(ch, path)
        visit(tree, [])
    return sorted(out)


def extract():
    """all extracted facts as a dict (also used by tools/props/c14.py)"""
    mod = _shape_modifier()
    d = {"shape": {}, "chan_default": {}, "rt_threshold": {}, "rt_default": {}, "drv_default": {}}
    for stack in ("sync", "async"):
        cf, chan_in_try, cd = _shape_channel(stack)
        bf, swap_in_try, thr, rtd = _shape_read_callback(stack)
        d["shape"][stack] = (mod[stack], cf, bf, swap_in_try, chan_in_try)
        d["chan_default"][stack], d["rt_threshold"][stack], d["rt_default"][stack] = cd, thr, rtd
        rel, cname = GEN[stack]
        d["drv_default"][stack] = _milli(_param_default(_method(_cls(rel, cname), "send_and_read", rel), "read_duration", rel), f"{rel} send_and_read read_duration")
    rc = _cls("scrapli/driver/generic/base_driver.py", "ReadCallback")
    d["next_timeout_default"] = _milli(_param_default(_method(rc, "__init__"), "next_timeout", "ReadCallback"), "ReadCallback next_timeout")
    d["decorated"], d["takes"], d["passes"] = _driver_tables()
    d["assign_sites"] = _assign_sites()
    return d


def _b(x):
    return "true" if x else "false"


def _s(x):
    return '"' + x.replace("\\", "\\\\").replace('"', '\\"') + '"'


def generate():
    d = extract()
    L = [HEADER.format(src="scrapli/decorators.py, channel/{sync,async}_channel.py, driver/{generic,network}/{sync,async}_driver.py, "
                           "driver/generic/base_driver.py and an attribute-assignment scan of scrapli/ (tools/gen/c14.py)"),
         "namespace Scrapli.Gen.TimeoutRestore\n",
         "/-! is the restoring assignment inside a `finally` that encloses the code run under the temporary value? -/\n"]
    for stack in ("sync", "async"):
        m, c, b, w, g = d["shape"][stack]
        L.append(f"def {stack}ModFinally : Bool := {_b(m)}\n")
        L.append(f"def {stack}ChanFinally : Bool := {_b(c)}\n")
        L.append(f"def {stack}CbFinally : Bool := {_b(b)}\n")
        L.append(f"/-- read_callback: the swapping assignment (its setter calls `_set_timeout`, which can raise) stands inside the try -/\n")
        L.append(f"def {stack}CbSwapInTry : Bool := {_b(w)}\n")
        L.append(f"/-- _read_until_prompt_or_time: the swapping assignment stands inside the try -/\n")
        L.append(f"def {stack}ChanSwapInTry : Bool := {_b(g)}\n")
    L.append("/-! defaults, in thousandths of a second -/\n")
    for stack in ("sync", "async"):
        L.append(f"def {stack}ChanDefaultReadDuration : Int := {d['chan_default'][stack]}\n")
        L.append(f"def {stack}DrvDefaultReadDuration : Int := {d['drv_default'][stack]}\n")
        L.append(f"def {stack}ReadTimeoutThreshold : Int := {d['rt_threshold'][stack]}\n")
        L.append(f"def {stack}ReadTimeoutDefault : Int := {d['rt_default'][stack]}\n")
    L.append(f"def nextTimeoutDefault : Int := {d['next_timeout_default']}\n")
    L.append("/-- (class, method) decorated with `timeout_modifier` -/\n")
    L.append("def decorated : List (String × String) := [" + ", ".join(f"({_s(a)}, {_s(b)})" for a, b in d["decorated"]) + "]\n")
    L.append("/-- (class, method) with a `timeout_ops` parameter (constructors excluded) -/\n")
    L.append("def takesTimeoutOps : List (String × String) := [" + ", ".join(f"({_s(a)}, {_s(b)})" for a, b in d["takes"]) + "]\n")
    L.append("/-- caller → callee for every call that hands the caller's own parameter on as `timeout_ops=timeout_ops` -/\n")
    L.append("def passes : List ((String × String) × (String × String)) := [" +
             ", ".join(f"(({_s(a)}, {_s(b)}), ({_s(c)}, {_s(e)}))" for (a, b), (c, e) in d["passes"]) + "]\n")
    L.append("/-- (file, function, attribute) of every assignment to an attribute named timeout_ops / timeout_transport in scrapli/ -/\n")
    L.append("def assignSites : List (String × String × String) := [\n  " +
             ",\n  ".join(f"({_s(a)}, {_s(b)}, {_s(c)})" for a, b, c in d["assign_sites"]) + "]\n")
    L.append("end Scrapli.Gen.TimeoutRestore\n")
    return [(OUT, "".join(L))]
