"""translator piece for C04 (shared with C03): see privgen.py"""
from gen.privgen import generate  # noqa: F401
