#!/usr/bin/env python3
"""validate MANIFEST.json and every evidence file against the schemas; proof-level evidence must have discharged == obligations"""
import json, sys
from pathlib import Path
import jsonschema
V = Path(__file__).resolve().parents[1]
S = Path("/root/.vp")
bad = 0
man = json.load(open(V / "MANIFEST.json"))
try:
    jsonschema.validate(man, json.load(open(S / "MANIFEST.schema.json")))
except Exception as e:
    print("MANIFEST invalid:", str(e)[:300]); bad += 1
es = json.load(open(S / "EVIDENCE.schema.json"))
ids = [c.get("property") or c.get("property_id") or c.get("id") for c in man.get("checks", [])]
for pid in ids:
    f = V / "evidence" / f"{pid}.json"
    if not f.exists():
        print(pid, "no evidence"); bad += 1; continue
    d = json.load(open(f))
    try:
        jsonschema.validate(d, es)
    except Exception as e:
        print(pid, "evidence invalid:", str(e)[:300]); bad += 1; continue
    c = d["coverage"]
    line = f"{pid} level={d['level']} tier={d['tier']} seed={d['seed']} viol={d.get('violations')} wall={d['wall_s']}"
    if d["level"] == "proof":
        line += f" obligations={c.get('obligations')} discharged={c.get('discharged')}"
        if c.get("obligations") != c.get("discharged"):
            line += "  <-- MISMATCH"; bad += 1
    line += f" evals={c.get('evaluations')} nontriv={c.get('distinct_nontrivial')} traces={c.get('traces_validated_against_impl')} samples={len(c.get('samples') or [])}"
    print(line)
sys.exit(1 if bad else 0)
