"""Python regex -> Lean `Scrapli.Regex.RE` (DESIGN §3.2, Part B).

Walks CPython's own parse tree (`re._parser.parse`).  Domain: BYTES / ASCII.  A `str` pattern is
translated as its ASCII encoding (so `\\w`, `\\s`, `\\d`, IGNORECASE have their bytes meaning; the
Unicode-only members of these classes and the special Unicode case folds are outside the model).

Supported: literals, `.`, classes incl. ranges, negation and categories \\w \\W \\s \\S \\d \\D,
greedy / lazy repeats with bounds (`*`, `+`, `?`, `{m,n}`; greediness is irrelevant for language
membership), capturing and non-capturing groups WITHOUT inline flags, alternation, IGNORECASE
(ASCII fold: the positive set of a class is closed under case swap, then negated if `[^…]`), and
`^` / `$` at the two ends of top-level alternation branches (a branch that is exactly one group is
entered, so `(^a$)|(^b$)` works), with or without MULTILINE.
Anything else (look-arounds, back references, \\b, \\A, \\Z, inline flags, anchors in the middle,
possessive repeats, DOTALL-less `.` is supported, LOCALE/UNICODE on bytes are not) raises
TranslateError — the translator never approximates.

`re.search(p, s)` is rendered as a language of WHOLE strings: per branch  pre · body · post  with
    pre  = (ε | Σ*\\n) if the branch starts with `^` (MULTILINE)      [ε without MULTILINE]   else Σ*
    post = (ε | \\nΣ*) if the branch ends with `$`   (MULTILINE)      [(ε | \\n) without]     else Σ*

RE terms are nested tuples:
    ("emp",) ("eps",) ("cls", bitmap:int) ("cat", a, b) ("alt", a, b) ("and", a, b) ("not", a)
    ("star", a) ("rep", a, m, n)
API: translate_search(pattern, flags) -> RE ; translate_branches(pattern, flags) -> [(bol, body, eol)];
     to_lean(RE) -> str ; atoms(RE) -> [bitmap] ; class_reps(RE or list) -> [byte] ;
     helpers emp, eps, cls, cat, alt, and_, not_, star, rep, lit, contains, ANY, ALL.
"""
import re
from re import _parser as sp
from re import _constants as sc

FULL = (1 << 256) - 1


class TranslateError(Exception):
    pass


# ---------------------------------------------------------------- RE constructors (plain, no simplification
# beyond unit laws that keep the printed terms small; Lean's smart constructors do the real work)
emp = ("emp",)
eps = ("eps",)


def cls(bm):
    return ("cls", bm) if bm else emp


def cat(*xs):
    xs = [x for x in xs if x != eps]
    if any(x == emp for x in xs):
        return emp
    if not xs:
        return eps
    out = xs[-1]
    for x in reversed(xs[:-1]):
        out = ("cat", x, out)
    return out


def alt(*xs):
    xs = [x for x in xs if x != emp]
    if not xs:
        return emp
    out = xs[-1]
    for x in reversed(xs[:-1]):
        out = ("alt", x, out)
    return out


def and_(*xs):
    out = xs[-1]
    for x in reversed(xs[:-1]):
        out = ("and", x, out)
    return out


def not_(x):
    return ("not", x)


def star(x):
    return ("star", x)


def rep(x, m, n):
    if (m, n) == (1, 1):
        return x
    if (m, n) == (0, 0):
        return eps
    return ("rep", x, m, n)


def byte(b):
    return ("cls", 1 << b)


def lit(bs):
    if isinstance(bs, str):
        bs = bs.encode("ascii")
    return cat(*[byte(b) for b in bs])


ANY = ("cls", FULL)
ALL = star(ANY)
NL = byte(10)


def contains(bs):
    return cat(ALL, lit(bs), ALL)


def bm_of(chars):
    bm = 0
    for c in chars:
        bm |= 1 << c
    return bm


# ---------------------------------------------------------------- categories (bytes semantics)
_WORD = bm_of([c for c in range(256) if chr(c).isalnum() and c < 128 or c == 95])
_DIGIT = bm_of(range(48, 58))
_SPACE = bm_of([9, 10, 11, 12, 13, 32])
_CATS = {
    sc.CATEGORY_WORD: _WORD, sc.CATEGORY_NOT_WORD: FULL & ~_WORD,
    sc.CATEGORY_DIGIT: _DIGIT, sc.CATEGORY_NOT_DIGIT: FULL & ~_DIGIT,
    sc.CATEGORY_SPACE: _SPACE, sc.CATEGORY_NOT_SPACE: FULL & ~_SPACE,
}


def _fold(bm):
    """close a byte set under ASCII case swap"""
    out = bm
    for c in range(65, 91):
        if bm >> c & 1:
            out |= 1 << (c + 32)
        if bm >> (c + 32) & 1:
            out |= 1 << c
    return out


def _check_byte(c, what):
    if not 0 <= c < 256:
        raise TranslateError(f"{what}: code point {c} outside the byte domain")
    return c


def _item(op, av, flags):
    ic = bool(flags & re.I)
    if op is sc.LITERAL:
        bm = 1 << _check_byte(av, "literal")
        return cls(_fold(bm) if ic else bm)
    if op is sc.NOT_LITERAL:
        bm = 1 << _check_byte(av, "literal")
        return cls(FULL & ~(_fold(bm) if ic else bm))
    if op is sc.ANY:
        if flags & re.S:
            return ANY
        return cls(FULL & ~(1 << 10))
    if op is sc.IN:
        neg, bm = False, 0
        for iop, iav in av:
            if iop is sc.NEGATE:
                neg = True
            elif iop is sc.LITERAL:
                bm |= 1 << _check_byte(iav, "class literal")
            elif iop is sc.RANGE:
                lo, hi = iav
                _check_byte(lo, "range"), _check_byte(hi, "range")
                for c in range(lo, hi + 1):
                    bm |= 1 << c
            elif iop is sc.CATEGORY:
                if iav not in _CATS:
                    raise TranslateError(f"unsupported category {iav}")
                bm |= _CATS[iav]
            else:
                raise TranslateError(f"unsupported class item {iop}")
        if ic:
            bm = _fold(bm)
        return cls(FULL & ~bm if neg else bm)
    if op is sc.CATEGORY:  # only inside IN in CPython's parser, kept for safety
        return cls(_CATS[av])
    if op in (sc.MAX_REPEAT, sc.MIN_REPEAT):
        lo, hi, sub = av
        body = _seq(list(sub), flags)
        if hi is sc.MAXREPEAT or hi == sc.MAXREPEAT:
            if lo == 0:
                return star(body)
            return cat(rep(body, lo, lo), star(body))
        return rep(body, lo, hi)
    if op is sc.SUBPATTERN:
        group, add_flags, del_flags, sub = av
        if add_flags or del_flags:
            raise TranslateError("inline flags in a group are not supported")
        return _seq(list(sub), flags)
    if op is sc.BRANCH:
        _, alts = av
        return alt(*[_seq(list(a), flags) for a in alts])
    if op is sc.AT:
        raise TranslateError(f"anchor {av} not at the end of a top-level alternation branch")
    raise TranslateError(f"unsupported regex construct {op}")


def _seq(items, flags):
    return cat(*[_item(op, av, flags) for op, av in items])


def _branches(items):
    """split into top-level alternation branches, entering a branch that is exactly one plain group"""
    if len(items) == 1:
        op, av = items[0]
        if op is sc.BRANCH:
            out = []
            for a in av[1]:
                out += _branches(list(a))
            return out
        if op is sc.SUBPATTERN and not av[1] and not av[2]:
            return _branches(list(av[3]))
    return [items]


def _parse(pattern, flags):
    if isinstance(pattern, str):
        try:
            pattern = pattern.encode("ascii")
        except UnicodeEncodeError as e:
            raise TranslateError(f"non-ASCII pattern {pattern!r}") from e
    bad = flags & ~(re.M | re.I | re.S)
    if bad:
        raise TranslateError(f"unsupported flags {bad!r}")
    try:
        p = sp.parse(pattern, flags)
    except re.error as e:
        raise TranslateError(f"re cannot parse {pattern!r}: {e}") from e
    if p.state.flags != flags:
        raise TranslateError(f"pattern changes flags through inline flags: {p.state.flags!r} != {flags!r}")
    return list(p)


def translate_branches(pattern, flags=0):
    """[(starts_with_^, body RE, ends_with_$)] for every top-level branch"""
    out = []
    for items in _branches(_parse(pattern, flags)):
        items = list(items)
        bol = eol = False
        while items and items[0] == (sc.AT, sc.AT_BEGINNING):
            bol = True
            items.pop(0)
        while items and items[-1] == (sc.AT, sc.AT_END):
            eol = True
            items.pop()
        out.append((bol, _seq(items, flags), eol))
    return out


def translate_search(pattern, flags=0):
    """the set of whole byte strings s with re.search(pattern, s, flags) is not None"""
    ml = bool(flags & re.M)
    res = []
    for bol, body, eol in translate_branches(pattern, flags):
        pre = (alt(eps, cat(ALL, NL)) if ml else eps) if bol else ALL
        post = (alt(eps, cat(NL, ALL)) if ml else alt(eps, NL)) if eol else ALL
        res.append(cat(pre, body, post))
    return alt(*res)


# ---------------------------------------------------------------- output / analysis
def to_lean(r):
    t = r[0]
    if t in ("emp", "eps"):
        return "." + t
    if t == "cls":
        return f"(.cls {hex(r[1])})"
    if t in ("cat", "alt", "and"):
        return f"(.{t} {to_lean(r[1])} {to_lean(r[2])})"
    if t in ("not", "star"):
        return f"(.{t} {to_lean(r[1])})"
    if t == "rep":
        return f"(.rep {to_lean(r[1])} {r[2]} {r[3]})"
    raise ValueError(r)


def atoms(r, acc=None):
    acc = [] if acc is None else acc
    if r[0] == "cls":
        if r[1] not in acc:
            acc.append(r[1])
    else:
        for x in r[1:]:
            if isinstance(x, tuple):
                atoms(x, acc)
    return acc


def class_reps(rs):
    """one byte of every signature class over the atoms of the given RE(s)"""
    if isinstance(rs, tuple):
        rs = [rs]
    at = []
    for r in rs:
        atoms(r, at)
    seen, out = set(), []
    for b in range(256):
        sig = tuple(a >> b & 1 for a in at)
        if sig not in seen:
            seen.add(sig)
            out.append(b)
    return out


if __name__ == "__main__":
    import sys
    for pat in sys.argv[1:]:
        print(to_lean(translate_search(pat, re.M | re.I)))
