"""C08 — losing the connection surfaces promptly as a scrapli error.
Lean: ScrapliModel/Loss.lean (+LossTypes, Gen/LossMaps), ScrapliProps/C08.lean.

Part 1  error maps: dynamic extraction from the REAL transports under boundary injection (harness/libfakes.py) ->
        Gen/LossMaps.lean -> theorems re-checked; static AST cross-check (gen/c08.py); scripted method sequences on the real
        transports vs the model's transport machine; real transports + fakes under a real channel vs the model's programs.
Part 2  drop at every byte offset / every write of short exchanges over the Sim transports, every operation type,
        sync + asyncio, five platforms; never-opened connections.
Part 3  (thorough) real pty child killed at byte offsets; loopback TCP peer closing / resetting at byte offsets for
        telnet / asynctelnet; real paramiko / asyncssh against an in-process ssh server that drops.
The oracle (`allowed_*`, `check_after`) is a plain Python statement of the property on what the real code did; it never
consults the model."""
import asyncio, itertools, json, time, types

from vlib.common import Check, VERIF, run_model
import translate

PID = "C08"
PLATFORMS = ["cisco_iosxe", "cisco_iosxr", "cisco_nxos", "arista_eos", "juniper_junos"]
ALLOWED = ("S:connError", "S:notOpened", "S:authFailed", "S:timeout")


class RigError(Exception):
    """trouble of the rig itself (never a verdict): check.py turns it into exit 2"""


# ---------------------------------------------------------------------------------------------------
# findings
def load_own_findings(ck):
    """findings/C08.json is this check's own (most recent) statement of its findings: its entries replace same-id entries the
    lead has merged into known_findings.json, except that a status 'fixed' given there is kept"""
    f = VERIF / "findings" / "C08.json"
    if f.exists():
        mine = {x["id"]: x for x in json.load(open(f))}
        merged = []
        for x in ck.findings:
            if x["id"] in mine:
                y = dict(mine.pop(x["id"]))
                if x.get("status") == "fixed":
                    y["status"] = "fixed"
                merged.append(y)
            else:
                merged.append(x)
        ck.findings[:] = merged + list(mine.values())


_FINDINGS = []
_ACTIVE = set()        # ids of open findings whose stored witness still fails on THIS tree


def matcher(case):
    """finding id whose narrow predicate (a list of atoms) contains the single atom this violation is about.
    A finding excuses only while its own witness still fails on the tree under test: once the witness passes (the fix is
    in), nothing is attributed to it any more — a regression of another atom of the same finding is reported as new."""
    atom = case.get("atom")
    if atom is None:
        return None
    for f in _FINDINGS:
        if f.get("status") == "open" and f["id"] in _ACTIVE and list(atom) in [list(a) for a in f["predicate"]["atoms"]]:
            return f["id"]
    return None


# ---------------------------------------------------------------------------------------------------
# the property, stated on observed acts (oracle)
def act_allowed(act):
    """a transport method may return, or raise one of the four named scrapli classes"""
    from harness.libfakes import short
    a = short(act)
    return a.startswith("ret") or a in ALLOWED


def exc_allowed(e):
    from scrapli.exceptions import ScrapliException
    return isinstance(e, ScrapliException)


# ---------------------------------------------------------------------------------------------------
def part1_maps(ck, tier):
    from gen import c08 as G
    from harness import libfakes as L
    from harness.libfakes import short
    # 1a translate (dynamic extraction) + prove
    obs = None
    try:
        obs = G.observe()
        for rel, content in G.generate(obs):
            from vlib.common import LEAN, write_if_changed
            write_if_changed(LEAN / rel, content)
    except Exception as e:  # TranslateError or a fake that no longer fits the transport
        ck.proof_broken("translator gen/c08.py (dynamic extraction)", repr(e))
    ck.prove("ScrapliProps.C08", lemma_files=["ScrapliProps/C08Lemmas.lean", "ScrapliModel/Loss.lean", "ScrapliModel/LossTypes.lean"])
    if tier == "thorough":
        ck.leanchecker("ScrapliProps.C08")
    if obs is None:
        return None
    _, emap, after, alive, emapC, afterC, aliveC = obs
    total, alive_total, bad = G.compute_total(L, emap, after, alive, emapC, afterC, aliveC)
    ck.obligations += 2 * len(L.TRANSPORTS)           # mapTotal t, aliveTotal t per transport (generated, decided)
    ck.discharged += len(total) + len(alive_total)
    ck.extra["mapTotal"] = total
    ck.extra["aliveTotal"] = alive_total
    ck.extra["undischarged"] = [t for t in L.TRANSPORTS if t not in total] + [t + ":alive" for t in L.TRANSPORTS if t not in alive_total]
    # the domain hypothesis, made visible: out-of-domain rows with a non-allowed act, each justified by a reviewed rule (the translator
    # fails on an unjustified one; Lean decides that there is no other such row: out_of_domain_bad_rows_listed)
    try:
        imp, rules = G.assumed_impossible(L, emap)
        ck.extra["assumed_impossible_rows"] = len(imp)
        used = sorted({i for *_, i in imp})
        ck.extra["assumed_impossible_rules_used"] = f"{len(used)} of {len(rules)}"
        ck.extra["assumed_impossible_stale_rules"] = [r["why"][:60] for i, r in enumerate(rules) if i not in used]
    except Exception as e:
        ck.proof_broken("boundary domain audit (tools/gen/c08_impossible.json)", repr(e))
    try:
        tl = run_model("C08", [f"total {t}" for t in L.TRANSPORTS])
        ck.extra["promptTotal"] = [t for t, l in zip(L.TRANSPORTS, tl) if l.split(" ")[2] == "true"]
        lean_total = [t for t, l in zip(L.TRANSPORTS, tl) if l.split(" ")[0] == "true"]
        if lean_total != total:
            ck.proof_broken("mapTotalB: Lean and the Python twin differ", f"lean={lean_total} python={total}")
    except Exception as e:
        ck.proof_broken("model driver Drv/C08.lean (total)", repr(e))
    # 1b oracle on every in-domain entry of the observed tables (the obligation's witnesses, replayed on the real transport
    #    by the observation itself)
    for (t, m, o), act in sorted(emap.items()):
        if not L.in_domain(t, m, o):
            ck.extra["out_of_domain_entries"] = ck.extra.get("out_of_domain_entries", 0) + 1      # the non-allowed ones: assumed_impossible_rows
            continue
        ck.case(("map", t, m, o), nontrivial=o not in ("data", "more"), sample={"transport": t, "method": m, "outcome": o, "act": act},
                tags=(f"t={t}", f"m={m}", f"o={o}", "act=" + short(act).split(":")[0]))
        okk = act_allowed(act)
        if m == "read" and G.loss_out(t, o) and short(act) == "retData":
            okk = False
        if not okk:
            ck.violation({"kind": "map", "atom": ["map", t, m, o], "transport": t, "method": m, "outcome": o, "observed": act},
                         f"{t}.{m}: boundary outcome {o} -> {act} (not a ScrapliException of the allowed classes)", matcher)
    for (t, lm, lo, m, o), act in sorted(after.items()):
        ck.case(("after", t, lm, lo, m, o), sample=None, tags=(f"t={t}", "post-loss", "act=" + short(act).split(":")[0]))
        if not act_allowed(act):
            ck.violation({"kind": "after", "atom": ["map", t, m, o], "transport": t, "loss": [lm, lo], "method": m, "outcome": o, "observed": act},
                         f"{t}.{m} after loss {lm}x{lo}: outcome {o} -> {act}", matcher)
        if m == "read" and short(act) == "retEmptyBusy":
            ck.violation({"kind": "busy", "atom": ["busy", t, lm, lo], "transport": t, "loss": [lm, lo], "outcome": o, "observed": act},
                         f"{t}: after {lm}x{lo} every further read returns b'' without yielding to the event loop: the operation "
                         "timeout can never fire (unbounded busy loop)", matcher)
    for (t, lm, lo), act in sorted(alive.items()):
        ck.case(("alive", t, lm, lo), tags=(f"t={t}", "isalive-after-loss"))
        if short(act) != "retFalse":
            ck.violation({"kind": "alive", "atom": ["alive", t, lm, lo], "transport": t, "loss": [lm, lo], "observed": act},
                         f"{t}: isalive() after loss {lm}x{lo} -> {act}", matcher)
    # the same three tables for the Telnet transports with a control sequence pending (IAC / IAC + verb received, command incomplete)
    for (c, t, m, o), act in sorted(emapC.items()):
        if not L.in_domain(t, m, o):
            continue
        ck.case(("mapC", c, t, m, o), nontrivial=True, sample={"ctrl": L.CTRLS[c], "transport": t, "method": m, "outcome": o, "act": act},
                tags=(f"t={t}", f"ctrl={L.CTRLS[c]}", f"m={m}", "act=" + short(act).split(":")[0]))
        if not act_allowed(act) or (m == "read" and G.loss_out(t, o) and short(act) == "retData"):
            ck.violation({"kind": "mapC", "atom": ["mapC", L.CTRLS[c], t, m, o], "ctrl": c, "transport": t, "method": m, "outcome": o, "observed": act},
                         f"{t}.{m} with {L.CTRLS[c]} pending: boundary outcome {o} -> {act}", matcher)
    for (c, t, lm, lo, m, o), act in sorted(afterC.items()):
        ck.case(("afterC", c, t, lm, lo, m, o), tags=(f"t={t}", f"ctrl={L.CTRLS[c]}", "post-loss", "act=" + short(act).split(":")[0]))
        if not act_allowed(act):
            ck.violation({"kind": "afterC", "atom": ["mapC", L.CTRLS[c], t, m, o], "ctrl": c, "transport": t, "loss": [lm, lo], "method": m, "outcome": o, "observed": act},
                         f"{t}.{m} after loss {lm}x{lo} met with {L.CTRLS[c]} pending: outcome {o} -> {act}", matcher)
        if m == "read" and short(act) == "retEmptyBusy":
            ck.violation({"kind": "busyC", "atom": ["busyC", L.CTRLS[c], t, lm, lo], "ctrl": c, "transport": t, "loss": [lm, lo], "outcome": o, "observed": act},
                         f"{t}: the session was lost ({lm}x{lo}) strictly inside a Telnet command ({L.CTRLS[c]} pending): every further read returns b'' "
                         "without yielding to the event loop — the operation timeout can never fire (unbounded busy loop)", matcher)
    for (c, t, lm, lo), act in sorted(aliveC.items()):
        ck.case(("aliveC", c, t, lm, lo), tags=(f"t={t}", f"ctrl={L.CTRLS[c]}", "isalive-after-loss"))
        if short(act) != "retFalse":
            ck.violation({"kind": "aliveC", "atom": ["aliveC", L.CTRLS[c], t, lm, lo], "ctrl": c, "transport": t, "loss": [lm, lo], "observed": act},
                         f"{t}: isalive() after loss {lm}x{lo} met with {L.CTRLS[c]} pending -> {act}", matcher)
    # 1c static AST cross-check of the dynamic table
    try:
        smap = G.static_map()
    except Exception as e:
        ck.proof_broken("static AST extraction gen/c08.py", repr(e))
        smap = {}
    for k, sv in sorted(smap.items()):
        if k not in emap:
            continue
        dv = short(emap[k])
        # sv = the set of things the AST says can escape; "swallowed" = the exception itself does not escape
        same = any((not dv.startswith("raw:")) if x == "swallowed" else short(x) == dv for x in sv)
        if same:
            ck.traces_validated += 1
        elif L.in_domain(*k):
            ck.disagree("static AST error map vs dynamic injection", {"entry": list(k)}, f"static={sv} dynamic={emap[k]}")
        else:
            ck.extra["advisory_static_vs_dynamic_out_of_domain"] = ck.extra.get("advisory_static_vs_dynamic_out_of_domain", 0) + 1
    ck.extra["static_entries"] = len(smap)
    return obs


def seq_cases(L, tier):
    """scripted method sequences inside the domain: first call any in-domain (method, outcome), later calls respect the
    post-loss read domain.  length <= 2 (quick) / <= 3 (thorough), exhaustive."""
    nmax = 2 if tier == "quick" else 3
    for t in L.TRANSPORTS:
        firsts = [(m, o) for m in ("read", "write", "isalive", "close") for o in L.DOMAIN[t][m]]
        for m, o in firsts:
            yield t, [(m, o)]

        def ext(seq):
            loss = next(((m, o) for m, o in seq if L.is_loss(t, m, o)), None)
            if any(o == "none" for _, o in seq) or any(m == "close" for m, _ in seq):
                return
            if any(m == "isalive" and o not in ("data", None) for m, o in seq):
                return          # an isalive() that itself discovers the death is sticky in PtyProcess (terminated flag): not modelled
            for m in ("read", "write", "isalive", "close"):
                if m == "isalive" and loss is not None:
                    outs = [None]
                elif m == "read" and loss is not None:
                    outs = L.post_read(t, *loss)
                else:
                    outs = [o for o in L.DOMAIN[t][m] if o != "none"]
                for o in outs:
                    yield seq + [(m, o)]
        level = [[f] for f in firsts]
        for _ in range(nmax - 1):
            nxt = []
            for s in level:
                for s2 in ext(s):
                    nxt.append(s2)
                    yield t, s2
            level = nxt


def part1_sequences(ck, tier):
    from harness import libfakes as L
    from harness.libfakes import short
    # corpus first: the pre-fix witnesses of the findings and a few hand-picked sequences
    corpus = json.load(open(VERIF / "corpus" / "C08" / "corpus.json"))
    cases = [(c["transport"], [(m, o) for m, o in c["seq"]]) for c in corpus]
    seen = {(t, tuple(seq)) for t, seq in cases}
    cases += [(t, seq) for t, seq in seq_cases(L, tier) if (t, tuple(seq)) not in seen]
    lines, real = [], []
    for t, seq in cases:
        opened = "0" if seq[0][1] == "none" else "1"
        lines.append(f"seq {t} {opened} " + ",".join(f"{m}:{'-' if o is None else ('data' if o == 'none' else o)}" for m, o in seq))
        real.append(L.observe_seq(t, seq))
    try:
        mout = run_model("C08", lines)
    except Exception as e:
        ck.proof_broken("model driver Drv/C08.lean (seq)", repr(e))
        mout = None
    for idx, ((t, seq), acts) in enumerate(zip(cases, real)):
        case = {"kind": "seq", "transport": t, "seq": [[m, o] for m, o in seq], "acts": acts}
        ck.case(("seq", t, tuple(seq)), nontrivial=len(seq) > 1, sample=case if len(seq) > 1 else None, tags=(f"seqlen={len(seq)}", f"t={t}"))
        # oracle: nothing but returns / allowed classes; aliveness after a loss
        loss = None
        for i, ((m, o), a) in enumerate(zip(seq, acts)):
            if not act_allowed(a):
                ck.violation({**case, "atom": ["map", t, m, o], "bad_index": i}, f"{t}: {seq[:i + 1]} -> {a}", matcher)
                break
            if m == "isalive" and loss is not None and o is None and short(a) != "retFalse" and L.sets_loss(t, loss[1]):
                ck.violation({**case, "atom": ["alive", t, loss[0], loss[1]], "bad_index": i}, f"{t}: isalive() after {loss} -> {a}", matcher)
                break
            if m == "read" and loss is not None and short(a) == "retEmptyBusy":
                ck.violation({**case, "atom": ["busy", t, loss[0], loss[1]], "bad_index": i}, f"{t}: busy empty read after {loss}", matcher)
                break
            if loss is None and L.is_loss(t, m, o):
                loss = (m, o)
        if mout is not None:
            got = ",".join(short(a) for a in acts)
            if got == mout[idx]:
                ck.traces_validated += 1
            else:
                ck.disagree("transport machine (Loss.lean tAct/tNext) vs real transport", case, f"impl={got} model={mout[idx]}")
    ck.extra["sequence_cases"] = len(cases)


# ---------------------------------------------------------------------------------------------------
def part1_programs(ck, tier):
    """real transports on fakes underneath a real (Async)GenericDriver: get_prompt / send_command with a fault at every
    boundary call, every loss outcome of the domain.  Real timeouts (0.3 s) so that 'empty forever' ends in ScrapliTimeout."""
    from harness import libfakes as L
    from harness.libfakes import short
    from harness.simdevice import CliDevice
    runs = []
    for t in ("system", "telnet", "asynctelnet", "paramiko", "asyncssh"):
        for op in ("get_prompt", "send_command"):
            # reference run: which boundary calls does the operation make?
            link = L.Link(t, device=CliDevice("cisco_iosxe"))
            with L.patched(link):
                conn = L.make_real_conn(t, link, timeout_ops=0)
                try:
                    r = L.run_op(conn, op)
                finally:
                    L.dispose(t, conn.transport)
            if r[0] != "ok":
                raise RigError(f"reference run {t}/{op} failed: {r[1]!r}")
            ref = [k for k, _ in link.calls if k in ("read", "write")]
            prog = "".join("W" if k == "write" else "R" for k in ref)
            for k, kind in enumerate(ref):
                for o in L.DOMAIN[t][kind]:
                    if o in L.DATA_LIKE or o == "none":
                        continue
                    for after in (("same", "accept") if t in ("telnet", "paramiko", "asyncssh") and kind == "read" else ("same",)):
                        runs.append((t, op, prog, k, kind, o, after, 0))
                    runs.append((t, op, prog, k, kind, o, "same", -1))      # -1: channel_lock=True (guarded lock), otherwise like pend 0
                    if t in L.TELNETS and kind == "read":
                        # the device drops the session strictly inside a Telnet command: IAC / IAC + verb arrive, then the loss
                        for pend in (1, 2):
                            runs.append((t, op, prog, k, kind, o, "same", pend))
    lines, results = [], []
    for t, op, prog, k, kind, o, after, pend in runs:
        link = L.Link(t, device=CliDevice("cisco_iosxe"), fault=(k, kind, o, max(pend, 0)), after=after)
        t0 = time.time()
        with L.patched(link):
            conn = L.make_real_conn(t, link, timeout_ops=0.3, channel_lock=pend == -1)
            try:
                if pend == -1:
                    L.guard_channel_lock(conn)
                if t in L.ASYNC:
                    L.ReadGuard(conn)
                r = L.run_op(conn, op)
                alive = L.run_op(conn, "isalive")
                nxt = L.run_op(conn, "get_prompt")
                if nxt[0] == "exc" and exc_allowed(nxt[1]):
                    n3 = L.run_op(conn, "send_command")      # third operation on the same connection
                    if not (n3[0] == "exc" and exc_allowed(n3[1])):
                        nxt = n3
            finally:
                L.dispose(t, conn.transport)
        last_call = link.calls[-1] if link.calls else (kind, o)
        dt = time.time() - t0
        if dt > 5:
            raise RigError(f"{t}/{op} fault {k}:{kind}:{o} took {dt:.1f}s with timeout_ops=0.3")
        results.append((r, alive, nxt, last_call))
        # the model gets exactly the outcomes the fake delivered, then the library's post-loss default
        dflt = L.post_read(t, kind, o)[0] if L.is_loss(t, kind, o) else "data"
        link.lost = link.lost or (kind, o)
        dw = link._postloss("write") if L.is_loss(t, kind, o) else "data"
        # the model sees the pending control bytes as the suffix of the last chunk read before (same transport state when the loss arrives)
        envl = ["data"] * k + [o]
        c0 = 0
        if pend > 0:
            prev = [j for j in range(k) if prog[j] == "R"]
            if prev:
                envl[prev[-1]] = "dataIac" if pend == 1 else "dataIacVerb"
            else:
                c0 = pend
        lines.append(f"runc {t} 1 {prog} 40 {','.join(envl)} {dflt} {dw} {c0}")
    try:
        mout = run_model("C08", lines)
    except Exception as e:
        ck.proof_broken("model driver Drv/C08.lean (run)", repr(e))
        mout = None
    for idx, ((t, op, prog, k, kind, o, after, pend), (r, alive, nxt, last_call)) in enumerate(zip(runs, results)):
        obs = "done" if r[0] == "ok" else short(L.classify_exc(r[1]))
        obs_next = "done" if nxt[0] == "ok" else short(L.classify_exc(nxt[1]))
        case = {"kind": "prog", "transport": t, "op": op, "program": prog, "fault": [k, kind, o, pend], "after_policy": after,
                "observed": obs if r[0] == "ok" else L.classify_exc(r[1]), "isalive": repr(alive[1]), "next": obs_next}
        ck.case(("prog", t, op, k, kind, o, after, pend), sample=case, tags=(f"t={t}", f"op={op}", f"fault={kind}:{o}", "out=" + obs, f"pending-ctrl={pend}"))
        # oracle
        if obs not in ALLOWED:
            if obs == "done" and kind == "write":
                pass          # a write the library still accepted, nothing read afterwards: not detectable inside this operation
            else:
                atom = (["busy", t, kind, o] if obs == "hang" else ["map", t, kind, o]) + ([f"pend{pend}"] if pend > 0 else ["lock"] if pend < 0 else [])
                ck.violation({**case, "atom": atom}, f"{t} {op}: {kind} #{k} meets {o} -> operation ends with {case['observed']}", matcher)
                continue
        if obs != "done" and L.sets_loss(t, o) and not (alive[0] == "ok" and alive[1] is False):
            ck.violation({**case, "atom": ["alive", t, kind, o]}, f"{t} {op}: isalive() after the loss -> {alive[1]!r}", matcher)
            continue
        if obs != "done" and L.sets_loss(t, o) and obs_next not in ALLOWED:
            atom = (["busy", t, kind, o] if obs_next == "hang" else ["map", t, last_call[0], last_call[1]]) + (["lock"] if pend < 0 else [])
            why = (" — it blocks for ever on the channel lock that the interrupted operation left held (channel_lock=True)" if obs_next == "hang" and pend < 0
                   else " — it spins without ever yielding to the event loop" if obs_next == "hang" else "")
            ck.violation({**case, "atom": atom, "channel_lock": pend < 0, "history": [op, "get_prompt", "send_command"]},
                         f"{t} {op} interrupted by {kind} #{k} meeting {o}; a following operation on the same (dead) connection -> {obs_next}{why}", matcher)
            continue
        # correspondence (outcome class, aliveness, next operation) — only where the property's observables are defined
        if t in L.ASYNC and o == "timeout":
            # with timeout_ops > 0 the asyncio timeout decorator turns ANY TimeoutError passing through it — also the raw socket timeout
            # of the transport — into ScrapliTimeout (decorators.py:199-207); the model's programs do not contain that accident
            ck.extra["advisory_async_timeout_outcome_cases"] = ck.extra.get("advisory_async_timeout_outcome_cases", 0) + 1
            continue
        if mout is not None:
            m_out, _m_ticks, _m_calls, m_alive, m_next = mout[idx].split(" ")
            real_alive = "retFalse" if alive == ("ok", False) else "retTrue" if alive == ("ok", True) else "exc"
            got = (obs, real_alive if L.sets_loss(t, o) and obs != "done" else "-", obs_next if L.sets_loss(t, o) and obs != "done" and after == "same" else "-")
            want = (m_out, m_alive if got[1] != "-" else "-", m_next if got[2] != "-" else "-")
            if t == "paramiko" and m_out == "S:timeout" and obs == "S:connError":
                # the SIGALRM handler raises ScrapliTimeout wherever the main thread happens to be; inside ParamikoTransport.read's
                # `except Exception` it is re-raised as ScrapliConnectionError (timing dependent; both classes are allowed)
                ck.extra["paramiko_timeout_reraised_as_connection_error"] = ck.extra.get("paramiko_timeout_reraised_as_connection_error", 0) + 1
                got = (m_out,) + got[1:]
            if got == want:
                ck.traces_validated += 1
            else:
                ck.disagree("channel programs (Loss.lean run) vs real channel over real transport", case, f"impl={got} model={want}")
    ck.extra["program_cases_real_transports"] = len(runs)


# ---------------------------------------------------------------------------------------------------
def part1_telnet_streams(ck, tier):
    """BOTH real Telnet transports on fakes at the socket / StreamReader boundary, a scripted Telnet session — option negotiation
    commands interleaved with the login dialogue, echo and command output — lost (EOF or reset) after EVERY byte offset, also
    strictly inside a 3-byte command (after IAC, after IAC + verb); login (real in-channel authentication) and post-login
    operations.  Runs in a killable worker process.  Oracle only (the states involved are in the model through the ctrl rows)."""
    from harness import c08rigs as R
    from vlib.common import REPO
    n = len(R.telnet_stream())
    inside = set(R.iac_offsets())
    cases = [(t, o, k, False) for t in ("telnet", "asynctelnet") for o in ("empty", "reset") for k in range(0, n + 2)]
    # channel_lock=True with the REAL lock and the real timeout mechanism (thread pool for TelnetTransport, wait_for for asyncio), small finite
    # timeout_ops: drop during login, strictly inside a command, in plain output, near the end; then a second and a third operation
    lock_cases = [(t, o, k, True) for t in ("telnet", "asynctelnet") for o in ("empty", "reset") for k in (30, 103, 110, 160)]
    # the peer resets / closes the session while option replies are still owed: the loss is met by the send() of the k-th negotiation
    # reply (k = 0..8: during login and after), on both twins (asyncio writers never raise: there the next read meets the reset)
    reply_cases = [(t, o, None, False, k) for t in ("telnet", "asynctelnet") for o in ("reset", "epipe") for k in range(0, 9)]
    try:
        results = R.run_stream_cases(str(REPO), cases)
        results += R.run_stream_cases(str(REPO), lock_cases, per_case_limit=8.0, timeout_ops=0.5)
        results += R.run_stream_cases(str(REPO), reply_cases)
    except Exception as e:
        raise RigError(f"telnet stream worker: {e!r}")
    cases = [c + (None,) for c in cases + lock_cases] + reply_cases
    nores = [c for c, r in zip(cases, results) if r is None or (r["res"] is None and not r["killed"])]
    ck.extra["telnet_stream_lock_cases"] = len(lock_cases)
    if len(nores) > len(cases) // 10:
        r0 = next(r for r in results if r is None or r["res"] is None)
        raise RigError(f"{len(nores)} of {len(cases)} telnet stream cases gave no result: {(r0 or {}).get('err', '')}")
    for (t, o, k, lock, replyk), r in zip(cases, results):
        if r is None or (r["res"] is None and not r["killed"]):
            ck.extra["stream_cases_without_result"] = ck.extra.get("stream_cases_without_result", 0) + 1
            continue
        r = dict(r, spec={"rig": t, "mode": o, "offset": k, "channel_lock": lock, "reply": replyk})
        v = R.judge(r, hard_limit=8.0 if lock else 20.0)
        ops = r["res"]["ops"]
        first = next((x for x in ops if not x["ok"]), None)
        ck.case(("stream", t, o, k, lock, replyk), nontrivial=v is not None, sample={"transport": t, "loss": o, "offset": k, "channel_lock": lock, "reply": replyk, "ops": ops},
                tags=(f"t={t}", "telnet-stream", f"channel_lock={lock}", "loss-at-negotiation-reply" if replyk is not None else "loss-at-byte-offset", "cut-inside-iac" if k in inside else "cut-elsewhere", f"streamloss={o}",
                      "stream:" + ("hang" if r["killed"] else "completed" if v is None else f"{first['op']}->{first['exc']}")))
        for atom, text in (v or []):
            where = (f"when negotiation reply #{replyk} is sent (option replies still owed)" if replyk is not None
                     else f"after byte {k}" + (" — strictly inside an IAC command" if k in inside else ""))
            ck.violation({"kind": "stream", "atom": ["stream"] + atom[:1] + [t], "transport": t, "loss": o, "offset": k, "channel_lock": lock, "reply": replyk,
                          "inside_command": k in inside, "ops": ops}, f"telnet session lost ({o}) {where}: " + text, matcher)
    ck.extra["telnet_stream_cases"] = len(cases)
    ck.extra["telnet_stream_offsets_inside_commands"] = sorted(inside)


# ---------------------------------------------------------------------------------------------------
# Part 2: Sim transports, every byte offset / every write
class LoginDevice:
    """puts a login dialogue in front of a CliDevice (telnet: username + password, ssh: password)"""

    def __init__(self, inner, kind):
        self.inner, self.kind = inner, kind
        self.state = "user" if kind == "telnet" else "pass"
        self.line = bytearray()

    def connect(self):
        return b"Username: " if self.kind == "telnet" else b"Password: "

    def on_write(self, data):
        if self.state == "done":
            return self.inner.on_write(data)
        out = bytearray()
        for b in data:
            if b == 0x0A:
                self.line.clear()
                if self.state == "user":
                    self.state = "pass"
                    out += b"\nPassword: "
                else:
                    self.state = "done"
                    out += b"\n" + self.inner.connect()
            elif b != 0x0D:
                self.line.append(b)
                if self.state == "user":
                    out.append(b)
        return bytes(out)


SIM_OPS = ["open", "open_auth_telnet", "open_auth_ssh", "get_prompt", "send_command", "send_configs", "send_interactive", "close"]


def sim_build(platform, stack, op, faults=None, lock=False):
    from harness.simdevice import CliDevice
    from harness.simtransport import make_conn
    dev = CliDevice(platform)
    kw = {}
    device = dev
    if op == "open_auth_telnet":
        device = LoginDevice(dev, "telnet")
        kw = dict(transport="telnet" if stack == "sync" else "asynctelnet", auth_bypass=False, auth_username="admin", auth_password="pw",
                  timeout_ops=0 if stack == "sync" else 30)
    elif op == "open_auth_ssh":
        device = LoginDevice(dev, "ssh")
        kw = dict(transport="system", auth_bypass=False, auth_username="admin", auth_password="pw")
    if lock:
        kw["channel_lock"] = True
    conn, t = make_conn(platform, device, stack=stack, faults=faults, **kw)
    if lock:
        from harness.libfakes import guard_channel_lock
        guard_channel_lock(conn)        # a lock left held makes the next acquire raise LockHang instead of blocking for ever
    conn._c08_prompt = dev.prompt().decode().split("\n")[-1]
    # count every transport.read()/write() the channel makes (the sim's trace does not record a write refused on a dead session)
    t.ncalls = 0
    orig_r, orig_w = t.read, t.write

    def rd():
        t.ncalls += 1
        if t.ncalls > 20000:
            from harness.libfakes import Starved
            raise Starved()         # runaway loop (timeouts are off in the logic runs): reported as a hang
        return orig_r()

    def wr(channel_input):
        t.ncalls += 1
        if t.ncalls > 20000:
            from harness.libfakes import Starved
            raise Starved()
        return orig_w(channel_input)
    t.read, t.write = rd, wr
    return conn, t


def sim_do(conn, op):
    from harness.libfakes import run_op
    if op.startswith("open"):
        return run_op(conn, "open")
    if op == "send_interactive":
        p = conn._c08_prompt
        return run_op(conn, lambda: conn.send_interactive([("show clock", p), ("show users", p)]))
    return run_op(conn, op)


def op_events(trace, start):
    return [e for e in trace[start:] if e[0] in ("W", "R", "fault", "stall")]


def part2_sim(ck, tier):
    from harness import libfakes as L
    from harness.libfakes import short
    from harness.simtransport import FaultPlan, SimStall
    import scrapli.channel.async_channel as AC
    # the asyncio auth loops sleep 0.1 s per iteration: timing only, replaced by a plain yield for the logic runs
    real_asyncio = AC.asyncio
    proxy = types.SimpleNamespace(**{k: getattr(asyncio, k) for k in dir(asyncio) if not k.startswith("__")})

    async def _sleep(d, *a, **k):
        await asyncio.sleep(0)
    proxy.sleep = _sleep
    AC.asyncio = proxy
    lines, meta = [], []
    try:
        for platform, stack, op, lock in itertools.product(PLATFORMS, ("sync", "async"), SIM_OPS, (False, True)):
            if op == "open_auth_ssh" and stack == "async":
                continue        # no asyncio transport authenticates in the channel as ssh
            # reference run
            conn, t = sim_build(platform, stack, op, lock=lock)
            auth_span = [None, None]
            if op == "open_auth_telnet" and stack == "sync":
                inner = conn.channel.channel_authenticate_telnet

                def wrapped(*a, _inner=inner, _t=t, **k):
                    auth_span[0] = len(_t.trace)
                    try:
                        return _inner(*a, **k)
                    finally:
                        auth_span[1] = len(_t.trace)
                conn.channel.channel_authenticate_telnet = wrapped
            if not op.startswith("open"):
                r0 = L.run_op(conn, "open")
                if r0[0] != "ok":
                    raise RigError(f"sim reference open {platform}/{stack} failed: {r0[1]!r}")
            start = len(t.trace)
            base_w, base_b = t.nwrites, t.nbytes
            r = sim_do(conn, op)
            if r[0] != "ok":
                raise RigError(f"sim reference run {platform}/{stack}/{op} failed: {r[1]!r}")
            ev = op_events(t.trace, start)
            nw = sum(1 for e in ev if e[0] == "W")
            nb = sum(len(e[1]) for e in ev if e[0] == "R")
            # program: consecutive reads are one loop; reads inside the sync telnet login loop are 'A'
            prog = ""
            for i, e in enumerate(t.trace[start:], start):
                if e[0] == "W":
                    prog += "W"
                elif e[0] == "R":
                    c = "A" if auth_span[0] is not None and auth_span[0] <= i < auth_span[1] else "R"
                    if not prog.endswith(c):
                        prog += c
            positions = [("write", k) for k in range(1, nw + 1)] + [("byte", n) for n in range(0, nb + 1)]
            if tier == "quick" and lock:
                # quick, channel_lock=True: every write, every 2nd byte offset (thorough: all)
                positions = [p for p in positions if p[0] == "write" or p[1] % 2 == 0]
            if tier == "quick" and len(positions) > 70:
                # quick: every write, every byte of the first and last 20, every 3rd in between (thorough: all)
                bytes_ = [p for p in positions if p[0] == "byte"]
                positions = [p for p in positions if p[0] == "write"] + bytes_[:20] + bytes_[20:-20:3] + bytes_[-20:]
            for kind, pos in positions:
                fp = FaultPlan(at_write=base_w + pos) if kind == "write" else FaultPlan(after_bytes=base_b + pos)
                conn, t = sim_build(platform, stack, op, lock=lock)
                if not op.startswith("open"):
                    L.run_op(conn, "open")
                t.faults = [fp]
                start = len(t.trace)
                c0 = t.ncalls
                r = sim_do(conn, op)
                ev = op_events(t.trace, start)
                ncalls = t.ncalls - c0
                fired = fp.fired
                alive = L.run_op(conn, "isalive")
                nxt = L.run_op(conn, "get_prompt")           # second operation on the connection
                nxt3 = L.run_op(conn, "send_command")        # ... and a third
                case = {"kind": "sim", "platform": platform, "stack": stack, "op": op, "fault": [kind, pos], "channel_lock": lock,
                        "result": "ok" if r[0] == "ok" else L.classify_exc(r[1])}
                ck.case(("sim", platform, stack, op, kind, pos, lock), nontrivial=fired, sample=case,
                        tags=(f"platform={platform}", f"stack={stack}", f"op={op}", f"faultkind={kind}", "fired" if fired else "not-reached", f"channel_lock={lock}",
                              "result=" + (case["result"].split(":")[1] if ":" in case["result"] else case["result"])))
                # ---- oracle
                if r[0] == "exc" and isinstance(r[1], L.Starved):
                    ck.violation(case, f"{op}: runaway loop after the drop — more than 20000 transport calls, the operation never ends by itself", matcher)
                    continue
                if r[0] == "exc" and isinstance(r[1], SimStall):
                    ck.violation(case, f"{op}: would hang — waiting for bytes after the drop was delivered" if fired else f"{op}: stalled without fault (rig)", matcher)
                    continue
                if r[0] == "exc" and not exc_allowed(r[1]):
                    ck.violation(case, f"{op}: raised {type(r[1]).__name__} ({r[1]!r}), not a ScrapliException", matcher)
                    continue
                if r[0] == "ok" and fired:
                    ck.violation(case, f"{op}: the drop was delivered to the operation, yet it completed normally", matcher)
                    continue
                if fired and not (alive[0] == "ok" and alive[1] is False):
                    ck.violation({**case, "isalive": repr(alive[1])}, f"{op}: isalive() after the drop -> {alive[1]!r}", matcher)
                    continue
                hung = next((i for i, x in ((2, nxt), (3, nxt3)) if x[0] == "exc" and isinstance(x[1], (L.LockHang, L.Starved, SimStall))), None)
                if hung is not None:
                    why = ("blocks for ever on the channel lock that the interrupted operation left held" if isinstance((nxt, nxt3)[hung - 2][1], L.LockHang)
                           else "never ends")
                    ck.violation({**case, "history": [op, "get_prompt", "send_command"][:hung], "hangs": ["get_prompt", "send_command"][hung - 2]},
                                 f"{op} interrupted by the drop, then operation #{hung} on the same connection ({['get_prompt', 'send_command'][hung - 2]}) {why} "
                                 f"(channel_lock={lock}) instead of raising a scrapli error", matcher)
                    continue
                if not (nxt[0] == "exc" and exc_allowed(nxt[1])):
                    ck.violation({**case, "next": repr(nxt[1])}, f"{op}: a further operation on the dead connection -> {nxt[1]!r}", matcher)
                    continue
                if not (nxt3[0] == "exc" and exc_allowed(nxt3[1])):
                    ck.violation({**case, "third": repr(nxt3[1])}, f"{op}: the third operation on the dead connection -> {nxt3[1]!r}", matcher)
                    continue
                # ---- model request: the outcomes the sim delivered, call by call
                env = []
                for i, e in enumerate(ev):
                    if e[0] == "W":
                        env.append("data")
                    elif e[0] == "R":
                        env.append("more" if i + 1 < len(ev) and ev[i + 1][0] in ("R", "fault") and not _fault_on_write(ev, i + 1, t) else "data")
                    elif e[0] == "fault":
                        env.append("eof")
                lines.append(f"run sim 1 {prog} 100000 {','.join(env) or '.'} eof eof")
                meta.append((case, r, ncalls, alive, nxt, fired, op))
        # never-opened connections
        for platform, stack, lock in itertools.product(PLATFORMS, ("sync", "async"), (False, True)):
            for op in ("get_prompt", "send_command", "send_configs", "send_interactive", "close"):
                conn, t = sim_build(platform, stack, op, lock=lock)
                r = sim_do(conn, op)
                alive = L.run_op(conn, "isalive")
                r2 = sim_do(conn, op)           # and again: the failed attempt must not leave anything (a lock) behind
                case = {"kind": "never-opened", "platform": platform, "stack": stack, "op": op, "channel_lock": lock, "result": "ok" if r[0] == "ok" else L.classify_exc(r[1])}
                ck.case(("never", platform, stack, op, lock), sample=case, tags=("never-opened", f"op={op}", f"stack={stack}", f"channel_lock={lock}"))
                if not (r[0] == "exc" and exc_allowed(r[1])):
                    ck.violation(case, f"never-opened connection: {op} -> {r[1]!r} (not a ScrapliException)", matcher)
                elif not (r2[0] == "exc" and exc_allowed(r2[1])):
                    ck.violation({**case, "second": L.classify_exc(r2[1]) if r2[0] == "exc" else "ok"}, f"never-opened connection: the second {op} -> {r2[1]!r}", matcher)
                elif not (alive == ("ok", False)):
                    ck.violation(case, f"never-opened connection: isalive() -> {alive[1]!r}", matcher)
                lines.append("run sim 0 WR 100000 . data data")
                meta.append((case, r, 1, alive, None, None, "never"))
    finally:
        AC.asyncio = real_asyncio
    try:
        mout = run_model("C08", lines)
    except Exception as e:
        ck.proof_broken("model driver Drv/C08.lean (sim runs)", repr(e))
        return
    for ml, (case, r, ncalls, alive, nxt, fired, op) in zip(mout, meta):
        m_out, _t, m_calls, m_alive, m_next = ml.split(" ")
        obs = "done" if r[0] == "ok" else short(L.classify_exc(r[1]))
        if op == "never":
            got, want = (obs, ncalls), (m_out, int(m_calls))
        elif op == "close" or not fired:
            got, want = (obs, ncalls), (m_out, int(m_calls))
        else:
            got = (obs, ncalls, "retFalse" if alive == ("ok", False) else "retTrue", short(L.classify_exc(nxt[1])) if nxt[0] == "exc" else "done")
            want = (m_out, int(m_calls), m_alive, m_next)
        if got == want:
            ck.traces_validated += 1
        else:
            ck.disagree("channel programs (Loss.lean run) vs real drivers over the Sim transports", case, f"impl={got} model={want} line={ml}")


def _fault_on_write(ev, i, t):
    """is the fault event at index i one that fired inside a write (then the read before it completed its loop)?"""
    if ev[i][0] != "fault":
        return False
    return any(f.fired and f.at_write is not None for f in t.faults)


# ---------------------------------------------------------------------------------------------------
def replay_witnesses(ck):
    """replay the stored witness of every open finding on the real transports; print KNOWN-FINDING while it still fails"""
    from harness import libfakes as L
    from harness.libfakes import short
    for f in ck.findings:
        if f.get("status") != "open" or f.get("property") != PID:
            continue
        w = f["witness"]
        still = False
        try:
            if w["kind"] == "map":
                act = L.observe_seq(w["transport"], [(w["method"], w["outcome"])])[0]
                still = not act_allowed(act)
            elif w["kind"] == "alive":
                act = L.observe_seq(w["transport"], [tuple(w["loss"]), ("isalive", None)])[1]
                still = short(act) != "retFalse"
            elif w["kind"] == "busy":
                lm, lo = w["loss"]
                acts = L.observe_seq(w["transport"], [(lm, lo), ("read", L.post_read(w["transport"], lm, lo)[0]), ("read", L.post_read(w["transport"], lm, lo)[0])])
                still = [short(a) for a in acts[1:]] == ["retEmptyBusy", "retEmptyBusy"]
        except Exception as e:
            raise RigError(f"replaying witness of {f['id']}: {e!r}")
        if still:
            _ACTIVE.add(f["id"])
            ck.known_finding(f["id"], f["what"])


def run(tier, seed):
    global _FINDINGS
    ck = Check(PID, tier, seed, level="proof")
    load_own_findings(ck)
    _FINDINGS = ck.findings
    _ACTIVE.clear()
    ck.rule = ("(1) error maps: every (transport, method, boundary outcome) — 6 transports x 8 methods x 20 outcomes (incl. 'a complete negotiation command arrives and the send() of "
               "the reply the transport owes fails'), and for both Telnet transports again "
               "with a control sequence pending (IAC / IAC+verb received: chunks that end strictly inside a 3-byte command) — injected into the REAL "
               "transport through fakes of socket / asyncio streams / pty fileobj+waitpid / paramiko / asyncssh; post-loss pairs (loss, then "
               "every in-domain call) and isalive() after each loss; scripted method sequences of length <= 2 (quick) / 3 (thorough), exhaustive "
               "inside the boundary domain; get_prompt / send_command of a real (Async)GenericDriver over each real transport with a fault at "
               "every boundary call x every loss outcome (Telnet: also with IAC / IAC+verb delivered right before the loss); a scripted Telnet session "
               "(9 negotiation commands interleaved with login dialogue, echo and output; real in-channel login, get_prompt, 2 commands) over BOTH real "
               "Telnet transports on socket / StreamReader fakes, lost by EOF and by reset after EVERY byte offset incl. the 18 offsets strictly inside a "
               "command, in a killable worker. (2) Sim transports: open (plain, telnet login, ssh login), get_prompt, send_command, "
               "send_configs, send_interactive, close with the default platform hooks x sync/asyncio x 5 platforms, the session dropped at every "
               "write and every byte offset (quick: every write, first/last 20 offsets, every 3rd in between for long exchanges; thorough: all); "
               "each run with channel_lock False and True (True: the channel lock replaced by a guarded twin whose would-block acquire raises instead of blocking), "
               "followed by isalive() and a SECOND and THIRD operation on the same connection; never-opened connections (operation tried twice). The telnet stream part "
               "adds 36 cases where the peer resets / closes when the k-th negotiation reply is sent (k = 0..8, both twins) and 16 channel_lock=True cases with the REAL lock and the real timeout mechanism (thread pool / wait_for, timeout_ops 0.5) in the killable worker. Non-trivial = a loss/fault was delivered; distinct by (transport|platform, stack, op, position, outcome). "
               "(3) thorough: real pty child killed / loopback TCP Telnet device (login + negotiation commands) closing by FIN or RST after every byte "
               "offset of the session, and by an RST right behind the bytes (option replies still owed) at every command end and every 3rd offset / in-process ssh server dropping, at byte offsets.")
    ck.trusted = ["Lean 4.33.0 kernel; axioms of every theorem audited ⊆ {propext, Classical.choice, Quot.sound}",
                  "tools/harness/libfakes.py: the fakes stand for the libraries (boundary DOMAIN, post-loss behaviour, aliveness primitive are hand-written "
                  "library behaviour; entries marked (*) are re-observed on the real OS / libraries by the thorough rigs)",
                  "tools/gen/c08.py: dynamic extraction writes what was observed; static AST extraction cross-checks it",
                  "Sim transports and simulated device (tools/harness/sim*.py)"]
    ck.assumptions = ["PARTIAL: the theorems are about the modelled error maps; the maps are validated by exhaustive injection at the library boundary, "
                      "real OS error timing (when a FIN/RST/EIO becomes visible) is observed by the rigs only",
                      "abstract time: every read that gives the timeout mechanism a chance to run costs >= 1 tick; sync timeouts (signal / thread) pre-empt, "
                      "asyncio timeouts need a suspension point (modelled: retEmptyBusy)",
                      "outside the property: local resource exhaustion (EMFILE, no pty), a foreign waitpid() on the ssh child, send_and_read's timed read",
                      "a write the library still accepts after the peer is gone is not detectable inside an operation that does not read afterwards"]
    replay_witnesses(ck)
    obs = part1_maps(ck, tier)
    if obs is not None:
        part1_sequences(ck, tier)
        part1_programs(ck, tier)
    part1_telnet_streams(ck, tier)
    part2_sim(ck, tier)
    if tier == "thorough":
        from harness import c08rigs
        c08rigs.run_all(ck, matcher, RigError)
    elif ck.broken and not ck.violations and obs is not None:
        # a proof / correspondence broke without a failing input yet: widen the exhaustive scope (sequences up to length 3)
        ck.notes.append("widened: method sequences up to length 3 after a broken proof/correspondence")
        part1_sequences(ck, "thorough")
    ck.exhaustive = True
    ck.extra["exhaustive_scope"] = ("error maps: all 960 (transport, method, outcome) triples + the Telnet rows for both pending control states; telnet streams: every byte offset; sequences: all in-domain method sequences up to length "
                                   f"{2 if tier == 'quick' else 3}; sim: every write and byte offset of every listed exchange" + (" (long exchanges strided in quick)" if tier == "quick" else ""))
    ck.notes.append("proof over the modelled error maps; PARTIAL — the maps are validated by exhaustive injection at the library boundary, real OS error timing is observed only")
    return ck.finish()


def replay(path):
    """re-run the stored failing case on the real code"""
    from harness import libfakes as L
    r = json.load(open(path))
    v = (r.get("violation") or {}).get("case") or {}
    k = v.get("kind")
    if k in ("map", "after", "alive", "busy", "seq"):
        if k == "seq":
            seq = [(m, o) for m, o in v["seq"]]
        elif k == "map":
            seq = [(v["method"], v["outcome"])]
        elif k == "after":
            seq = [tuple(v["loss"]), (v["method"], v["outcome"])]
        elif k == "alive":
            seq = [tuple(v["loss"]), ("isalive", None)]
        else:
            lo = L.post_read(v["transport"], *v["loss"])[0]
            seq = [tuple(v["loss"]), ("read", lo), ("read", lo)]
        acts = L.observe_seq(v["transport"], seq)
        print(v["transport"], seq, "->", acts)
        bad = any(not act_allowed(a) for a in acts) or (k == "alive" and L.short(acts[-1]) != "retFalse") or (k == "busy" and L.short(acts[-1]) == "retEmptyBusy")
        return 1 if bad else 0
    if k == "prog":
        from harness.simdevice import CliDevice
        t = v["transport"]
        flt = list(v["fault"]) + [0] * (4 - len(v["fault"]))
        link = L.Link(t, device=CliDevice("cisco_iosxe"), fault=(flt[0], flt[1], flt[2], max(flt[3], 0)), after=v.get("after_policy", "same"))
        with L.patched(link):
            conn = L.make_real_conn(t, link, timeout_ops=0.3, channel_lock=flt[3] == -1)
            if flt[3] == -1:
                L.guard_channel_lock(conn)
            if t in L.ASYNC:
                L.ReadGuard(conn)
            res = L.run_op(conn, v["op"])
            alive = L.run_op(conn, "isalive")
            nxt = L.run_op(conn, "get_prompt")
            L.dispose(t, conn.transport)
        print(t, v["op"], v["fault"], "->", res, "isalive", alive, "next", nxt)
        ok = res[0] == "exc" and exc_allowed(res[1]) and alive == ("ok", False) and nxt[0] == "exc" and exc_allowed(nxt[1])
        return 0 if ok else 1
    if k in ("sim", "never-opened"):
        from harness.simtransport import FaultPlan
        conn, t = sim_build(v["platform"], v["stack"], v["op"], lock=v.get("channel_lock", False))
        if k == "sim":
            if not v["op"].startswith("open"):
                L.run_op(conn, "open")
            kind, pos = v["fault"]
            t.faults = [FaultPlan(at_write=t.nwrites + pos) if kind == "write" else FaultPlan(after_bytes=t.nbytes + pos)]
        res = sim_do(conn, v["op"])
        alive = L.run_op(conn, "isalive")
        n2 = L.run_op(conn, "get_prompt") if k == "sim" else sim_do(conn, v["op"])
        n3 = L.run_op(conn, "send_command") if k == "sim" else n2
        print(v, "->", res, "isalive", alive, "second", n2, "third", n3)
        return 0 if (res[0] == "exc" and exc_allowed(res[1]) and alive == ("ok", False) and all(x[0] == "exc" and exc_allowed(x[1]) for x in (n2, n3))) else 1
    if k == "rig":
        from harness import c08rigs
        return c08rigs.replay(v)
    if k == "stream":
        from harness import c08rigs as R
        from vlib.common import REPO
        lk = bool(v.get("channel_lock"))
        r = R.run_stream_cases(str(REPO), [(v["transport"], v["loss"], v["offset"], lk, v.get("reply"))], per_case_limit=8.0 if lk else 20.0, timeout_ops=0.5 if lk else 2.0)[0]
        r = dict(r, spec={"rig": v["transport"], "mode": v["loss"], "offset": v["offset"], "channel_lock": lk, "reply": v.get("reply")})
        print(json.dumps(r, indent=1)[:2500])
        j = R.judge(r, hard_limit=20.0)
        print("verdict:", j)
        return 1 if j else 0
    if k in ("mapC", "afterC", "aliveC", "busyC"):
        t, pre = v["transport"], L.ctrl_prefix(v["ctrl"])
        if k == "mapC":
            seq = pre + [(v["method"], v["outcome"])]
        elif k == "afterC":
            seq = pre + [tuple(v["loss"]), (v["method"], v["outcome"])]
        elif k == "aliveC":
            seq = pre + [tuple(v["loss"]), ("isalive", None)]
        else:
            lo = L.post_read(t, *v["loss"])[0]
            seq = pre + [tuple(v["loss"]), ("read", lo), ("read", lo)]
        acts = L.observe_seq(t, seq)
        print(t, seq, "->", acts)
        bad = any(not act_allowed(a) for a in acts) or (k == "aliveC" and L.short(acts[-1]) != "retFalse") or (k == "busyC" and L.short(acts[-1]) == "retEmptyBusy")
        return 1 if bad else 0
    print("nothing to replay in", path)
    return 0
