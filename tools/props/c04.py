"""C04 — acquire_priv reaches the target level or fails in bounded steps.
Lean: ScrapliModel/Priv/*.lean, ScrapliProps/C04.lean.  Real code: the five platform drivers and NetworkDriver
with random tree tables, sync and asyncio, over the causal simulated device (tools/harness)."""
import asyncio, itertools, json, os, subprocess, sys
from pathlib import Path

from vlib.common import VERIF, Check, run_model
import translate

PID = "C04"
FINDINGS = VERIF / "findings" / "C04.json"
CORPUS = VERIF / "corpus" / "C04" / "corpus.json"
BAD = ("LOOP", "index", "key", "FUEL", "value")


# ---------- platform context (from the live tree, through the translator's extractors)
_ctx = {}


def ctx(platform):
    """platform data through the translator's extractors; an extractor that cannot translate has already been reported by
    translate() as a broken obligation — fall back to something usable so that the real code still runs through the oracle"""
    from gen import privgen
    if platform not in _ctx:
        abort_ast = True
        try:
            spec = privgen.abort_spec(platform)
        except Exception:  # noqa: BLE001
            spec = ("none",)
            abort_ast = False     # no single shape for the platform: `abort_for` measures it per case (per desired level)
            for asyncio_ in (False, True):     # sync and asyncio differ, or one is not a modelled shape: take a recognised one
                try:
                    spec = privgen.abort_spec_stack(platform, asyncio_)
                    break
                except Exception:  # noqa: BLE001
                    continue
        marker = spec[1] if spec[0] == "ifSession" else (privgen._marker_ast(platform) or privgen.SESSION_MARKER_DEFAULT)
        try:
            rows = privgen.table(platform)
        except Exception:  # noqa: BLE001
            rows = privgen.level_rows(privgen._construct(privgen._drivers(platform)[0], False).privilege_levels, marker)
        try:
            default = privgen.default_level(platform)
        except Exception:  # noqa: BLE001
            default = privgen._construct(privgen._drivers(platform)[0], False).default_desired_privilege_level
        try:
            sess = privgen.session_template(platform)
        except Exception:  # noqa: BLE001
            sess = None
        try:
            hooks = privgen.hooks(platform)
        except Exception:  # noqa: BLE001
            hooks = None        # a hook shape that is not modelled: reported by translate(); the real hooks still run
        _ctx[platform] = dict(rows=rows, default=default, abort=spec, abort_ast=abort_ast, sess=sess, marker=marker, hooks=hooks)
    return _ctx[platform]


_srows = {}


def session_rows(platform, names):
    """rows of the levels the REAL driver registers for these session names (share-group keys by pattern equality over the
    whole table, same rule as for the base table); [] when the platform cannot register sessions"""
    from gen import privgen
    k = (platform, tuple(names))
    if k not in _srows:
        d = privgen._construct(privgen._drivers(platform)[0], False)
        nbase = len(d.privilege_levels)
        if names and hasattr(d, "_create_configuration_session"):
            for n in names:
                d._create_configuration_session(session_name=n)
            _srows[k] = privgen.level_rows(d.privilege_levels, ctx(platform)["marker"])[nbase:]
        else:
            _srows[k] = []
    return list(_srows[k])


# ---------- host and user names: drawn from the platform's legal alphabet (upper and lower case, digits, . - _)
import string as _string
_HOST_INNER = {"default": _string.ascii_letters + _string.digits + ".-_",
               # the EOS session pattern's host class has no "_" (a C05 matter, see design/C04.md): keep to what every EOS pattern admits
               "arista_eos": _string.ascii_letters + _string.digits + ".-"}
FIXED_HOSTS = ["r1", "DC1-LEAF1A", "Core.sw-02", "X", "edge_9B", "n7K.Pod-3_b"]
FIXED_USERS = ["admin", "Admin", "netOps_1", "OPS-2"]
_rot = itertools.count()


def _legal(platform, h):
    inner = _HOST_INNER.get(platform, _HOST_INNER["default"])
    return all(c in inner for c in h) and "root" not in h.lower() and "-tcl" not in h.lower()


def rot_names(platform):
    """deterministic rotation through fixed mixed-case names (exhaustive families)"""
    i = next(_rot)
    hosts = [h for h in FIXED_HOSTS if _legal(platform, h)]
    return hosts[i % len(hosts)], FIXED_USERS[(i // len(hosts)) % len(FIXED_USERS)]


def rand_names(rng, platform):
    inner = _HOST_INNER.get(platform, _HOST_INNER["default"])
    ends = _string.ascii_letters + _string.digits
    while True:
        n = rng.choice([1, 2, 3, 6, 10, 16])
        h = rng.choice(ends) + "".join(rng.choice(inner) for _ in range(max(n - 2, 0))) + (rng.choice(ends) if n > 1 else "")
        if _legal(platform, h):
            break
    u = rng.choice(_string.ascii_letters) + "".join(rng.choice(_string.ascii_letters + _string.digits + "_-") for _ in range(rng.choice([0, 3, 7])))
    if "root" in u.lower():
        u = "Admin"
    return h, u


# ---------- custom tables (random trees)
def custom_levels(rows, tags):
    from scrapli.driver.network.base_driver import PrivilegeLevel
    lv = {}
    for (n, p, e, d, a, k, s) in rows:
        # like the EOS / NX-OS session patterns: lower-case classes, relying on classification being case-insensitive
        lv[n] = PrivilegeLevel(pattern=rf"^[a-z0-9._\-]{{1,40}}\-{tags[n]}#\s?$", name=n, previous_priv=p, deescalate=d, escalate=e,
                               escalate_auth=a, escalate_prompt=r"^[pP]assword:\s?$" if a else "")
    return lv


def custom_device_spec(rows, tags):
    from harness.simdevice import Move
    prompts = {n: "{h}-" + (tags[n].upper() if i % 2 else tags[n]) + "#" for i, (n, *_) in enumerate(rows)}
    moves = {}
    for (n, p, e, d, a, k, s) in rows:
        if p:
            moves[(n, d)] = Move(p)
    for (n, p, e, d, a, k, s) in rows:
        if p:
            moves.setdefault((p, e), Move(n, a))
    return prompts, moves


def gen_tree(rng, n, share=False, forest=False):
    """random tree table on n levels, listed in a random order (children may precede their parent)"""
    names = [f"lv{i}" for i in range(n)]
    par = {names[0]: ""}
    for i in range(1, n):
        par[names[i]] = rng.choice(names[:i]) if rng.random() < 0.7 else names[max(0, i - 1 - rng.randrange(min(i, 2)))]
    if forest and n >= 4:
        par[names[n // 2]] = ""          # a second root: NOT a tree (advisory cases only)
    tags = {x: x for x in names}
    if share:
        kids = {}
        for x in names:
            kids.setdefault(par[x], []).append(x)
        leaves = [x for x in names if x not in kids]
        sib = [(a, b) for a in leaves for b in leaves if a < b and par[a] == par[b] and par[a]]
        if sib:
            a, b = rng.choice(sib)
            tags[b] = tags[a]
    order = names[:]
    rng.shuffle(order)
    first = {}
    rows = []
    for i, x in enumerate(order):
        first.setdefault(tags[x], i)
        rows.append((x, par[x], f"enter {x}" if par[x] else "", f"leave {x}" if par[x] else "", bool(par[x]) and rng.random() < 0.25,
                     f"p{first[tags[x]]}", False))
    return rows, tags


# ---------- running one case on the real code
def build(case):
    from harness.privdevice import PrivDevice
    refuse = {tuple(k) for k, v in case["blocked"] if v == "refuse"}
    ignore = {tuple(k) for k, v in case["blocked"] if v == "ignore"}
    if case["platform"] == "custom":
        rows, tags = [tuple(r) for r in case["table"]], case["tags"]
        prompts, moves = custom_device_spec(rows, tags)
        dev = PrivDevice("custom", login_mode=case["login"], enable_password=case["dpw"], refuse=refuse, ignore=ignore,
                         pw_limit=case["pwl"], prompts=prompts, moves=moves, fail_lines=set(case.get("fail", [])),
                         hostname=case.get("host", "r1"), user=case.get("user", "admin"))
        root = next((n for n, p, *_ in rows if not p), rows[0][0])
        kw = dict(privilege_levels=custom_levels(rows, tags), default_desired_privilege_level=root)
        return "network", dev, kw
    dev = PrivDevice(case["platform"], login_mode=case["login"], enable_password=case["dpw"], refuse=refuse, ignore=ignore,
                     pw_limit=case["pwl"], fail_lines=set(case.get("fail", [])), hostname=case.get("host", "r1"),
                     user=case.get("user", "admin"))
    # `desired`: the constructor's public `default_desired_privilege_level` argument (absent = the platform's own default)
    return case["platform"], dev, ({"default_desired_privilege_level": case["desired"]} if case.get("desired") else {})


def desired_of(case):
    """the default desired privilege level of the case's configuration (None for custom tables: fixed to the root in `build`)"""
    if case["platform"] == "custom":
        return None
    return case.get("desired") or ctx(case["platform"])["default"]


def desired_levels(platform):
    """every legal NON-default value of the constructor argument `default_desired_privilege_level`: each level name of the table"""
    c = ctx(platform)
    return [r[0] for r in c["rows"] if r[0] != c["default"]]


def abort_for(case):
    """the abort shape for the model request: the AST's when it could be read, else the one MEASURED on the live classes under the
    case's own desired level (see privgen.abort_measured)"""
    from gen import privgen
    c = ctx(case["platform"])
    if c["abort_ast"]:
        return c["abort"]
    k = (case["platform"], desired_of(case))
    if k not in _abort_meas:
        try:
            _abort_meas[k] = privgen.abort_measured(case["platform"], desired_of(case))
        except Exception:  # noqa: BLE001
            _abort_meas[k] = c["abort"]
    return _abort_meas[k]


_abort_meas = {}


def observe(recs, snaps, t, conn, dev):
    return dict(recs=recs, log=list(dev.exec_log), probe=list(conn._probe), stalls=list(getattr(t, "stalls", [])), snaps=snaps,
                nlevels=len(conn.privilege_levels),
                levels={k: (l.pattern, list(l.not_contains)) for k, l in conn.privilege_levels.items()})


def nav_lines(case):
    """the escalate / deescalate commands of the case's table (all sessions it registers included)"""
    if not case.get("fault"):
        return ()
    rows = case_rows(case)
    return {r[2] for r in rows if r[1]} | {r[3] for r in rows if r[1]}


def run_sync(case):
    from harness.privdevice import run_history
    plat, dev, kw = build(case)
    fault = case.get("fault")
    if fault and fault["kind"] not in FAULT_KINDS["sync"]:
        fault = dict(fault, kind="exc")          # a cancelled task exists on the asyncio stack only
    recs, snaps, t, conn = run_history(plat, dev, [tuple(o) for o in case["ops"]], case["sec"], hooks=bool(case.get("hooks")),
                                       fault=fault, navset=nav_lines(case), **kw)
    return observe(recs, snaps, t, conn, dev)


async def run_async(case):
    from harness.privdevice import arun_history
    plat, dev, kw = build(case)
    recs, snaps, t, conn = await arun_history(plat, dev, [tuple(o) for o in case["ops"]], case["sec"], hooks=bool(case.get("hooks")),
                                              fault=case.get("fault"), navset=nav_lines(case), **kw)
    return observe(recs, snaps, t, conn, dev)


def case_rows(case, sessions=None):
    """the privilege table of a case; `sessions`: the sessions registered so far (default: every session the case registers)"""
    if case["platform"] == "custom":
        return [tuple(r) for r in case["table"]]
    if sessions is None:
        sessions = list(dict.fromkeys(o[1] for o in case["ops"] if o[0] == "R"))
    return list(ctx(case["platform"])["rows"]) + session_rows(case["platform"], sessions)


def stacks_differ(case):
    """do the model requests of the two stacks differ (per-stack data: the on_open / on_close hooks)"""
    if not case.get("hooks") or case["platform"] == "custom":
        return False
    h = ctx(case["platform"])["hooks"]
    return bool(h) and h["sync"] != h["async"]


def request(case, obs, stack="sync"):
    from harness.privdevice import device_extras, encode_request
    plat, dev, kw = build(case)
    if case["platform"] == "custom":
        rows = [tuple(r) for r in case["table"]]
        root = next((n for n, p, *_ in rows if not p), rows[0][0])
        default, abort, sess = root, ("none",), None
    else:
        c = ctx(case["platform"])
        rows, default, abort, sess = c["rows"], desired_of(case), abort_for(case), c["sess"]
    sessions = [o[1] for o in case["ops"] if o[0] == "R"]
    return encode_request(rows, default, case["sec"], abort, sess, {tuple(k) for k, _ in case["blocked"]}, case["dpw"], case["pwl"], list(case.get("fail", [])),
                          device_extras(dev, rows, sessions), case["login"], obs["snaps"], [tuple(o) for o in case["ops"]],
                          hooks=(((ctx(case["platform"])["hooks"] or {}).get(stack) or ([], [])) if case.get("hooks") else None))


# ---------- attribution to the known findings F11 / F11b: the narrow predicate
class Belief:
    """Tracks, from the observables only, whether an UNKNOWN belief is one the code documents: a fresh connection object,
    generic-driver mode switched on, an operation that ended in an exception, or (inside one acquire_priv call) the reset before
    a transition.  A get_prompt round meets the finding's predicate only if its unknown belief is explained that way:
      belief unknown AND device level != requested level AND both in one share group
      AND (it is not the first round of its acquire_priv call  OR  the belief was already — legitimately — unknown when the call was made).
    An unknown belief that appears out of nothing (the call was made with a known belief, or an earlier successful operation that
    must leave the belief alone / set lost it) is NOT the known finding."""

    def __init__(self):
        self.legit_unknown = True       # fresh connection object
        self.prev = "DUMMY"
        self.overlap = False

    @staticmethod
    def _admits(mode, dest, key, levels, prompt):
        """does the prompt the device shows (in level `mode`) also admit the requested level `dest`?  Decided on the prompt string
        that was actually read, with the documented classification rule (own implementation); share-group keys as a fall-back"""
        if prompt is not None and levels and dest in levels:
            from harness.privdevice import classify_prompt
            return dest in classify_prompt(levels, prompt)
        return key.get(mode) is not None and key.get(mode) == key.get(dest)

    def _rounds(self, probes, key, levels):
        for pr in probes:
            bel, mode, dest, call_bel, rnd = pr[:5]
            prompt = pr[5] if len(pr) > 5 else None
            mode = pr[6] if len(pr) > 6 else mode        # the level the device was in when it printed that prompt
            if bel == "DUMMY" and dest is not None and mode != dest and self._admits(mode, dest, key, levels, prompt):
                ok = rnd > 0 or (call_bel == "DUMMY" and self.legit_unknown)
                if ok and key.get(mode) != key.get(dest):
                    self.overlap = True      # the two levels have DIFFERENT pattern text and still share the prompt (EOS session names)
                yield ok

    def hazard(self, probes, key, levels=None):
        return any(self._rounds(probes, key, levels))

    def unexplained(self, probes, key, levels=None):
        """the same situation with an unknown belief that nothing explains"""
        return any(not x for x in self._rounds(probes, key, levels))

    def after(self, op, rec):
        b = rec["belief"]
        if b == "DUMMY":
            explained = rec["out"] != "ok" or (op[0] == "g" and op[1])
            self.legit_unknown = explained or (self.prev == "DUMMY" and self.legit_unknown)
        self.prev = b


# ---------- the oracle: the property itself, stated on the observables (never consults the model)
def oracle(case, obs):
    """-> list of (what, flags) ; flags feed the known-finding matcher"""
    from harness.privdevice import path_commands, tree_path
    blocked = {tuple(k) for k, _ in case["blocked"]}
    out = []
    prev = {"mode": case["login"], "rounds": 0, "loglen": 0}
    closed = False
    registered = []
    tainted = False      # an earlier acquisition met the finding's predicate and the belief has been wrong since
    bt = Belief()
    default = desired_of(case)
    for i, (op, rec) in enumerate(zip(case["ops"], obs["recs"])):
        # the table as it is when this operation runs: base levels + the sessions registered so far
        rows = case_rows(case, registered)
        names = [r[0] for r in rows]
        key = {r[0]: r[5] for r in rows}
        cmds = {r[2] for r in rows if r[1]} | {r[3] for r in rows if r[1]}
        n = len(rows)
        if op[0] == "R" and rec["out"] == "ok":
            registered = registered + [op[1]]
        if op[0] == "O":
            closed = False      # the connection object is opened (again)
        if closed:
            # a timeout or close() closed the transport: nothing more can reach the device
            if op[0] == "A" and (rec["out"] != "conn" or rec["loglen"] != prev["loglen"]):
                out.append((f"op {i}: the transport is closed, expected ScrapliConnectionNotOpened and no device line, got {rec['out']}", {}))
            bt.after(op, rec)
            prev = rec
            continue
        closed = (rec["out"] in ("timeout", "auth") and len(obs["stalls"]) > 0) or op[0] == "X"
        if op[0] in ("O", "X"):
            # the platform's on_open / on_close hook ran: its lines belong at the default desired level
            seg = obs["log"][prev["loglen"]:rec["loglen"]]
            probes = obs["probe"][prev["rounds"]:rec["rounds"]]
            hz = bt.hazard(probes, key, obs.get("levels"))
            out += hook_line_violations(f"op {i} {'open()' if op[0] == 'O' else 'close()'}: ", seg, cmds, case["sec"], default,
                                        {"hazard": hz or tainted, "overlap": bt.overlap})
            tainted = (tainted or hz) and rec["belief"] not in ("DUMMY", rec["mode"])
            if not case["blocked"] and case["dpw"] is None and rec["out"] not in ("ok",):
                out.append((f"op {i} {op[0]}: {rec['out']} although the device cooperates", {"hazard": hz or tainted}))
        if op[0] != "A" or rec.get("injected"):
            # (an operation abandoned by an injected fault is not judged itself: what follows must still be right)
            bt.after(op, rec)
            prev = rec
            continue
        b, m0 = op[1], prev["mode"]
        seg = obs["log"][prev["loglen"]:rec["loglen"]]
        probes = obs["probe"][prev["rounds"]:rec["rounds"]]
        rounds = rec["rounds"] - prev["rounds"]
        prev = rec
        tag = f"op {i} acquire_priv({b!r}) from {m0!r}: "
        hazard = bt.hazard(probes, key, obs.get("levels"))
        bt.after(op, rec)
        # belief unknown while the device sits in a level that shares its prompt: after a refused transition the driver may take
        # the device for a sibling (first match) and type that sibling's command; the call still has to fail within the bound
        from harness.privdevice import classify_prompt
        lv = {k_: v for k_, v in (obs.get("levels") or {}).items() if k_ in names}
        ambiguous = any(pr[0] == "DUMMY" and (sum(1 for r in rows if r[5] == key.get(pr[1])) > 1
                                              or (len(pr) > 5 and lv and len(classify_prompt(lv, pr[5])) > 1)) for pr in probes)
        flags = {"hazard": hazard or tainted, "overlap": bt.overlap}
        tainted = (tainted or hazard) and rec["belief"] not in ("DUMMY", rec["mode"])
        if rec["out"] in BAD or rec["out"].startswith("EXC:"):
            out.append((tag + f"ended with {rec['out']} (not a scrapli privilege / authentication / timeout error)", flags))
            continue
        if rounds > 2 * n + 1:
            out.append((tag + f"{rounds} get_prompt rounds > 2n+1 = {2 * n + 1}", flags))
        if b not in names:
            if rec["out"] != "priv":
                out.append((tag + f"unknown level accepted: {rec['out']}", flags))
            continue
        path = tree_path(rows, m0, b)
        if path is None:
            continue    # not a tree: outside the quantifier
        hops = path_commands(rows, path)
        stuck, why = None, None
        for k, (mode, cmd, tgt, auth) in enumerate(hops):
            if (mode, cmd) in blocked:
                stuck, why = k, "blocked"
                break
            if auth and case["dpw"] is not None and case["sec"] != case["dpw"]:
                stuck, why = k, "password"
                break
        nav = [(m, l) for m, l in seg if l != ""]
        # the secondary password typed as a command: a logged line equal to auth_secondary directly after an authenticated
        # escalate command (had the device asked for the password, the answer would not be in its command log)
        auth_cmds = {r[2] for r in rows if r[1] and r[4]}
        clean, artefact = [], False
        for (m, l) in nav:
            if case["sec"] != "" and l == case["sec"] and clean and clean[-1][1] in auth_cmds and not (clean and clean[-1] == (m, l)):
                artefact = True
                continue
            clean.append((m, l))
        if artefact:
            out.append((tag + "the secondary password was typed as a command line (the device did not ask for it)", {"pw_as_cmd": True}))
        want = [(h[0], h[1]) for h in hops]
        if stuck is None:
            ok = rec["out"] == "ok" and rec["mode"] == b and rec["belief"] == b
            if not ok:
                out.append((tag + f"cooperative path but out={rec['out']} device={rec['mode']!r} belief={rec['belief']!r}", flags))
            elif clean != want:
                out.append((tag + f"navigation lines {clean} are not the path commands {want}", flags))
            elif rounds != len(path):
                out.append((tag + f"{rounds} get_prompt rounds for a path of {len(path)} levels", flags))
        else:
            if rec["out"] == "ok":
                out.append((tag + f"returned normally (device in {rec['mode']!r}, belief {rec['belief']!r}) although hop {hops[stuck][:3]} is {why}", flags))
            elif rec["out"] not in ("priv", "auth", "timeout"):
                out.append((tag + f"refusing device: ended with {rec['out']}", flags))
            else:
                rep = clean[stuck:]
                if not ambiguous and (clean[:stuck] != want[:stuck] or not rep or any(x != want[stuck] for x in rep)):
                    out.append((tag + f"navigation lines {clean} are not path commands {want[:stuck]} followed by repetitions of {want[stuck]}", flags))
                if why == "blocked" and (rec["out"] != "priv" or rounds != 2 * n + 1):
                    out.append((tag + f"blocked hop: expected ScrapliPrivilegeError after exactly 2n+1={2 * n + 1} rounds, got {rec['out']} after {rounds}", flags))
                if why == "password":
                    exp = "auth" if case["pwl"] > 1 else "priv"
                    if rec["out"] != exp:
                        out.append((tag + f"wrong / missing secondary password (device tolerates {case['pwl']}): expected {exp}, got {rec['out']}", flags))
        if any(l not in cmds and l != case["sec"] for _, l in nav):
            out.append((tag + f"a navigation line is not an escalate/deescalate command of the table: {nav}", flags))
    if any(not by_design for by_design in obs["stalls"]):
        out.append(("the driver waited for output although the device had answered with a prompt (would hang until the timeout)", {}))
    return out


def hook_line_violations(tag, seg, cmds, sec, default, flags):
    """lines typed by an on_open / on_close hook (anything that is neither a bare return, a navigation command of the table nor the
    secondary password) must be executed in the default desired level"""
    out = []
    for (m, l) in seg:
        if l and l not in cmds and l != sec and default is not None and m != default:
            out.append((tag + f"hook line {l!r} was executed in level {m!r}, the default desired level is {default!r}", flags))
            break
    return out


def matcher(case):
    f = case.get("flags") or {}
    if f.get("hazard") and f.get("overlap"):
        return "F24b"
    if f.get("hazard"):
        return "F11b"
    if f.get("pw_as_cmd"):
        return "F23"
    return None


# ---------- case generation
def transitions(rows):
    tr = []
    for (n, p, e, d, a, k, s) in rows:
        if p:
            tr.append((p, e))
            tr.append((n, d))
    return tr


def unambiguous(rows, name):
    key = {r[0]: r[5] for r in rows}
    return sum(1 for r in rows if r[5] == key[name]) == 1


PW_VARIANTS = [(None, "", 3), (None, "pw", 3), ("pw", "pw", 3), ("pw", "bad", 3), ("pw", "bad", 1), ("pw", "", 3)]


def mk_case(platform, rows, sessions, a, b, blocked, pwv, known, default, extra=None):
    dpw, sec, pwl = pwv
    ops = [("R", s) for s in sessions]
    if known:
        login = default
        ops += [("A", a), ("A", b)]
    else:
        login = a
        ops += [("A", b)]
    c = dict(platform=platform, login=login, ops=ops, blocked=[[list(k), v] for k, v in blocked], dpw=dpw, sec=sec, pwl=pwl)
    if extra:
        c.update(extra)
    c.setdefault("host", rot_names(platform)[0])
    c.setdefault("user", rot_names(platform)[1])
    return c


def has_auth(rows, a, b):
    from harness.privdevice import path_commands, tree_path
    p = tree_path(rows, a, b)
    return bool(p) and any(h[3] for h in path_commands(rows, p))


def platform_cases(rng, platform, sessions, full, budget):
    """all ordered pairs x all blocked subsets (x password variants where an authenticated hop is on the way);
    `full`: everything; else a PRNG sample of `budget` cases from the same space"""
    c = ctx(platform)
    rows = list(c["rows"]) + session_rows(platform, sessions)
    names = [r[0] for r in rows]
    tr = transitions(rows)
    pairs = [(a, b) for a in names for b in names if a != b] + [(a, a) for a in names]
    sess_set = set(sessions)

    def one(a, b, subset, pwv, known):
        blocked = [((m, cmd), "refuse" if (i + len(subset)) % 2 else "ignore") for i, (m, cmd) in enumerate(subset)]
        return mk_case(platform, rows, sessions, a, b, blocked, pwv, known, c["default"])

    def start_ok(a, known):
        # unknown belief only in a level whose prompt is unambiguous and that the device can be logged into
        return known or (unambiguous(rows, a) and a not in sess_set)
    if full:
        for (a, b) in pairs:
            auth = has_auth(rows, c["default"], a) or has_auth(rows, a, b)
            for k in range(len(tr) + 1):
                for subset in itertools.combinations(tr, k):
                    variants = PW_VARIANTS if auth else PW_VARIANTS[:1]
                    for vi, pwv in enumerate(variants):
                        known = (k + vi + len(a)) % 2 == 0
                        if not start_ok(a, known):
                            known = True
                        yield one(a, b, subset, pwv, known)
    else:
        for _ in range(budget):
            a, b = rng.choice(pairs)
            k = rng.choice([0, 0, 1, 1, 2, 3, len(tr)])
            subset = tuple(rng.sample(tr, min(k, len(tr))))
            auth = has_auth(rows, c["default"], a) or has_auth(rows, a, b)
            pwv = rng.choice(PW_VARIANTS) if auth else PW_VARIANTS[0]
            known = rng.random() < 0.5 or not start_ok(a, False)
            cs = one(a, b, subset, pwv, known)
            cs["host"], cs["user"] = rand_names(rng, platform)
            yield cs


def custom_cases(rng, count, forest=False):
    for _ in range(count):
        n = rng.choice([2, 3, 4, 5, 6, 7, 8, 8])
        rows, tags = gen_tree(rng, n, share=rng.random() < 0.3, forest=forest)
        names = [r[0] for r in rows]
        tr = transitions(rows)
        root = next(x for x, p, *_ in rows if not p)
        for _ in range(6):
            a, b = rng.choice(names), rng.choice(names)
            k = rng.choice([0, 0, 0, 1, 2, len(tr)])
            subset = rng.sample(tr, min(k, len(tr)))
            blocked = [((m, cmd), rng.choice(["refuse", "ignore"])) for m, cmd in subset]
            pwv = rng.choice(PW_VARIANTS)
            known = rng.random() < 0.5 or not unambiguous(rows, a)
            h, u = rand_names(rng, "custom")
            yield mk_case("custom", rows, [], a, b, blocked, pwv, known, root, extra=dict(table=[list(r) for r in rows], tags=tags, host=h, user=u))


SESSION_NAME_SETS = {"cisco_nxos": [("sessA", "sessB"), ("maint-a", "maint-b", "zz3")],
                     "arista_eos": [("sessA", "other-b"), ("sessionA1", "sessionA2"), ("sessionA1", "sessionA2", "other-b"),
                                    # prefix- and case-related names: different pattern text, same prompts (outside the model's domain)
                                    ("abc", "abcd"), ("sess", "SESS"), ("abc", "abcd", "ABCD")]}


def outside_model(case):
    """session names whose keys differ although one's case-folded pattern prefix is a prefix of the other's: the real patterns overlap
    (EOS), the model's share-group keys do not — the model's device assumption (`SessPrefixFree`) excludes such tables"""
    if case.get("fault"):
        return True         # operations abandoned inside a privilege change are not in the Lean model: oracle only
    if case["platform"] == "custom":
        return False
    t = ctx(case["platform"])["sess"]
    if not t:
        return False
    k = t["keyTake"]
    names = list(dict.fromkeys(o[1] for o in case["ops"] if o[0] == "R"))
    # since /repo 209703d the session name must be followed by ")" or "-<submode>": different keys still share prompts when they
    # are equal up to case, or when one continues the other with "-"
    def overlap(a, b):
        a, b = a[:k], b[:k]
        return a != b and (a.lower() == b.lower() or b.lower().startswith(a.lower() + "-"))
    return any(overlap(a, b) for a in names for b in names if a != b)


def interleaved_session_cases(rng, platform, names, nmax, budget=None):
    """histories that interleave registering sessions and navigating: register / acquire / register / acquire ... over 2-3 session
    names (same prompt pattern or not), so that prompts are classified BETWEEN registrations; all of them to length nmax, or a
    PRNG sample of `budget` (then also other login levels and blocked transitions)"""
    c = ctx(platform)
    alpha = [("R", n) for n in names] + [("A", n) for n in names] + [("A", c["default"]), ("A", "configuration")]

    def case(login, h, blocked=()):
        host, user = rot_names(platform) if budget is None else rand_names(rng, platform)
        return dict(platform=platform, login=login, ops=[list(o) for o in h], blocked=[[list(k), v] for k, v in blocked], dpw=None, sec="", pwl=3,
                    host=host, user=user)
    if budget is None:
        for n in range(2, nmax + 1):
            for h in itertools.product(alpha, repeat=n):
                if any(o[0] == "R" for o in h) and any(o[0] == "A" and o[1] in names for o in h):
                    yield case(c["default"], h)
    else:
        logins = [r[0] for r in c["rows"]]
        tr = transitions(list(c["rows"]) + session_rows(platform, list(names)))
        for _ in range(budget):
            h = [rng.choice(alpha) for _ in range(rng.choice([3, 4, 5, 6, 8]))]
            k = rng.choice([0, 0, 0, 1, 2])
            blocked = [((m, cmd), rng.choice(["refuse", "ignore"])) for m, cmd in rng.sample(tr, min(k, len(tr)))]
            yield case(rng.choice(logins), h, blocked)


SESSION_SETS = {"cisco_iosxe": [[]], "cisco_iosxr": [[]], "juniper_junos": [[]],
                "cisco_nxos": [[], ["sessA"]], "arista_eos": [[], ["sessA"], ["sessA", "other-b"]]}


def gen_cases(ck, tier):
    from gen import privgen
    cases = []
    if CORPUS.exists():
        cases += [dict(c["case"], origin="corpus") for c in json.load(open(CORPUS))]
    rng = ck.rng
    for p in privgen.PLATFORMS:
        for sessions in SESSION_SETS[p]:
            rows = list(ctx(p)["rows"]) + session_rows(p, sessions)
            k = len(transitions(rows))
            if tier == "thorough":
                cases += list(platform_cases(rng, p, sessions, True, 0))
            else:
                # quick: the small spaces in full, the large ones sampled
                if k <= 4:
                    cases += list(platform_cases(rng, p, sessions, True, 0))
                else:
                    cases += list(platform_cases(rng, p, sessions, False, 450))
    for p, sets in SESSION_NAME_SETS.items():
        for names in sets:
            if len(names) == 2:
                cases += list(interleaved_session_cases(rng, p, names, 4 if tier == "quick" else 5))
            elif tier == "thorough":
                cases += list(interleaved_session_cases(rng, p, names, 4))
            cases += list(interleaved_session_cases(rng, p, names, 0, budget=150 if tier == "quick" else 1500))
    for p in privgen.PLATFORMS:
        small = len(ctx(p)["rows"]) <= 3
        cases += list(fault_cases(rng, p, None if (small or tier == "thorough") else 120))
    for p in privgen.PLATFORMS:
        cases += list(lifecycle_cases(rng, p, 2 if tier == "quick" else 3))
        cases += list(lifecycle_cases(rng, p, 0, budget=60 if tier == "quick" else 1200))
    # drivers constructed with every legal NON-default `default_desired_privilege_level` (each level name of the table): the level the
    # on_open / on_close hooks acquire and in which their lines must run; acquire_priv itself must not depend on it
    quick = tier == "quick"
    for p in privgen.PLATFORMS:
        for d in desired_levels(p):
            more = list(lifecycle_cases(rng, p, 2 if quick else 3)) + list(lifecycle_cases(rng, p, 0, budget=10 if quick else 200))
            more += list(platform_cases(rng, p, SESSION_SETS[p][-1], False, 40 if quick else 600))
            more += list(fault_cases(rng, p, 6 if quick else 60))
            cases += [dict(cs, desired=d) for cs in more]
    cases += list(custom_cases(rng, 80 if tier == "quick" else 1500))
    return cases


def has_share_group(case):
    rows = case_rows(case)
    keys = [r[5] for r in rows]
    return len(set(keys)) < len(keys)


def want_async(idx, tier, case=None):
    """the asyncio twin runs on every 4th / 5th case, and in the quick tier on EVERY case whose table has levels sharing a prompt or
    that opens / closes the connection (where the two stacks have the most room to differ)"""
    if idx % (4 if tier == "quick" else 5) == 0:
        return True
    if case is None:
        return False
    if case.get("fault"):
        return True
    if tier == "quick":
        return bool(case.get("hooks")) or has_share_group(case)
    return (bool(case.get("hooks")) or has_share_group(case)) and idx % 2 == 0


FAULT_POINTS = ("before_write", "after_line", "after_return")
FAULT_KINDS = {"sync": ("timeout_keep", "exc"), "async": ("timeout_keep", "cancel", "exc")}


def fault_variants(points=FAULT_POINTS):
    """every point of a privilege change x every way of abandoning it x device output kept / lost (kind "cancel" exists on the asyncio
    stack only: the sync run of such a case uses "exc")"""
    for point in points:
        for kind in FAULT_KINDS["async"]:
            for keep in (True, False):
                if point == "before_write" and keep:
                    continue
                yield dict(point=point, kind=kind, keep=keep)


def fault_cases(rng, platform, budget=None):
    """acquisitions abandoned INSIDE a privilege change with the connection kept (timeout with NO_TERMINATE_ON_TIMEOUT, cancelled task,
    injected exception) — the device completes the change or never sees it — followed by further acquisitions: each must reach exactly its
    target or raise.  [establish a level; acquire (first or second hop hit by the fault); acquire again]"""
    c = ctx(platform)
    names = [r[0] for r in c["rows"]]
    triples = [(a, b, d) for a in names for b in names for d in names if a != b]
    if budget is not None:
        triples = [rng.choice(triples) for _ in range(budget)]
    for (a, b, d) in triples:
        # "after_line" leaves the typed command on the device's line (the next return enters it): judged by C03 only
        variants = list(fault_variants(("before_write", "after_return")))
        for fv in (variants if budget is None else [rng.choice(variants)]):
            pth = base_path_len(c["rows"], c["default"], a)
            for hop in (1, 2):
                host, user = rot_names(platform)
                yield dict(platform=platform, login=c["default"], ops=[["A", a], ["A", b], ["A", d]], blocked=[], dpw=None, sec="", pwl=3,
                           host=host, user=user, fault=dict(fv, k=pth + hop))


def base_path_len(rows, a, b):
    from harness.privdevice import tree_path
    p = tree_path(rows, a, b)
    return (len(p) - 1) if p else 0


def lifecycle_cases(rng, platform, nmax, budget=None):
    """one driver object through its whole life with the platform's REAL on_open / on_close hooks: open, acquisitions, close, open
    again ...; the device starts every session at its login level while the object keeps what it remembered"""
    c = ctx(platform)
    names = [r[0] for r in c["rows"]]
    logins = [n for n in names if unambiguous(c["rows"], n)]
    alpha = [("A", n) for n in names] + ["XO"]

    def expand(h):
        ops = [("O",)]
        for t in h:
            ops += [("X",), ("O",)] if t == "XO" else [t]
        return ops

    def case(login, h, blocked=(), pwv=(None, "", 3), names_=None):
        host, user = names_ or rot_names(platform)
        return dict(platform=platform, login=login, ops=[list(o) for o in expand(h)], blocked=[[list(k), v] for k, v in blocked], dpw=pwv[0], sec=pwv[1],
                    pwl=pwv[2], host=host, user=user, hooks=True)
    if budget is None:
        for login in logins:
            for n in range(1, nmax + 1):
                for h in itertools.product(alpha, repeat=n):
                    if "XO" in h:
                        yield case(login, h)
    else:
        tr = transitions(c["rows"])
        for _ in range(budget):
            h = [rng.choice(alpha + ["XO"]) for _ in range(rng.choice([2, 3, 4, 6]))]
            k = rng.choice([0, 0, 0, 1])
            blocked = [((m, cmd), rng.choice(["refuse", "ignore"])) for m, cmd in rng.sample(tr, min(k, len(tr)))]
            yield case(rng.choice(logins), h, blocked, rng.choice(PW_VARIANTS + [(None, "", 3)] * 3), rand_names(rng, platform))


def graph_check(case, obs):
    """the implementation's `_priv_graph` against the MODEL's graph: every snapshot list must be a duplicate-free permutation of
    `neighbours t a` (the previous level + every level naming `a` as previous; computed here from the table rows exactly like
    Table.lean `neighbours`) — only the ORDER is taken from the implementation"""
    sessions = list(dict.fromkeys(o[1] for o in case["ops"] if o[0] == "R"))
    base_rows = case_rows(case, [])
    for n, ents in obs["snaps"]:
        extra = n - len(base_rows)
        if extra < 0 or extra > len(sessions):
            return f"graph snapshot for a table of {n} levels cannot be matched to the registered sessions"
        # sessions are registered in history order; a refused duplicate registration adds nothing
        rows = case_rows(case, sessions[:extra])
        if len(rows) != n:
            continue
        want = {}
        for (nm, p, *_r) in rows:
            want.setdefault(nm, [])
        for (nm, p, *_r) in rows:
            if p:
                want[nm].append(p)
                want.setdefault(p, []).append(nm)
        got = {a: list(nbs) for a, nbs in ents}
        for a in want:
            g = got.get(a, [])
            if len(set(g)) != len(g) or sorted(g) != sorted(want[a]):
                return f"_priv_graph[{a!r}] = {g} is not a permutation of the model's neighbours {want[a]} (table of {n} levels)"
        if set(got) - set(want):
            return f"_priv_graph has nodes outside the table: {sorted(set(got) - set(want))}"
    return None


def compare(obs, mrecs, mlog):
    keys = ("out", "belief", "rounds", "loglen", "mode")
    a = [tuple(r[k] for k in keys) for r in obs["recs"]]
    b = [tuple(r[k] for k in keys) for r in mrecs]
    if a != b:
        return f"per-op (out, belief, rounds, loglen, mode): impl={a} model={b}"
    if [tuple(x) for x in obs["log"]] != mlog:
        return f"device log: impl={obs['log']} model={mlog}"
    return None


def load_findings(ck):
    if FINDINGS.exists():
        mine = json.load(open(FINDINGS))      # this property's findings file is authoritative for its ids (status open / fixed)
        ids = {f["id"] for f in mine}
        ck.findings = [f for f in ck.findings if f["id"] not in ids] + mine


def replay_findings(ck):
    """replay each stored witness on the real code; one KNOWN-FINDING line while it still fails"""
    for f in ck.findings:
        if f.get("status") != "open" or f.get("property") != PID:
            continue
        case = f["witness"]["case"]
        try:
            obs = run_sync(case)
            v = oracle(case, obs)
        except Exception as e:  # noqa: BLE001
            ck.notes.append(f"witness of {f['id']} could not be replayed: {e!r}")
            continue
        if any(matcher(dict(case, flags=fl)) == f["id"] for _, fl in v):
            ck.known_finding(f["id"], f["what"])


def hashseed_runs(ck, seeds):
    """thorough: the same sampled platform cases under several PYTHONHASHSEED values (set iteration order)"""
    bad = 0
    for hs in seeds:
        env = dict(os.environ, PYTHONHASHSEED=str(hs), VERIF_SEED=str(ck.seed))
        code = f"import sys; sys.path.insert(0, {str(VERIF / 'tools')!r}); import props.c04 as m; m.child_main()"
        p = subprocess.run([sys.executable, "-c", code], env=env, capture_output=True, text=True, timeout=1200, cwd=str(VERIF / "tools"))
        try:
            r = json.loads(p.stdout.strip().splitlines()[-1])
        except Exception:  # noqa: BLE001
            ck.notes.append(f"PYTHONHASHSEED={hs} child failed: {p.stderr[-300:]}")
            continue
        ck.extra.setdefault("hashseed_runs", []).append({"PYTHONHASHSEED": hs, **{k: r[k] for k in ("cases", "orders_seen", "violations", "disagreements")}})
        for v in r["violation_cases"][:3]:
            ck.violation(dict(v["case"], flags=v["flags"], PYTHONHASHSEED=hs), v["what"], matcher)
        for d in r["disagreement_cases"][:3]:
            ck.disagree(f"Priv model vs real driver (PYTHONHASHSEED={hs})", d["case"], d["detail"])
        ck.traces_validated += r["agree"]
        bad += r["violations"] + r["disagreements"]
    return bad


def child_main():
    """run in a subprocess with a given PYTHONHASHSEED: platform + custom samples, model vs real + oracle; print one JSON line"""
    import random
    from vlib import common
    common.use_repo()
    from gen import privgen
    from harness.privdevice import decode_reply
    rng = random.Random(int(os.environ.get("VERIF_SEED", "0")) + 7919)
    cases = []
    for p in privgen.PLATFORMS:
        cases += list(platform_cases(rng, p, SESSION_SETS[p][-1], False, 150))
    cases += list(custom_cases(rng, 150))
    obs_l, reqs = [], []
    orders = set()
    for c in cases:
        o = run_sync(c)
        obs_l.append(o)
        reqs.append(request(c, o))
        orders.add(json.dumps(o["snaps"]))
    mout = run_model("C04", reqs)
    res = dict(cases=len(cases), orders_seen=len(orders), violations=0, disagreements=0, agree=0, violation_cases=[], disagreement_cases=[])
    findings = json.load(open(FINDINGS)) if FINDINGS.exists() else []
    open_ids = {f["id"] for f in findings if f.get("status") == "open"}
    for c, o, ml in zip(cases, obs_l, mout):
        mrecs, mlog, _ = decode_reply(ml)
        d = compare(o, mrecs, mlog)
        if d:
            res["disagreements"] += 1
            res["disagreement_cases"].append({"case": c, "detail": d})
        else:
            res["agree"] += 1
        for what, fl in oracle(c, o):
            if matcher(dict(c, flags=fl)) in open_ids:
                continue
            res["violations"] += 1
            res["violation_cases"].append({"case": c, "what": what, "flags": fl})
    res["violation_cases"] = res["violation_cases"][:5]
    res["disagreement_cases"] = res["disagreement_cases"][:5]
    print(json.dumps(res))


def run(tier, seed):
    from harness.privdevice import decode_reply, tree_path
    ck = Check(PID, tier, seed, level="proof")
    ck.rule = ("case = (platform table [+ registered sessions] | random tree table of 2..8 levels listed in random order, start level, "
               "belief known (driver navigated there) or unknown (login level with unambiguous prompt), target level, subset of the "
               "table's transitions the device refuses or ignores, device secondary password none/set, auth_secondary "
               "right/wrong/absent, wrong passwords tolerated 3/1). thorough: ALL ordered pairs x ALL blocked subsets per platform "
               "(password variants where an authenticated hop lies on the way) + several PYTHONHASHSEED values in subprocesses; "
               "quick: full for tables with <= 4 transitions, PRNG sample otherwise. Each case drives the REAL driver (sync; every "
               "4th/5th also asyncio) over the causal device and the Lean model; non-trivial = path of >= 2 levels; distinct by the "
               "whole case. Oracle (independent Python over parent pointers): cooperative path => returns, device exactly in the "
               "target, belief = target, navigation lines = the path's single-step commands, rounds = path length; blocked / bad "
               "password => scrapli privilege/auth/timeout error, <= 2n+1 rounds, only path commands, no wait on an answered prompt.")
    ck.trusted = ["Lean 4.33.0 kernel; axioms of every theorem audited ⊆ {propext, Classical.choice, Quot.sound}",
                  "tools/gen/privgen.py (tables, defaults, abort shapes, session template, loop factor copied from the live source)",
                  "tools/harness/simdevice.py + privdevice.py: the causal device (vendor tables written by hand, independent of PRIVS); "
                  "a read on an empty buffer emulates the timeout decorator (close + ScrapliTimeout)",
                  "correspondence harness props/c04.py"]
    ck.assumptions = ["device assumption: the prompt shown in a level is matched by exactly the levels of its share group (proved from the regexes in C05)",
                      "start states with unknown belief are login levels with an unambiguous prompt (the property speaks of levels the driver navigated to)",
                      "timeouts are emulated (no wall clock): silence of the device = ScrapliTimeout after closing the transport",
                      "user tables that are not trees are outside the quantifier (advisory: IndexError, see extra)"]
    try:
        translate.translate(PID)
    except Exception as e:  # noqa: BLE001
        ck.proof_broken("translator gen/privgen.py", repr(e))
    ck.prove("ScrapliProps.C04", lemma_files=["ScrapliProps/C04Lemmas.lean", "ScrapliProps/C04Loop.lean", "ScrapliProps/C04Reach.lean",
                                               "ScrapliModel/Priv/Table.lean", "ScrapliModel/Priv/Device.lean", "ScrapliModel/Priv/Driver.lean",
                                               "ScrapliModel/Priv/Cache.lean"])
    if tier == "thorough":
        ck.leanchecker("ScrapliProps.C04")
    load_findings(ck)
    replay_findings(ck)
    cases = gen_cases(ck, tier)
    # advisory: tables that are not trees
    adv = list(custom_cases(ck.rng, 15 if tier == "quick" else 100, forest=True))
    allc = cases + adv
    obs_s, reqs = [], []
    for c in allc:
        o = run_sync(c)
        obs_s.append(o)
        reqs.append(request(c, o))
    aidx = [i for i in range(len(cases)) if want_async(i, tier, cases[i])]

    async def all_async():
        return [await run_async(cases[i]) for i in aidx]
    obs_a = dict(zip(aidx, asyncio.run(all_async())))
    areq = {}       # cases whose model request differs between the stacks (per-stack hooks): a second request for the asyncio run
    for i in aidx:
        if stacks_differ(cases[i]):
            areq[i] = len(reqs)
            reqs.append(request(cases[i], obs_a[i], "async"))
    try:
        mout = run_model("C04", reqs)
    except Exception as e:  # noqa: BLE001
        ck.proof_broken("model driver Drv/C04.lean", repr(e))
        mout = None
    adv_dis = adv_index = 0
    for i, c in enumerate(allc):
        indom = i < len(cases)
        rows = case_rows(c)
        runs = [("sync", obs_s[i])] + ([("async", obs_a[i])] if i in obs_a else [])
        if indom:
            tgt_ops = [o for o in c["ops"] if o[0] == "A"]
            recs_ = obs_s[i]["recs"]
            last = recs_[-1] if recs_ else {"out": "?"}
            ia = max((j for j, o in enumerate(c["ops"]) if o[0] == "A"), default=None)
            before = c["login"] if not ia or ia - 1 >= len(recs_) else recs_[ia - 1]["mode"]
            pth = (tree_path(rows, before, tgt_ops[-1][1]) if tgt_ops else None) or []
            ck.case(json.dumps(c, sort_keys=True), nontrivial=len(pth) >= 2,
                    sample={k: c.get(k) for k in ("platform", "host", "user", "login", "desired", "ops", "blocked", "dpw", "sec", "pwl")},
                    tags=(c["platform"], f"pathlen={len(pth)}", f"out={last['out']}", f"blocked={min(len(c['blocked']), 4)}",
                          "dpw" if c["dpw"] else "nopw", f"sec={c['sec'] or '-'}", "belief-known" if len(tgt_ops) >= 2 else "belief-unknown",
                          "sessions-interleaved" if any(o[0] == "R" for o in c["ops"][1:]) and tgt_ops else "plain",
                          "reopened-with-hooks" if c.get("hooks") else "single-session",
                          f"desired={'non-default:' + c['desired'] if c.get('desired') else 'platform-default'}",
                          *((f"fault={c['fault']['point']}/{c['fault']['kind']}",) if c.get("fault") else ()),
                          "host-has-upper" if any(ch.isupper() for ch in c.get("host", "")) else "host-lower"))
        for stack, o in runs:
            if indom:
                for what, fl in oracle(c, o):
                    ck.violation(dict(c, stack=stack, flags=fl, observed={"recs": o["recs"], "log": o["log"]}), f"{stack}: {what}", matcher)
            if mout is not None:
                mrecs, mlog, _ = decode_reply(mout[areq[i] if stack == "async" and i in areq else i])
                d = compare(o, mrecs, mlog) or (graph_check(c, o) if indom else None)
                if outside_model(c):
                    ck.extra["advisory_outside_model_cases"] = ck.extra.get("advisory_outside_model_cases", 0) + 1
                    ck.extra["advisory_outside_model_disagreements"] = ck.extra.get("advisory_outside_model_disagreements", 0) + bool(d)
                    continue
                if d:
                    if indom:
                        ck.disagree(f"Priv model vs real {stack} driver", dict(c, stack=stack), d)
                    else:
                        adv_dis += 1
                elif indom:
                    ck.traces_validated += 1
            if not indom and any(r["out"] == "index" for r in o["recs"]):
                adv_index += 1
    ck.extra["advisory_non_tree_cases"] = len(adv)
    ck.extra["advisory_non_tree_disagreements"] = adv_dis
    ck.extra["advisory_non_tree_IndexError"] = adv_index
    ck.extra["async_cases"] = len(aidx)
    if tier == "thorough":
        hashseed_runs(ck, [1, 2, 3, 12345])
    ck.exhaustive = True
    ck.extra["exhaustive_scope"] = ("all ordered level pairs x all subsets of blocked transitions for every platform table "
                                    + ("(incl. registered sessions)" if tier == "thorough" else "with <= 4 transitions (quick tier; larger ones sampled)"))
    return ck.finish()


def replay(path):
    r = json.load(open(path))
    c = (r.get("violation") or {}).get("case") or (r.get("no_longer_checks") or [{}])[0].get("case")
    if not c:
        print("nothing to replay")
        return 2
    c = {k: v for k, v in c.items() if k not in ("flags", "observed", "stack", "PYTHONHASHSEED")}
    o = run_sync(c)
    v = oracle(c, o)
    print(json.dumps({"case": c, "recs": o["recs"], "log": o["log"]}, indent=1))
    for what, fl in v:
        print("ORACLE:", what, fl)
    return 1 if v else 0

