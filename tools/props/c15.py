"""C15 — Telnet option negotiation invisible and independent of TCP segmentation.
Lean: ScrapliModel/Telnet.lean, ScrapliProps/C15.lean.  Real code: TelnetTransport / AsynctelnetTransport
driven in-process through scripted socket / StreamReader objects."""
import asyncio, itertools, json
from vlib.common import Check, hexl, hexs, run_model, unhex, unhexl
import translate

PID = "C15"
IAC, DONT, DO, WONT, WILL, SGA = 255, 254, 253, 252, 251, 3  # RFC 854/855/858 — the oracle's own constants
VERBS = (DO, DONT, WILL, WONT)


# ---------- independent statement of the property (oracle)
def render(items):
    out = bytearray()
    for it in items:
        if it[0] == "d":
            out.append(it[1])
        else:
            out += bytes([IAC, it[1], it[2]])
    return bytes(out)


def spec(items):
    data = bytes(it[1] for it in items if it[0] == "d" and it[1] != 0)
    replies = []
    for it in items:
        if it[0] != "c":
            continue
        v, o = it[1], it[2]
        if v == DO:
            replies.append(bytes([IAC, WILL if o == SGA else WONT, o]))
        elif v == DONT:
            replies.append(bytes([IAC, WONT, o]))
        elif v == WILL:
            replies.append(bytes([IAC, DO, o]))
        else:
            replies.append(bytes([IAC, DONT, o]))
    return data, replies


def cut(stream, cuts):
    pts = [0, *sorted(cuts), len(stream)]
    return [stream[a:b] for a, b in zip(pts, pts[1:])]


# ---------- the real transports
class _RawSock:
    def __init__(self, chunks):
        self.chunks = list(chunks)
        self.sent = []

    def recv(self, n):
        return self.chunks.pop(0) if self.chunks else b""

    def send(self, b):
        self.sent.append(bytes(b))

    def settimeout(self, t):
        pass


class _Sock:
    def __init__(self, chunks):
        self.sock = _RawSock(chunks)

    def isalive(self):
        return True

    def close(self):
        pass


def _targs():
    from scrapli.transport.base import BaseTransportArgs
    return BaseTransportArgs(transport_options={}, host="h", port=23, timeout_socket=1, timeout_transport=0, logging_uid="")


def run_sync(chunks):
    from scrapli.transport.plugins.telnet.transport import PluginTransportArgs, TelnetTransport
    t = TelnetTransport(_targs(), PluginTransportArgs())
    t.socket = _Sock(list(chunks))
    data, parts = b"", []
    for _ in range(len(chunks) + 3):
        parts.append(t.read())
        data += parts[-1]
        if t._eof or not t.socket.sock.chunks:
            if not t.socket.sock.chunks and not t._eof:
                continue
            break
    return data, list(t.socket.sock.sent), parts


class _SockSeq:
    """a Socket stand-in that serves one tape per open(): the same transport object is opened, used and closed several times"""

    def __init__(self, tapes):
        self.tapes = list(tapes)
        self.sock = None
        self.alive = False
        self.sent_all = []

    def open(self):
        self.sock = _RawSock(self.tapes.pop(0))
        self.alive = True

    def isalive(self):
        return self.alive

    def close(self):
        if self.sock is not None:
            self.sent_all.append(list(self.sock.sent))
        self.alive = False


def run_sync_sessions(tapes, closing=True):
    """one TelnetTransport object through open / read to EOF / close for every tape, using the transport's own open() and close();
    closing=False: the session was dropped by the device (EOF, socket dead) and the caller opens again WITHOUT calling close()"""
    from scrapli.transport.plugins.telnet.transport import PluginTransportArgs, TelnetTransport
    import scrapli.transport.plugins.telnet.transport as tm
    t = TelnetTransport(_targs(), PluginTransportArgs())
    seq = _SockSeq([list(tp) for tp in tapes])
    real = tm.Socket
    tm.Socket = lambda **kw: seq          # close() drops the socket object, open() asks for a new one
    out = []
    try:
        for tp in tapes:
            t.open()
            data, parts = b"", []
            for _ in range(len(tp) + 3):
                parts.append(t.read())
                data += parts[-1]
                if t._eof:
                    break
            sent = list(seq.sock.sent)
            if closing:
                t.close()
            else:
                seq.close()      # the peer is gone: the socket is dead, the transport object has not been told
            out.append((data, sent, parts))
    finally:
        tm.Socket = real
    return out


async def run_async_sessions(tapes, closing=True):
    import asyncio as _aio
    from scrapli.transport.plugins.asynctelnet.transport import AsynctelnetTransport, PluginTransportArgs
    t = AsynctelnetTransport(_targs(), PluginTransportArgs())
    pending = [list(tp) for tp in tapes]
    real = _aio.open_connection

    async def fake_open_connection(host=None, port=None, **kw):
        return _Reader(pending.pop(0)), _Writer()

    _aio.open_connection = fake_open_connection
    out = []
    try:
        for tp in tapes:
            await t.open()
            data, parts = b"", []
            for _ in range(len(tp) + 3):
                parts.append(await t.read())
                data += parts[-1]
                if t._eof:
                    break
            sent = list(t.stdin.sent)
            if closing:
                t.close()
            out.append((data, sent, parts))
    finally:
        _aio.open_connection = real
    return out


class _Reader:
    def __init__(self, chunks):
        self.chunks = list(chunks)

    async def read(self, n):
        return self.chunks.pop(0) if self.chunks else b""

    def at_eof(self):
        return not self.chunks


class _Writer:
    def __init__(self):
        self.sent = []

    def write(self, b):
        self.sent.append(bytes(b))

    def close(self):
        pass


async def run_async(chunks):
    from scrapli.transport.plugins.asynctelnet.transport import AsynctelnetTransport, PluginTransportArgs
    t = AsynctelnetTransport(_targs(), PluginTransportArgs())
    t.stdout, t.stdin = _Reader(list(chunks)), _Writer()
    data, parts = b"", []
    for _ in range(len(chunks) + 3):
        parts.append(await t.read())
        data += parts[-1]
        if t._eof:
            break
    return data, list(t.stdin.sent), parts


# ---------- generators
DATA_SMALL = (0x00, 0x61, 0x18)
OPTS_SMALL = (1, 3, 255)


def alphabet_small():
    return [("d", b) for b in DATA_SMALL] + [("c", v, o) for v in VERBS for o in OPTS_SMALL]


def all_cuts(n, maxcuts):
    yield ()
    for k in range(1, maxcuts + 1):
        yield from itertools.combinations(range(1, n), k)


def gen_random(rng, ncmd_max=10):
    items = []
    ncmd = rng.randint(0, ncmd_max)
    nd = rng.choice([0, 1, 3, 8, 20, 60])
    kinds = ["c"] * ncmd + ["d"] * nd
    rng.shuffle(kinds)
    for k in kinds:
        if k == "c":
            o = rng.choice([0, 1, 3, 24, 31, 32, 39, 255, rng.randrange(256)])
            items.append(("c", rng.choice(VERBS), o))
        else:
            items.append(("d", rng.choice([0, 10, 13, 0x18, 0x61, 0x20, 0xfe, 0xfb, rng.randrange(255)])))
    return items


def matcher(case):
    return None


def run(tier, seed):
    ck = Check(PID, tier, seed, level="proof")
    ck.rule = ("streams = lists of items (data byte != IAC incl. NUL | IAC verb option) with <= 10 commands, rendered and cut "
               "into recv() results; exhaustive: all streams of <= N items over a 15-item alphabet with every single and double "
               "cut; random: up to 10 commands + up to 60 data bytes with PRNG cuts incl. 1-byte reads. Non-trivial = contains a "
               "command and at least one cut; distinct by (items, cuts). Each case runs the real sync and asyncio transports and "
               "the Lean model; oracle = RFC reply table and data bytes written independently in Python.")
    ck.trusted = ["Lean 4.33.0 kernel; axioms of every theorem audited ⊆ {propext, Classical.choice, Quot.sound}",
                  "tools/translate.py gen_telnet (constants, reply limit copied from source)",
                  "correspondence harness props/c15.py (scripted socket / StreamReader; timeout decorator bypassed with timeout_transport=0)"]
    ck.assumptions = ["recv()/StreamReader.read() return the scripted chunks; OS socket behaviour not modelled",
                      "streams with > 10 commands, IAC IAC, IAC SB ... are outside the property (checked for model/code agreement only, advisory)"]
    # 1 translate
    try:
        translate.translate(PID)
    except Exception as e:  # TranslateError or parse failure
        ck.proof_broken("translator gen/c15.py", repr(e))
    # 2 prove
    ck.prove("ScrapliProps.C15", lemma_files=["ScrapliProps/C15Lemmas.lean", "ScrapliModel/Telnet.lean"])
    if tier == "thorough":
        ck.leanchecker("ScrapliProps.C15")
    # 3 cases
    cases = []  # (items or None, chunks, in_domain)
    corpus = json.load(open(__file__.rsplit("/tools/", 1)[0] + "/corpus/C15/corpus.json"))
    for c in corpus:
        cases.append(([tuple(i) for i in c["items"]], [unhex(x) for x in c["chunks"]], True))
    alpha = alphabet_small()
    nmax = 3 if tier == "quick" else 4
    maxcuts = 2
    for n in range(0, nmax + 1):
        for items in itertools.product(alpha, repeat=n):
            if tier == "thorough" and n == 4 and ck_skip(items):
                continue
            s = render(items)
            for cuts in all_cuts(len(s), maxcuts if n < 4 else 1):
                cases.append((list(items), cut(s, cuts), True))
    nrand = 1500 if tier == "quick" else 30000
    for _ in range(nrand):
        items = gen_random(ck.rng)
        s = render(items)
        mode = ck.rng.random()
        if mode < 0.2:
            cuts = range(1, len(s))
        else:
            k = ck.rng.randint(0, min(8, max(0, len(s) - 1)))
            cuts = ck.rng.sample(range(1, len(s)), k) if len(s) > 1 else []
        cases.append((items, cut(s, list(cuts)), True))
    # malformed / out-of-domain (advisory correspondence only)
    adv = []
    for _ in range(200 if tier == "quick" else 2000):
        n = ck.rng.randint(1, 40)
        s = bytes(ck.rng.choice([255, 255, 253, 251, 250, 240, 1, 3, 0x61]) for _ in range(n))
        k = ck.rng.randint(0, min(4, n - 1))
        adv.append((None, cut(s, ck.rng.sample(range(1, n), k) if n > 1 else []), False))
    # deterministic tapes right behind the quantifier's bound (11-13 commands: one chunk, one chunk per command, a cut before /
    # inside the command behind the limit) and malformed commands (IAC NOP, IAC IAC): model and code must agree there too
    # (theorem limit_is_sharp: the sync transport leaves negotiation mode after `limit` commands, so behind it the result depends
    # on the segmentation and differs from asyncio -- outside the property, but the model must say what the code does)
    for ncmd in (11, 12, 13):
        for verb in (253, 251):
            cmds = [bytes([255, verb, 1 + (i % 5)]) for i in range(ncmd)]
            tail = b"a\x00b"
            whole = b"".join(cmds) + tail
            adv.append((None, [whole], False))
            adv.append((None, cmds + [tail], False))
            adv.append((None, [b"".join(cmds[:10]), b"".join(cmds[10:]) + tail], False))
            adv.append((None, [b"".join(cmds[:10]) + cmds[10][:1], cmds[10][1:] + b"".join(cmds[11:]) + tail], False))
            adv.append((None, [b"".join(cmds[:9]), cmds[9] + cmds[10][:2], cmds[10][2:] + b"".join(cmds[11:]) + tail], False))
    for weird in (b"\xff\xf1login:", b"\xff\xffx", b"a\xff\xf9b\xff\xfd\x01c", b"\xff\xfa\x18\x01\xff\xf0z", b"\xff"):
        adv.append((None, [weird], False))
        adv.append((None, [weird[:1], weird[1:]] if len(weird) > 1 else [weird], False))
    allc = cases + adv
    # 4 model
    lines = []
    for items, chunks, _ in allc:
        t = hexl(chunks + [b""]) if chunks else hexl([b""])
        lines.append(f"sync {t}")
        lines.append(f"async {t}")
    try:
        mout = run_model("C15", lines)
    except Exception as e:
        ck.proof_broken("model driver Drv/C15.lean", repr(e))
        mout = None
    # 5 real code + oracle + correspondence
    async def all_async():
        return [await run_async(chunks + [b""]) for _, chunks, _ in allc]
    try:
        ares = asyncio.run(all_async())
    except Exception as e:
        ares = None
        ck.violation({"stack": "async"}, f"asyncio transport raised {e!r}")
    adv_dis = 0
    for idx, (items, chunks, indom) in enumerate(allc):
        try:
            sres = run_sync(chunks + [b""])
        except Exception as e:
            sres = ("EXC", repr(e))
        a = ares[idx] if ares else None
        case = {"items": items, "chunks": [hexs(c) for c in chunks]}
        if indom:
            ncmd = sum(1 for i in items if i[0] == "c")
            ck.case((tuple(items), tuple(chunks)), nontrivial=ncmd > 0 and len(chunks) > 1,
                    sample={"items": items[:12], "chunks": [hexs(c) for c in chunks][:12]},
                    tags=(f"ncmd={min(ncmd,10)}", f"nchunks={min(len(chunks),10)}", "cut-inside-cmd" if _cut_inside(items, chunks) else "cut-between"))
            exp = spec(items)
            for stack, r in (("sync", sres), ("async", a)):
                if r is None:
                    continue
                if r[0] == "EXC" or (r[0], r[1]) != exp:
                    ck.violation({**case, "stack": stack, "got_data": hexs(r[0]) if r[0] != "EXC" else r[1],
                                  "got_writes": [hexs(w) for w in r[1]] if r[0] != "EXC" else None,
                                  "want_data": hexs(exp[0]), "want_writes": [hexs(w) for w in exp[1]]},
                                 f"{stack} telnet transport: data/replies differ from the stream's application bytes / RFC replies", matcher)
            if a is not None and sres[0] != "EXC" and (sres[0], sres[1]) != (a[0], a[1]):
                ck.violation({**case, "stack": "sync-vs-async"}, "sync and asyncio telnet transports differ", matcher)
        if mout is not None:
            for stack, r, ml in (("sync", sres, mout[2 * idx]), ("async", a, mout[2 * idx + 1])):
                if r is None or r[0] == "EXC":
                    continue
                got = f"{hexs(r[0])} {hexl(r[1])} R={hexl(r[2])}"      # data, replies, and the result of every single read() call
                if got != ml:
                    # outside the property's quantifier the ORACLE does not apply, but the model must still say what the code does
                    ck.disagree(f"Telnet model vs {stack} transport" + ("" if indom else " (stream outside the quantifier)"), case, f"impl={got} model={ml}")
                    if not indom:
                        adv_dis += 1
                else:
                    ck.traces_validated += 1
    # histories on ONE transport object: session 1 (0 / 9 / 10 / 11 / 13 commands: below, at and beyond the limit), close, open again,
    # session 2 inside the quantifier -- a (re-)opened connection is a new session: session 2 must be exactly what a fresh transport gives
    hist = []
    for n1 in (0, 9, 10, 11, 13):
        for _ in range(2 if tier == "quick" else 12):
            first = b"".join(bytes([255, ck.rng.choice([253, 251, 254, 252]), 1 + (i % 7)]) for i in range(n1)) + b"x\x00y"
            k1 = ck.rng.randint(0, min(4, len(first) - 1))
            items2 = gen_random(ck.rng)
            s2 = render(items2)
            k2 = ck.rng.randint(0, min(5, max(0, len(s2) - 1)))
            hist.append((cut(first, ck.rng.sample(range(1, len(first)), k1)) + [b""], items2,
                         (cut(s2, ck.rng.sample(range(1, len(s2)), k2)) if len(s2) > 1 else [s2]) + [b""]))
    try:
        hmodel = run_model("C15", [f"{st} {hexl(t2)}" for _, _, t2 in hist for st in ("sync", "async")])
    except Exception as e:
        ck.proof_broken("model driver Drv/C15.lean (histories)", repr(e))
        hmodel = None
    for hi, (t1, items2, t2) in enumerate(hist):
      exp = spec(items2)
      for closing in (True, False):
        if not closing and hi % 2 == 0:
            # the device drops session 1 in the middle of a command (IAC, IAC verb): the caller opens again without close()
            t1 = t1[:-1] + [ck.rng.choice([b"\xff", b"\xff\xfd", b"\xff\xfb"]), b""]
        for si, stack in enumerate(("sync", "async")):
            try:
                r = run_sync_sessions([t1, t2], closing) if stack == "sync" else asyncio.run(run_async_sessions([t1, t2], closing))
            except Exception as e:
                ck.violation({"stack": stack, "closing": closing, "history": [[hexs(c) for c in t1], [hexs(c) for c in t2]]}, f"{stack} telnet transport raised {e!r} in an open/{'close/' if closing else 'EOF/'}open history")
                continue
            d2, w2, parts2 = r[1]
            ck.case(("history", stack, closing, tuple(t1), tuple(t2)), nontrivial=True, tags=("reopen-history", "close-then-open" if closing else "eof-then-open-without-close", f"first-session-cmds={sum(1 for c in b''.join(t1) if c == 255)}"))
            if (d2, w2) != exp:
                ck.violation({"stack": stack, "closing": closing, "history": [[hexs(c) for c in t1], [hexs(c) for c in t2]], "items_session2": items2,
                              "got_data": hexs(d2), "got_writes": [hexs(w) for w in w2], "want_data": hexs(exp[0]), "want_writes": [hexs(w) for w in exp[1]]},
                             f"{stack} telnet transport: the second session on a re-opened transport object differs from the stream's application bytes / RFC replies "
                             "(state of the first session survived close()/open())")
            if hmodel is not None:
                got = f"{hexs(d2)} {hexl(w2)} R={hexl(parts2)}"
                if got == hmodel[2 * hi + si].strip():
                    ck.traces_validated += 1
                else:
                    ck.disagree(f"Telnet model (fresh session) vs {stack} transport after re-open", {"history": [[hexs(c) for c in t1], [hexs(c) for c in t2]]},
                                f"impl={got} model={hmodel[2 * hi + si].strip()}")
    ck.extra["out_of_domain_cases_model_vs_code"] = len(adv)
    ck.extra["out_of_domain_disagreements"] = adv_dis
    ck.exhaustive = True
    ck.extra["exhaustive_scope"] = f"all streams of <= {nmax} items over a 15-item alphabet x all single/double cuts"
    return ck.finish()


def ck_skip(items):
    # thorough n=4: keep streams with at least one command (data-only streams are covered at n<=3)
    return all(i[0] == "d" for i in items)


def _cut_inside(items, chunks):
    pos, bounds = 0, set()
    for it in items:
        if it[0] == "c":
            bounds.update((pos + 1, pos + 2))
            pos += 3
        else:
            pos += 1
    p = 0
    for c in chunks[:-1]:
        p += len(c)
        if p in bounds:
            return True
    return False


def replay(path):
    r = json.load(open(path))
    v = r.get("violation", {}).get("case") or {}
    chunks = [unhex(x) for x in v.get("chunks", [])]
    items = [tuple(i) for i in v.get("items") or []]
    s = run_sync(chunks + [b""])
    a = asyncio.run(run_async(chunks + [b""]))
    exp = spec(items)
    print("sync ", s, "\nasync", a, "\nwant ", exp)
    return 0 if (s == exp and a == exp) else 1
