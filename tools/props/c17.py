"""C17 — the connection parameters in effect are the ones resolved and reported.
Lean: ScrapliModel/Resolve.lean, ScrapliProps/C17.lean.  Real code: drivers are constructed in-process
(pure, no I/O besides Path.is_file / reading ssh config files in a temp HOME) and their attributes,
`transport._base_transport_args`, `transport.plugin_transport_args` and, for the system transport,
`_build_open_cmd()` are observed.  The oracle (reported == dialed, precedence table, an independent
OpenSSH argv parser) never consults the model; `ssh -G` (the real OpenSSH, when installed) is used as a
third opinion on the option grammar and, for argv with an explicit -F, on the values in effect."""
import itertools, json, os, shutil, subprocess, sys, tempfile, time, types
from pathlib import Path

from vlib.common import Check, VERIF, run_model
import translate

PID = "C17"
CORE = ("telnet", "system", "ssh2", "paramiko", "asynctelnet", "asyncssh")   # the oracle's own list
ASYNC = ("asynctelnet", "asyncssh")
LIBSSH = ("ssh2", "paramiko", "asyncssh")        # property text: "the ssh config where the transport consults it"
MAGIC_CFG, MAGIC_KH = "SYSTEM_TRANSPORT_SSH_CONFIG_TRUE", "SYSTEM_TRANSPORT_KNOWN_HOSTS_TRUE"
ETC_CFG, ETC_KH = "/etc/ssh/ssh_config", "/etc/ssh/ssh_known_hosts"

# ---------------------------------------------------------------- findings
FINDINGS_FILE = VERIF / "findings" / "C17.json"


def _is_lib(c):
    return c["transport"] in LIBSSH


_ACTIVE = None


def matcher(case):
    """finding id for a violation, only while that finding's stored witness still fails on the tree under test"""
    fid = match_predicate(case)
    if fid is not None and _ACTIVE is not None and fid not in _ACTIVE:
        return None
    return fid


def match_predicate(case):
    """narrow predicates: finding id for a violation `case` (has the inputs, the kind of violation and the
    consulted ssh config entry computed by the harness), or None"""
    k = case.get("kind", "")
    cfgp = case.get("cfg_port")          # truthy Port of the ssh config entry that applies to the host, or None
    port = case.get("port")
    host = case.get("host", "")
    if k in ("port-reported-ne-dialed", "port-precedence") and _is_lib(case) and cfgp:
        if port is None and cfgp != 22:
            return "F15a"                # library transport ∧ ssh config has Port for the host ∧ port omitted
        if port is not None and port != cfgp:
            return "F15b"                # library transport ∧ ssh config Port ∧ a different explicit port
    if case["transport"] == "system" and not dest_plain(case.get("dialed_host", host.strip())) and \
            k in ("user-precedence", "port-precedence", "argv-dest", "argv-user", "argv-port", "handed-ne-reported"):
        return "F16c"                    # system transport ∧ host word contains '@' or starts with ssh://
    if k in ("argv-dest", "argv-parse") and case["transport"] == "system" and host.strip().startswith("-") \
            and case.get("dialed_host", "").startswith("-"):
        return "F16a"                    # system transport ∧ host starts with '-'
    if k in ("host-reported-ne-dialed", "argv-dest") and host != host.strip():
        return "F15c"                    # host has leading/trailing blanks
    if k == "port-precedence" and case["transport"] == "system" and port is None and cfgp and cfgp != 22:
        return "F16b"                    # system transport ∧ config handed to ssh has Port ∧ port omitted
    return None


# ---------------------------------------------------------------- independent OpenSSH argv parser (oracle)
SSH_FLAGS = set("46AaCfGgKkMNnqsTtVvXxYy")          # ssh(1) synopsis, options without argument
SSH_ARGOPTS = set("BbcDEeFIiJLlmOopQRSWw")          # options with argument


class ArgvError(Exception):
    pass


def _getopt_pass(words, i):
    """BSD getopt as used by ssh.c: stops at the first operand; returns (opts, next index, saw `--`)"""
    opts = []
    while i < len(words):
        w = words[i]
        if len(w) < 2 or w[0] != "-":
            break
        if w == "--":
            return opts, i + 1, True
        i += 1
        j = 1
        while j < len(w):
            ch = w[j]
            j += 1
            if ch in SSH_ARGOPTS:
                if j < len(w):
                    opts.append((ch, w[j:]))
                elif i < len(words):
                    opts.append((ch, words[i]))
                    i += 1
                else:
                    raise ArgvError("missingArgument")
                break
            if ch in SSH_FLAGS:
                opts.append((ch, None))
            else:
                raise ArgvError("unknownOption")
    return opts, i, False


def parse_ssh_argv(argv):
    """-> dict(dest, opts, command); raises ArgvError.  ssh.c main(): options, destination, options again
    (unless `--`), command."""
    if not argv:
        raise ArgvError("noDestination")
    o1, i, term = _getopt_pass(argv, 1)
    if i >= len(argv):
        raise ArgvError("noDestination")
    dest = argv[i]
    i += 1
    o2 = []
    if not term:
        o2, i, _ = _getopt_pass(argv, i)
    return {"dest": dest, "opts": o1 + o2, "command": argv[i:]}


def first(opts, ch):
    for c, a in opts:
        if c == ch:
            return a
    return None


def last(opts, ch):
    r = None
    for c, a in opts:
        if c == ch:
            r = a
    return r


def parse_dest(word):
    """what ssh takes out of the destination word (ssh.c main / misc.c parse_uri, the simple forms):
    `ssh://[user@]host[:port][/path]`, else `[user@]host` split at the LAST `@` -> (user|None, host, port|None)"""
    if word.startswith("ssh://"):
        auth = word[6:].split("/", 1)[0]
        user, hp = (auth.split("@", 1) + [None])[:2] if "@" in auth else (None, auth)
        if ":" in hp:
            h, q = hp.split(":", 1)
            return user, h, q
        return user, hp, None
    if "@" in word:
        u, h = word.rsplit("@", 1)
        return u, h, None
    return None, word, None


def dest_plain(word):
    return "@" not in word and not word.startswith("ssh://")


# ---------------------------------------------------------------- the world: temp HOMEs, ssh config files
# ssh config contents for the host: (name, host block, `Host *` block); block = (port, user, identity)
VARIANTS = [
    ("none", None, None),
    ("port", (2222, "", ""), None),
    ("user", (None, "carl", ""), None),
    ("ident", (None, "", "~/.ssh/id_cfg"), None),
    ("all", (2222, "carl", "/opt/keys/id_cfg"), None),
    ("star-port", None, (2200, "", "")),
    ("host+star", (None, "carl", ""), (2200, "staruser", "~/.ssh/id_star")),
    ("port22", (22, "", ""), None),
    ("port0", (0, "", ""), None),
    ("port830", (830, "dave", ""), None),
    # the host listed on a multi-name Host line, after a block whose name is a proper prefix of the host's; the host's
    # block sets all three options itself, so the expectation does not depend on how gaps are inherited (C16)
    ("listed-after-prefix", (2222, "carl", "/opt/keys/id_cfg"), None, "listed"),
    ("listed-after-prefix+star", (2222, "carl", "/opt/keys/id_cfg"), (2200, "staruser", ""), "listed"),
]
VNAMES = [v[0] for v in VARIANTS]
HOSTS = ["dev1", " dev1 ", "dev1\n", "\tdev1", "DEV1.example.COM", "10.0.0.1", "dev 1", "-oProxyCommand=x", "-l", "-v",
         " -x", "-x ", "--", "-", "dév1", " dev1 ", "  ", "a@b", "dev1:22"]
HOMES = ("empty", "cfg", "cfg+kh", "kh")
TIMEOUTS = [(15.0, 30.0), (3.9, 4.2), (0, 0), (120, 7.0)]
EXTRAS = [None, ["-v"], "somearg", ["-F", "/other/config"], ["-p", "9"], ["--", "ls"]]


def my_expanduser(home, p):
    """the oracle's own `~` expansion (HOME has no trailing slash)"""
    if p == "~":
        return home
    if p.startswith("~/"):
        return home + p[1:]
    return p


def render_cfg(hs, var):
    """ssh config text for stripped host `hs`: an unrelated entry, the host's entry, then `Host *`"""
    blk, star = VARIANTS[var][1], VARIANTS[var][2]
    listed = len(VARIANTS[var]) > 3 and VARIANTS[var][3] == "listed" and len(hs) > 1 and " " not in hs
    out = ["# generated for C17", "Host zzz-unrelated-9", "  Port 4444", "  User nobody", ""]
    if listed:
        out += [f"Host {hs[:-1]}", "  Port 4141", "  User decoy", "  IdentityFile /opt/keys/id_decoy", ""]
    for name, b in ((hs + " zz-second-name-7" if listed else hs, blk), ("*", star)):
        if b is None:
            continue
        out.append(f"Host {name}")
        if b[0] is not None:
            out.append(f"  Port {b[0]}")
        if b[1]:
            out.append(f"  User {b[1]}")
        if b[2]:
            out.append(f"  IdentityFile {b[2]}")
        out.append("")
    return "\n".join(out) + "\n"


def view_of(home, var, own=True):
    """what the generated config says for the host: dict(port, user, ident) — host block (only if the file was
    written for this host, `own`), gaps filled from `Host *`"""
    blk, star = VARIANTS[var][1], VARIANTS[var][2]
    res = {"port": None, "user": "", "ident": ""}
    for b in ((blk if own else None), star):
        if b is None:
            continue
        if not res["port"] and b[0]:
            res["port"] = b[0]
        if not res["user"] and b[1]:
            res["user"] = b[1]
        if not res["ident"] and b[2]:
            res["ident"] = my_expanduser(home, b[2])
    return res


EMPTY_VIEW = {"port": None, "user": "", "ident": ""}


def etc_view():
    """view of the machine's /etc/ssh/ssh_config (cannot be controlled): only `Host *`-level Port/User/IdentityFile
    are understood; anything else that could matter makes cases depending on it advisory"""
    if not os.path.isfile(ETC_CFG):
        return dict(EMPTY_VIEW), True
    res, simple, in_star = dict(EMPTY_VIEW), True, True
    for line in open(ETC_CFG, encoding="utf-8", errors="replace"):
        t = line.split("#", 1)[0].strip()
        if not t:
            continue
        kw, _, val = t.replace("=", " ", 1).partition(" ")
        kw, val = kw.lower(), val.strip()
        if kw == "host":
            in_star = val == "*"
            if not in_star:
                simple = False
        elif kw == "match":
            simple = False
        elif kw == "include":
            import glob
            if any(os.path.isfile(g) for g in glob.glob(val)):
                simple = False
        elif kw in ("port", "user", "identityfile", "hostname"):
            if not in_star:
                simple = False
            elif kw == "port" and not res["port"]:
                res["port"] = int(val)
            elif kw == "user" and not res["user"]:
                res["user"] = val
            elif kw == "identityfile" and not res["ident"]:
                res["ident"] = val
            elif kw == "hostname":
                simple = False
    return res, simple


class World:
    def __init__(self):
        self.root = tempfile.mkdtemp(prefix="c17-")
        self._made = set()
        self.key_abs = self._write("keys/id_test", "not a real key\n")
        self.kh_file = self._write("kh/known_hosts1", "dev1 ssh-ed25519 AAAAC3NzaC1lZDI1NTE5AAAAIHostKeyHostKeyHostKeyHostKeyHostKeyHostKey000\n")
        self.missing = os.path.join(self.root, "nope", "missing")
        self.etc, self.etc_simple = etc_view()
        self.hidx = {}

    def _write(self, rel, text):
        p = os.path.join(self.root, rel)
        if p not in self._made:
            os.makedirs(os.path.dirname(p), exist_ok=True)
            with open(p, "w", encoding="utf-8") as f:
                f.write(text)
            self._made.add(p)
        return p

    def _h(self, hs):
        return self.hidx.setdefault(hs, len(self.hidx))

    def cfg_file(self, hs, var):
        return self._write(f"cfg/h{self._h(hs)}_{VNAMES[var]}", render_cfg(hs, var))

    def home(self, kind, hs, var):
        if kind == "empty":
            d = os.path.join(self.root, "home", "empty")
            os.makedirs(d, exist_ok=True)
            return d
        tag = f"home/{kind.replace('+', '_')}_h{self._h(hs)}_{VNAMES[var]}" if "cfg" in kind else "home/khonly"
        d = os.path.join(self.root, tag)
        self._write(f"{tag}/.ssh/id_home", "not a real key\n")
        if "cfg" in kind:
            self._write(f"{tag}/.ssh/config", render_cfg(hs, var))
        if "kh" in kind:
            self._write(f"{tag}/.ssh/known_hosts", "dev1 ssh-rsa AAAA\n")
        return d

    def cleanup(self):
        shutil.rmtree(self.root, ignore_errors=True)


def usable_host_in_cfg(hs):
    """host strings for which a `Host <hs>` entry can be written without leaving C17's ground (C16 owns the
    lookup and the text parser): no blanks-only name, no comment/quote characters"""
    return bool(hs) and not any(ch in hs for ch in "#\"'\\\n") and "host" not in hs.lower()


# ---------------------------------------------------------------- cases
# a case is symbolic (JSON-able) and is materialised against the World:
#  key: "" | "A" absolute existing | "H" "~/.ssh/id_home" | "M" missing
#  cfg: "F" False | "T" True | "E" "" | "P" existing file (variant xvar) | "M" missing path | "H" "~/.ssh/config"
#  kh : "F" | "T" | "P" existing file | "M" missing path
FIELDS = ("transport", "cls", "host", "port", "user", "password", "key", "passphrase", "strict", "cfg", "kh",
          "home", "xvar", "hvar", "tmo", "extra")
DEFAULT = dict(transport="system", cls="base", host="dev1", port=None, user="", password="", key="", passphrase="",
               strict=True, cfg="F", kh="F", home="empty", xvar=0, hvar=0, tmo=0, extra=0)


def mk(**kw):
    c = dict(DEFAULT)
    c.update(kw)
    return c


def materialise(w, c):
    """-> (constructor kwargs, HOME, facts) ; facts = what the harness knows about the world for this case"""
    hs_self = c["host"].strip()
    hs = c["owner"].strip() if c.get("owner") is not None else hs_self     # the host the config files are written for
    own = hs == hs_self
    hvar = c["hvar"] if usable_host_in_cfg(hs) or VARIANTS[c["hvar"]][1] is None else 0
    xvar = c["xvar"] if usable_host_in_cfg(hs) or VARIANTS[c["xvar"]][1] is None else 0
    home = w.home(c["home"], hs, hvar)
    kw = {"host": c["host"], "transport": c["transport"]}
    if c["port"] is not None:
        kw["port"] = c["port"]
    for k, n in (("user", "auth_username"), ("password", "auth_password"), ("passphrase", "auth_private_key_passphrase")):
        if c[k]:
            kw[n] = c[k]
    key = {"": "", "A": w.key_abs, "H": "~/.ssh/id_home", "M": w.missing + ".key"}[c["key"]]
    if key:
        kw["auth_private_key"] = key
    if not c["strict"]:
        kw["auth_strict_key"] = False
    xfile = w.cfg_file(hs, xvar)
    cfg = {"F": False, "T": True, "E": "", "P": xfile, "M": w.missing + ".cfg", "H": "~/.ssh/config"}[c["cfg"]]
    if c["cfg"] != "F":
        kw["ssh_config_file"] = cfg
    kh = {"F": False, "T": True, "P": w.kh_file, "M": w.missing + ".kh"}[c["kh"]]
    if c["kh"] != "F":
        kw["ssh_known_hosts_file"] = kh
    ts, tt = TIMEOUTS[c["tmo"]]
    if c["tmo"]:
        kw["timeout_socket"], kw["timeout_transport"] = ts, tt
    extra = EXTRAS[c["extra"]]
    if extra is not None:
        kw["transport_options"] = {"open_cmd": extra}
    # the world as the constructor can see it
    views = {}
    if os.path.isfile(xfile):
        views[xfile] = view_of(home, xvar, own)
    hc = os.path.join(home, ".ssh", "config")
    if os.path.isfile(hc):
        views[hc] = view_of(home, hvar, own)
    if os.path.isfile(ETC_CFG):
        views[ETC_CFG] = dict(w.etc)
    cand = {key, cfg if isinstance(cfg, str) else "", kh if isinstance(kh, str) else "", "~/.ssh/config", ETC_CFG,
            "~/.ssh/known_hosts", ETC_KH, MAGIC_CFG, MAGIC_KH, "/dev/null", ""}
    files = sorted({p for q in cand for p in (q, my_expanduser(home, q)) if p and os.path.isfile(p)})
    # what ssh itself would find in its default files (user file first, first obtained value wins)
    sd = dict(EMPTY_VIEW)
    for f in (hc, ETC_CFG):
        v = views.get(f)
        if v:
            for k in sd:
                if not sd[k] and v[k]:
                    sd[k] = v[k]
    facts = {"home": home, "files": files, "views": views, "ssh_default": sd, "key": key, "cfg": cfg, "kh": kh,
             "ts": int(ts), "tt": int(tt), "extra": [extra] if isinstance(extra, str) else list(extra or []),
             "xfile": xfile}
    return kw, home, facts


# ---------------------------------------------------------------- the real code
def _install_ssh2_stub():
    """ssh2-python is not installed; scrapli's own ssh2 transport module only needs three names at import time.
    Constructing the transport never touches the library."""
    try:
        import ssh2  # noqa
        return "real"
    except ModuleNotFoundError:
        pass
    for name, attrs in (("ssh2", ()), ("ssh2.channel", ("Channel",)), ("ssh2.session", ("Session",)),
                        ("ssh2.exceptions", ("AuthenticationError", "SSH2Error"))):
        m = types.ModuleType(name)
        for a in attrs:
            setattr(m, a, type(a, (Exception,) if "Error" in a else (), {}))
        sys.modules[name] = m
    return "stub"


def driver_class(transport, cls):
    a = transport in ASYNC
    if cls == "generic":
        from scrapli.driver.generic import AsyncGenericDriver, GenericDriver
        return AsyncGenericDriver if a else GenericDriver
    if cls == "iosxe":
        from scrapli.driver.core import AsyncIOSXEDriver, IOSXEDriver
        return AsyncIOSXEDriver if a else IOSXEDriver
    from scrapli.driver.base import AsyncDriver, Driver
    return AsyncDriver if a else Driver


def construct_real(kw, cls):
    """construct the driver -> driver object, or {"err": kind}"""
    from scrapli.exceptions import ScrapliValueError
    try:
        return driver_class(kw["transport"], cls)(**kw)
    except ScrapliValueError as e:
        m = str(e)
        if "got nothing" in m:
            return {"err": "noHost"}
        if "could not be resolved" in m:
            return {"err": "keyUnresolvable"}
        if "`host` should be a hostname/ip address, got '" in m:
            return {"err": "dashHost" if str(kw.get("host", "")).strip().startswith("-") else "destSyntaxHost"}
        return {"err": "EXC:ScrapliValueError:" + m[:80]}
    except Exception as e:  # noqa
        return {"err": f"EXC:{type(e).__name__}:{str(e)[:80]}"}


def observe(d, transport):
    """the property-relevant observables of a constructed driver"""
    import dataclasses
    if isinstance(d, dict):
        return d
    t = d.transport
    b = t._base_transport_args
    obs = {"host": d.host, "port": d.port, "user": d.auth_username, "password": d.auth_password, "key": d.auth_private_key,
           "passphrase": d.auth_private_key_passphrase, "strict": d.auth_strict_key, "cfg": d.ssh_config_file,
           "kh": d.ssh_known_hosts_file, "bta_host": b.host, "bta_port": b.port, "same_bta": b is d._base_transport_args,
           "plugin": [(f.name, getattr(t.plugin_transport_args, f.name)) for f in dataclasses.fields(t.plugin_transport_args)],
           "argv": None}
    if transport == "system":
        t._build_open_cmd()
        first_cmd = list(t.open_cmd)
        t._build_open_cmd()                     # building the command twice must give the same command
        obs["argv"] = list(t.open_cmd)
        if first_cmd != obs["argv"]:
            obs["argv_unstable"] = first_cmd
    return obs


def run_real(kw, home, cls):
    """construct the driver in a process that has parsed no ssh config yet; -> observables dict or {"err": kind}"""
    from scrapli.ssh_config import SSHConfig
    os.environ["HOME"] = home
    SSHConfig._config_files.clear()      # isolation: the parse cache is process-wide (histories keep it, see run_history)
    return observe(construct_real(kw, cls), kw["transport"])


def cache_snapshot():
    """the process-wide cache of parsed ssh configs, as data"""
    from scrapli.ssh_config import SSHConfig
    return {p: {k: (h.port, h.user, h.identity_file, h.hostname) for k, h in cfg.hosts.items()}
            for p, cfg in SSHConfig._config_files.items()}


def run_history(w, steps, share_opts):
    """construct the drivers of `steps` one after the other in ONE process state (the cache of parsed ssh configs is
    cleared once, before the first), keeping all of them alive.
    -> (materialised steps, observables at construction, observables re-read at the end, problems)"""
    import copy
    from scrapli.ssh_config import SSHConfig
    mats = [materialise(w, c) for c in steps]
    home = mats[0][1]
    os.environ["HOME"] = home
    SSHConfig._config_files.clear()
    problems = []
    shared, snap = None, None
    if share_opts:
        ex = [m[0].get("transport_options") for m in mats if m[0].get("transport_options") is not None]
        if ex:
            shared = ex[0]                      # the user hands the SAME dict object to several drivers
            snap = copy.deepcopy(shared)
    drivers, at = [], []
    for (kw, _, facts), c in zip(mats, steps):
        kw = dict(kw)
        if shared is not None and "transport_options" in kw:
            if kw["transport_options"] != snap:
                kw.pop("transport_options")
            else:
                kw["transport_options"] = shared
        d = construct_real(kw, c["cls"])
        drivers.append(d)
        at.append(observe(d, c["transport"]))
    end = [observe(d, c["transport"]) for d, c in zip(drivers, steps)]
    if shared is not None and shared != snap:
        problems.append(("transport-options-mutated", f"the caller's transport_options dict was changed: {snap} -> {shared}"))
    # the parsed configs in the cache still say what the files say
    cached = cache_snapshot()
    for path, entries in cached.items():
        try:
            fresh = SSHConfig(path)
        except Exception:
            continue
        want = {k: (h.port, h.user, h.identity_file, h.hostname) for k, h in fresh.hosts.items()}
        if want != entries:
            diff = {k: (entries.get(k), want.get(k)) for k in set(entries) | set(want) if entries.get(k) != want.get(k)}
            problems.append(("shared-cache-mutated", f"cached parse of {path or '<no file>'} no longer equals the file: {diff}"))
    return mats, at, end, problems


# ---------------------------------------------------------------- model request / reply
def hx(s):
    b = s.encode("utf-8")
    return b.hex() if b else "-"


def hxl(l):
    return ",".join(hx(x) for x in l) if l else "."


def unhx(s):
    return "" if s == "-" else bytes.fromhex(s).decode("utf-8")


def unhxl(s):
    return [] if s == "." else [unhx(x) for x in s.split(",")]


def _farg(a):
    if a is False:
        return "N"
    if a is True:
        return "A"
    return "P" + hx(a)


def _hc(v):
    return f"{v['port'] if v['port'] is not None else '-'}:{hx(v['user'])}:{hx(v['ident'])}"


def model_line(fx, c, facts):
    cfgs = ";".join(f"{hx(p)}:{_hc(v)}" for p, v in sorted(facts["views"].items())) or "."
    return " ".join(["resolve", fx, c["transport"], hx(c["host"]), "-" if c["port"] is None else str(c["port"]),
                     hx(c["user"]), hx(c["password"]), hx(facts["key"]), hx(c["passphrase"]), "1" if c["strict"] else "0",
                     _farg(facts["cfg"]), _farg(facts["kh"]), str(facts["ts"]), str(facts["tt"]), hxl(facts["extra"]),
                     hx(facts["home"]), hxl(facts["files"]), cfgs, _hc(facts["ssh_default"])])


def canon_real(obs):
    """the real observables in the model's reply syntax (everything up to PR=/EF=)"""
    if "err" in obs:
        return "err " + obs["err"]
    rep = ",".join([hx(obs["host"]), str(obs["port"]), hx(obs["user"]), hx(obs["password"]), hx(obs["key"]),
                    hx(obs["passphrase"]), "1" if obs["strict"] else "0", hx(obs["cfg"]), hx(obs["kh"])])
    pl = ";".join(f"{n}=" + (("b1" if v else "b0") if isinstance(v, bool) else "s" + hx(v)) for n, v in obs["plugin"]) or "."
    av = hxl(obs["argv"]) if obs["argv"] is not None else "."
    return f"ok R={rep} B={hx(obs['bta_host'])},{obs['bta_port']} PL={pl} AV={av}"


def enc_parse(argv):
    """the oracle parser's result in the model's <parse> syntax"""
    try:
        p = parse_ssh_argv(argv)
    except ArgvError as e:
        return f"err:{e}"
    opts = ";".join(c + (hx(a) if a is not None else "~") for c, a in p["opts"]) or "."
    return f"ok:{hx(p['dest'])}:{opts}:{hxl(p['command'])}"


# ---------------------------------------------------------------- the oracle (never looks at the model)
def consulted_view(c, facts):
    """the ssh config entry that governs this connection according to the property: none for telnet /
    ssh_config_file=False; library transports: the resolved file (given path if it exists, else ~/.ssh/config, else
    /etc/ssh/ssh_config); system transport: the file handed to ssh, or ssh's own defaults for True.
    -> (view, resolved name as the driver should report it)"""
    t = c["transport"]
    if "telnet" in t or facts["cfg"] is False:
        return dict(EMPTY_VIEW), ""
    given = "" if facts["cfg"] is True else facts["cfg"]
    if t == "system" and given == "":
        return dict(facts["ssh_default"]), MAGIC_CFG
    for p in (given, "~/.ssh/config", ETC_CFG):
        if not p:
            continue
        q = my_expanduser(facts["home"], p)
        if os.path.isfile(q):
            return dict(facts["views"].get(q, EMPTY_VIEW)), q
    return dict(EMPTY_VIEW), ""


def expected_kh(c, facts):
    t = c["transport"]
    if "telnet" in t or facts["kh"] is False:
        return ""
    given = "" if facts["kh"] is True else facts["kh"]
    if t == "system" and given == "":
        return MAGIC_KH
    for p in (given, "~/.ssh/known_hosts", ETC_KH):
        if p and os.path.isfile(my_expanduser(facts["home"], p)):
            return my_expanduser(facts["home"], p)
    return ""


def oracle(ck, c, facts, obs, viol):
    """evaluate C17 on the real observables; `viol(kind, what, **extra)` records a violation"""
    t = c["transport"]
    hs = c["host"].strip()
    view, cfg_name = consulted_view(c, facts)
    cfgp = view["port"] if view["port"] else None
    base = {"cfg_port": cfgp}
    if "err" in obs:
        ok_err = (obs["err"] == "noHost" and c["host"] == "") or \
                 (obs["err"] == "keyUnresolvable" and c["key"] == "M") or \
                 (obs["err"] == "keyUnresolvable" and c["key"] == "H" and c["home"] == "empty") or \
                 (obs["err"] == "dashHost" and hs.startswith("-")) or \
                 (obs["err"] == "destSyntaxHost" and not dest_plain(hs))
        if not ok_err:
            viol("constructor-error", f"constructor raised {obs['err']} for arguments inside the quantifier", **base)
        return
    base["dialed_host"] = obs["bta_host"]
    # -- O1 reported == dialed (the argument objects the transport holds)
    if not obs["same_bta"]:
        viol("bta-identity", "transport._base_transport_args is not the driver's object", **base)
    if obs["host"] != hs:
        viol("host-reported", f"driver.host {obs['host']!r} is not the stripped host argument {hs!r}", **base)
    if obs["bta_host"] != obs["host"]:
        viol("host-reported-ne-dialed", f"driver.host {obs['host']!r} but the transport dials {obs['bta_host']!r}", **base)
    if obs["bta_port"] != obs["port"]:
        viol("port-reported-ne-dialed", f"driver.port {obs['port']} but the transport dials {obs['bta_port']}", **base)
    rep = {"auth_username": obs["user"], "auth_password": obs["password"], "auth_private_key": obs["key"],
           "auth_private_key_passphrase": obs["passphrase"], "auth_strict_key": obs["strict"],
           "ssh_config_file": obs["cfg"], "ssh_known_hosts_file": obs["kh"]}
    pl = dict(obs["plugin"])
    for n, v in obs["plugin"]:
        if n not in rep or rep[n] != v or type(rep[n]) is not type(v):
            viol("plugin-ne-reported", f"plugin arg {n}={v!r} but driver reports {rep.get(n)!r}", **base)
    if "telnet" not in t:
        for n in ("auth_username", "auth_private_key", "auth_strict_key", "ssh_known_hosts_file"):
            if n not in pl:
                viol("plugin-missing", f"ssh transport {t} has no plugin arg {n}", **base)
    # -- O3 the reported file names follow the documented resolution
    if obs["cfg"] != cfg_name:
        viol("cfg-file", f"driver.ssh_config_file {obs['cfg']!r}, expected {cfg_name!r}", **base)
    if obs["kh"] != expected_kh(c, facts):
        viol("kh-file", f"driver.ssh_known_hosts_file {obs['kh']!r}, expected {expected_kh(c, facts)!r}", **base)
    # -- what is in effect
    if t == "system":
        argv = obs["argv"]
        if "argv_unstable" in obs:
            viol("argv-unstable", f"_build_open_cmd() gave {obs['argv_unstable']} first and {argv} when called again", **base)
        try:
            p = parse_ssh_argv(argv)
        except ArgvError as e:
            viol("argv-parse", f"ssh would reject the command line ({e}): {argv}", **base)
            return
        if p["dest"] != obs["host"] or argv[1] != p["dest"]:
            viol("argv-dest", f"ssh's destination is {p['dest']!r}, driver reports host {obs['host']!r}: {argv}", **base)
            return
        opts = p["opts"]
        nx = len(facts["extra"])
        if not facts["extra"]:
            if p["command"]:
                viol("argv-command", f"ssh would run a remote command {p['command']}", **base)
            if any(a is None for _, a in opts) or {ch for ch, _ in opts} - set("poilF"):
                viol("argv-options", f"unexpected options on the command line: {opts}", **base)
        eff_port = first(opts, "p")
        eff_user = first(opts, "l")
        keys = [a for ch, a in opts if ch == "i"]
        fcfg = last(opts, "F") if not nx else last(opts[:len(opts)], "F")
        if eff_port != str(obs["port"]):
            viol("argv-port", f"-p {eff_port!r} but driver.port {obs['port']}", **base)
        if (eff_user or "") != obs["user"] and not nx:
            viol("argv-user", f"-l {eff_user!r} but driver.auth_username {obs['user']!r}", **base)
        if (keys[:1] or [""])[0] != obs["key"] or (not nx and len(keys) > 1):
            viol("argv-key", f"-i {keys} but driver.auth_private_key {obs['key']!r}", **base)
        if not nx:
            want_f = {"": "/dev/null", MAGIC_CFG: None}.get(obs["cfg"], obs["cfg"])
            if fcfg != want_f:
                viol("argv-cfg", f"-F {fcfg!r} but driver.ssh_config_file {obs['cfg']!r}", **base)
            oo = [a for ch, a in opts if ch == "o"]
            strict_o = [a for a in oo if a.startswith("StrictHostKeyChecking=")]
            kh_o = [a for a in oo if a.startswith("UserKnownHostsFile=")]
            if strict_o != ["StrictHostKeyChecking=" + ("yes" if obs["strict"] else "no")]:
                viol("argv-strict", f"{strict_o} but driver.auth_strict_key {obs['strict']}", **base)
            if not obs["strict"]:
                want_kh = ["UserKnownHostsFile=/dev/null"]
            elif obs["kh"] in ("", MAGIC_KH):
                want_kh = []
            else:
                want_kh = ["UserKnownHostsFile=" + obs["kh"]]
            if kh_o != want_kh:
                viol("argv-kh", f"{kh_o} but driver.ssh_known_hosts_file {obs['kh']!r} (strict={obs['strict']})", **base)
            if [a for a in oo if not a.startswith(("StrictHostKeyChecking=", "UserKnownHostsFile="))] != \
                    [f"ConnectTimeout={facts['ts']}", f"ServerAliveInterval={facts['tt']}"]:
                viol("argv-timeouts", f"-o options {oo}", **base)
        # ssh semantics: command line beats the configuration file it reads
        if fcfg is None:
            sv = facts["ssh_default"]
        elif fcfg == "/dev/null":
            sv = EMPTY_VIEW
        else:
            sv = facts["views"].get(fcfg, EMPTY_VIEW)
        # first obtained wins, and scrapli puts the destination first: a user / port inside the word beats -l / -p
        d_user, d_host, d_port = parse_dest(p["dest"])
        port_s = d_port if d_port is not None else eff_port
        e_port = int(port_s) if port_s is not None and port_s.isdigit() else (sv["port"] or 22)
        e_user = d_user if d_user is not None else (eff_user if eff_user is not None else sv["user"])
        e_key = keys[0] if keys else sv["ident"]
    else:
        e_port = obs["bta_port"]
        e_user = pl.get("auth_username", "")
        e_key = pl.get("auth_private_key", "")
    # -- O2 precedence: explicit argument > ssh config (where consulted) > default
    if facts["extra"]:
        return
    want_port = c["port"] if c["port"] is not None else (cfgp or (23 if "telnet" in t else 22))
    if e_port != want_port:
        viol("port-precedence", f"port in effect {e_port}, expected {want_port} (explicit {c['port']}, ssh config {cfgp})", **base)
    if "telnet" not in t:
        want_user = c["user"] or view["user"]
        if e_user != want_user:
            viol("user-precedence", f"user in effect {e_user!r}, expected {want_user!r}", **base)
        if c["key"]:
            k = facts["key"]
            want_key = k if os.path.isfile(k) else my_expanduser(facts["home"], k)
        else:
            want_key = view["ident"]
        if e_key != want_key:
            viol("key-precedence", f"key in effect {e_key!r}, expected {want_key!r}", **base)


# ---------------------------------------------------------------- generation
def gen_exhaustive(tier):
    """small scope, complete: transport x port x ssh_config_file x config contents x host shape"""
    out = []
    hosts = ["dev1", " dev1 ", "-oProxyCommand=x"] if tier == "quick" else ["dev1", " dev1 ", "-oProxyCommand=x", "-l", "dev 1", "DEV1.example.COM"]
    ports = [None, 830] if tier == "quick" else [None, 22, 830, 2222]
    cfgs = ["F", "T", "P"] if tier == "quick" else ["F", "T", "P", "M", "E"]
    xv = [0, 1, 4] if tier == "quick" else [0, 1, 4, 5, 6, 7]
    homes = ["empty", "cfg"] if tier == "quick" else ["empty", "cfg", "cfg+kh"]
    for t, h, p, cf, v, hm in itertools.product(CORE, hosts, ports, cfgs, xv, homes):
        out.append(mk(transport=t, host=h, port=p, cfg=cf, xvar=v, hvar=v, home=hm))
    if tier == "thorough":
        for t, u, k, kh, s, cf, v in itertools.product(CORE, ["", "admin", "-oFoo"], ["", "A", "H"], ["F", "T", "P", "M"],
                                                       [True, False], ["F", "T", "P"], [0, 3, 4, 6]):
            out.append(mk(transport=t, user=u, key=k, kh=kh, strict=s, cfg=cf, xvar=v, hvar=v, home="cfg+kh"))
    return out


H_PLAIN = ["dev1", "DEV1.example.COM", "10.0.0.1", "dév1", "dev1:22", "dev 1"]
H_DEST = ["admin@dev1", "ssh://carl@dev1:2222", "ssh://dev1:2222", "a@b@dev1", "ssh://carl@dev1", "SSH://x@dev1", " admin@dev1 ", "a@b"]
H_BLANKS = [" dev1 ", "dev1\n", "\tdev1", " dev1 ", "dev1 \x0b", "  ", " dev 1"]
H_DASH = ["-oProxyCommand=x", "-l", "-v", " -x", "-x ", "--", "-", "-p", "-F", "-vl"]


def _pick_host(rng):
    r = rng.random()
    if r < 0.08:
        return rng.choice(H_DEST)
    if r < 0.45:
        return rng.choice(H_PLAIN)
    if r < 0.72:
        return rng.choice(H_BLANKS)
    if r < 0.97:
        return rng.choice(H_DASH)
    return ""


def gen_random(rng):
    t = rng.choice(CORE + ("system", "system", "paramiko", "asyncssh"))
    return mk(transport=t,
              cls=rng.choice(["base"] * 6 + ["generic", "iosxe"]),
              host=_pick_host(rng),
              port=rng.choice([None, None, None, 22, 830, 2222, 0, 65535, 2200]),
              user=rng.choice(["", "", "admin", "-oFoo", "us er", "üser"]),
              password=rng.choice(["", "pw"]),
              key=rng.choice(["", "", "", "A", "A", "H"]) if rng.random() < 0.96 else "M",
              passphrase=rng.choice(["", "", "pp"]),
              strict=rng.random() < 0.6,
              cfg=rng.choice(["F", "T", "E", "P", "P", "P", "M", "H"]),
              kh=rng.choice(["F", "T", "P", "M"]),
              home=rng.choice(HOMES),
              xvar=rng.randrange(len(VARIANTS)), hvar=rng.randrange(len(VARIANTS)),
              tmo=rng.choice([0, 0, 1, 2, 3]),
              extra=rng.choice([0] * 8 + [1, 2, 3, 4, 5]) if t == "system" else 0)


# ---------------------------------------------------------------- histories: several drivers in one process
H_OWNERS = ["dev1", "DEV1.example.COM", "10.0.0.1", "dév1"]
H_OTHERS = ["core9", "edge-2"]                   # served by `Host *` only
HIST_SHARED = ("home", "hvar", "xvar", "owner", "extra")


def gen_history_pairs():
    """small scope, complete: every ordered pair of (transport x explicit/omitted port x user x key) against one config
    file that has Port, User and IdentityFile for the host"""
    tmpl = [dict(transport=t, port=p, user=u, key=k) for t, p, u, k in
            itertools.product(("paramiko", "asyncssh", "system"), (None, 830), ("", "admin"), ("", "A"))]
    for a, b in itertools.product(tmpl, tmpl):
        yield {"steps": [mk(cfg="P", xvar=4, owner="dev1", **a), mk(cfg="P", xvar=4, owner="dev1", **b)], "share_opts": False}


def gen_history(rng):
    owner = rng.choice(H_OWNERS)
    shared = dict(owner=owner, home=rng.choice(HOMES), hvar=rng.randrange(len(VARIANTS)), xvar=rng.randrange(len(VARIANTS)),
                  extra=rng.choice([0, 0, 0, 1, 3]))
    cfg_modes = rng.choice([["P"], ["P"], ["T"], ["F"], ["P", "T"], ["H", "T"], ["M"], ["P", "F"], ["E"]])
    steps = []
    for _ in range(rng.choice([2, 2, 3])):
        t = rng.choice(("paramiko", "paramiko", "asyncssh", "ssh2", "system", "system", "telnet"))
        steps.append(mk(transport=t, host=rng.choice([owner, owner, owner, " " + owner, rng.choice(H_OTHERS)]),
                        port=rng.choice([None, None, 830, 22, 2200]), user=rng.choice(["", "", "admin", "bob"]),
                        key=rng.choice(["", "", "A", "H"]) if shared["home"] != "empty" else rng.choice(["", "", "A"]),
                        password=rng.choice(["", "pw"]), strict=rng.random() < 0.6, cfg=rng.choice(cfg_modes),
                        kh=rng.choice(["F", "T", "P"]), **{**shared, "extra": shared["extra"] if t == "system" else 0}))
    return {"steps": steps, "share_opts": rng.random() < 0.7}


def evaluate_history(ck, w, h, collect):
    """run a history on the real code; the oracle: every driver satisfies C17 on its own AND is what the same
    construction gives in a fresh process state (independent of earlier constructions / order), no shared object is
    changed, nothing an earlier driver reports changes later.  -> (mats, observables at construction) or None"""
    steps = h["steps"]
    mats, at, end, problems = run_history(w, steps, h.get("share_opts", False))
    if len({m[1] for m in mats}) != 1:
        return None                                   # not one process environment (generator bug): skip
    hist = [{k: c[k] for k in list(FIELDS) + ["owner"] if k in c} for c in steps]

    def rec(i, kind, what, **extra):
        collect.append(({**steps[i], "kind": kind, "history": hist, "step": i, "share_opts": h.get("share_opts", False), **extra}, what))
    for i, (c, (kw, home, facts)) in enumerate(zip(steps, mats)):
        iso = run_real(kw, home, c["cls"])
        if canon_real(at[i]) != canon_real(iso):
            rec(i, "history-dependence",
                f"driver #{i + 1} of {len(steps)} constructed in one process differs from the same construction alone: "
                f"{_diff_obs(at[i], iso)}")
        if canon_real(end[i]) != canon_real(at[i]):
            rec(i, "changed-by-later-construction", f"driver #{i + 1} changed after later constructions: {_diff_obs(end[i], at[i])}")
        oracle(ck, c, facts, at[i], lambda kind, what, _i=i, **extra: rec(_i, kind, what, **extra))
    for kind, what in problems:
        rec(len(steps) - 1, kind, what)
    return mats, at


def _diff_obs(a, b):
    if "err" in a or "err" in b:
        return f"{a.get('err', 'constructed')} vs {b.get('err', 'constructed')}"
    return "; ".join(f"{k}: {a[k]!r} vs alone {b[k]!r}" for k in a if k in b and a[k] != b[k])


def history_line(fx, h, mats):
    return "hist " + "|".join("+".join(model_line(fx, c, m[2]).split(" ")[1:]) for c, m in zip(h["steps"], mats))


# ---------------------------------------------------------------- opening against recording fakes: what is handed to the library
class _Anything:
    """a permissive stand-in (library session / channel objects): every attribute is a callable returning another one"""
    def __init__(self, rec=None, name=""):
        self._rec, self._name = rec, name

    def __getattr__(self, n):
        if n.startswith("__"):
            raise AttributeError(n)
        return _Anything(self._rec, n)

    def __call__(self, *a, **kw):
        return _Anything(self._rec, self._name)

    def __bool__(self):
        return True


class _RigError(Exception):
    pass


def recording_fakes(rec):
    """context manager: every core transport's library boundary replaced by a recorder appending to `rec`
    (Socket, paramiko Transport/RSAKey, ssh2 Session, asyncssh.connect, asyncio.open_connection, PtyProcess.spawn)"""
    import contextlib, copy
    from unittest import mock
    import scrapli.transport.plugins.asyncssh.transport as m_asyncssh
    import scrapli.transport.plugins.asynctelnet.transport as m_atelnet
    import scrapli.transport.plugins.paramiko.transport as m_paramiko
    import scrapli.transport.plugins.ssh2.transport as m_ssh2
    import scrapli.transport.plugins.system.transport as m_system
    import scrapli.transport.plugins.telnet.transport as m_telnet

    class FakeSocket:
        def __init__(self, host, port, timeout):
            rec.append(("socket", host, port))
            self.host, self.port, self.timeout, self.sock = host, port, timeout, None

        def open(self):
            self.sock = _Anything()

        def isalive(self):
            return self.sock is not None

        def close(self):
            self.sock = None

        def __bool__(self):
            return self.isalive()

    class FakeParamiko(_Anything):
        def __init__(self, sock):
            super().__init__()
            self._auth = False

        def auth_publickey(self, username=None, key=None):
            rec.append(("user", username)); rec.append(("key", key))

        def auth_password(self, username=None, password=None):
            rec.append(("user", username)); rec.append(("password", password))
            self._auth = True

        def is_authenticated(self):
            return self._auth

    class FakeSsh2(_Anything):
        def __init__(self):
            super().__init__()
            self._auth = False

        def userauth_publickey_fromfile(self, username, key, passphrase=""):
            rec.append(("user", username)); rec.append(("key", key.decode() if isinstance(key, bytes) else key))

        def userauth_password(self, username=None, password=None):
            rec.append(("user", username)); rec.append(("password", password))
            self._auth = True

        def userauth_keyboardinteractive(self, username, password):
            rec.append(("user", username)); rec.append(("password", password))
            self._auth = True

        def userauth_authenticated(self):
            return self._auth

    async def fake_connect(**kw):
        rec.append(("connect", copy.deepcopy({k: v for k, v in kw.items()})))
        raise OSError("c17 rig: no network")

    async def fake_open_connection(host=None, port=None, **kw):
        rec.append(("socket", host, port))
        raise ConnectionRefusedError("c17 rig: connection refused")

    def fake_spawn(spawn_command, **kw):
        rec.append(("spawn", list(spawn_command), dict(kw)))
        return _Anything()

    st = contextlib.ExitStack()
    for m in (m_paramiko, m_ssh2, m_telnet):
        st.enter_context(mock.patch.object(m, "Socket", FakeSocket))
    st.enter_context(mock.patch.object(m_paramiko, "_ParamikoTransport", FakeParamiko))
    st.enter_context(mock.patch.object(m_paramiko, "RSAKey", lambda filename=None, **kw: filename))
    st.enter_context(mock.patch.object(m_ssh2, "Session", FakeSsh2))
    st.enter_context(mock.patch.object(m_asyncssh, "connect", fake_connect))
    st.enter_context(mock.patch.object(m_atelnet.asyncio, "open_connection", fake_open_connection))
    st.enter_context(mock.patch.object(m_system.PtyProcess, "spawn", staticmethod(fake_spawn)))
    return st


RIG_OPTION_POOL = {"asyncssh": {"kex_algs": ["curve25519-sha256"], "keepalive_interval": 7}, "open_cmd": ["-v"],
                   "ptyprocess": {"rows": 40, "cols": 120}, "enable_rsa2": True, "paramiko": {"x": 1}, "ssh2": {}}


def gen_open_histories(rng, n):
    """drivers for DIFFERENT devices sharing ONE transport_options dict (and its per-plugin sub-containers) by reference,
    opened one after the other; first the small complete scope (every transport twice, every ordered pair of transports,
    with all option containers present), then PRNG ones"""
    devs = [("dev1", None, "admin", ""), ("core9", 830, "bob", "A"), ("10.0.0.1", 2200, "carol", ""), ("edge-2", None, "", "A")]

    def step(t, dev, cfg):
        h, p, u, k = dev
        return mk(transport=t, host=h, port=p, user=u, key=k, password="pw", strict=False, cfg=cfg, xvar=6, owner="dev1")
    for t1, t2 in itertools.product(CORE, CORE):
        yield {"steps": [step(t1, devs[0], "F"), step(t2, devs[1], "F")], "options": list(RIG_OPTION_POOL)}
    for t in CORE:
        yield {"steps": [step(t, devs[1], "P"), step(t, devs[0], "P"), step(t, devs[3], "P")], "options": list(RIG_OPTION_POOL)}
        yield {"steps": [step(t, devs[2], "F"), step(t, devs[0], "F")], "options": []}
    for _ in range(n):
        ts = [rng.choice(CORE + ("asyncssh", "paramiko", "system"))] * 3 if rng.random() < 0.6 else [rng.choice(CORE) for _ in range(3)]
        k = rng.choice([2, 2, 3])
        ds = rng.sample(devs, k) if rng.random() < 0.8 else [rng.choice(devs) for _ in range(k)]
        cfg = rng.choice(["F", "F", "P"])
        yield {"steps": [step(t, d, cfg) for t, d in zip(ts, ds)],
               "options": [o for o in RIG_OPTION_POOL if rng.random() < 0.6]}


def evaluate_open_history(ck, w, h, collect):
    """construct the drivers with one shared transport_options object, open them one after the other against the
    recording fakes.  Oracle: what each transport hands to its library (socket address, user names, key files, asyncssh
    connect arguments, the spawned command line) is what THAT driver reports; the caller's containers are unchanged; the
    caller's options are passed on.  -> [(case, facts, driver obs, handed)]"""
    import asyncio, copy
    from scrapli.ssh_config import SSHConfig
    steps = [dict(c) for c in h["steps"]]
    shared = copy.deepcopy({k: RIG_OPTION_POOL[k] for k in h["options"]})
    snap = copy.deepcopy(shared)
    for c in steps:
        c["extra"] = 1 if "open_cmd" in shared else 0          # EXTRAS[1] == ["-v"] == the pool's open_cmd
    mats = [materialise(w, c) for c in steps]
    if len({m[1] for m in mats}) != 1:
        return []
    os.environ["HOME"] = mats[0][1]
    SSHConfig._config_files.clear()
    hist = [{k: c[k] for k in list(FIELDS) + ["owner"] if k in c} for c in steps]

    def rec_v(i, kind, what, **extra):
        collect.append(({**steps[i], "kind": kind, "open_history": hist, "options": h["options"], "step": i, **extra}, what))
    drivers = []
    for (kw, _, _), c in zip(mats, steps):
        kw = dict(kw)
        kw["transport_options"] = shared                        # the SAME object for every driver
        drivers.append(construct_real(kw, c["cls"]))
    out = []
    mutated = None
    for i, (d, c, (kw, home, facts)) in enumerate(zip(drivers, steps, mats)):
        if isinstance(d, dict):
            rec_v(i, "constructor-error", f"constructor raised {d['err']}")
            continue
        rec = []
        with recording_fakes(rec):
            try:
                if c["transport"] in ASYNC:
                    asyncio.run(d.transport.open())
                else:
                    d.transport.open()
            except Exception:  # noqa: the fakes refuse the connection on purpose
                pass
        obs = observe(d, c["transport"]) if c["transport"] != "system" else {**observe_no_build(d)}
        handed = {"addr": [(e[1], e[2]) for e in rec if e[0] == "socket"], "users": sorted({e[1] for e in rec if e[0] == "user"}),
                  "keys": sorted({e[1] for e in rec if e[0] == "key"}), "connect": [e[1] for e in rec if e[0] == "connect"],
                  "spawn": [(e[1], e[2]) for e in rec if e[0] == "spawn"]}
        out.append((c, facts, obs, handed))
        t = c["transport"]
        who = f"driver #{i + 1} of {len(steps)} ({t}, reports {d.host}:{d.port} user {d.auth_username!r})"
        if shared != snap and mutated is None:
            mutated = (i, f"open() of {who} changed the caller's transport_options: {snap} -> {shared}")
        if t == "asyncssh":
            if len(handed["connect"]) != 1:
                rec_v(i, "rig", f"{who}: asyncssh.connect called {len(handed['connect'])} times")
                continue
            k = handed["connect"][0]
            got = (k.get("host"), k.get("port"), k.get("username"), k.get("client_keys"), k.get("config"), k.get("password"))
            want = (d.host, d.port, d.auth_username, d.auth_private_key, d.ssh_config_file, d.auth_password)
            if got != want:
                rec_v(i, "handed-ne-reported", f"{who}: asyncssh.connect got host/port/username/client_keys/config/password {got}, "
                                               f"the driver reports {want}", dialed_host=str(k.get("host")))
            for ok, ov in snap.get("asyncssh", {}).items():
                if k.get(ok) != ov:
                    rec_v(i, "options-not-passed", f"{who}: transport_options['asyncssh'][{ok!r}]={ov!r} reached connect as {k.get(ok)!r}")
        elif t == "system":
            if len(handed["spawn"]) != 1:
                rec_v(i, "rig", f"{who}: PtyProcess.spawn called {len(handed['spawn'])} times")
                continue
            argv, pk = handed["spawn"][0]
            try:
                p = parse_ssh_argv(argv)
                got = (p["dest"], first(p["opts"], "p"), first(p["opts"], "l") or "", first(p["opts"], "i") or "")
            except ArgvError as e:
                got = ("<" + str(e) + ">",)
            want = (d.host, str(d.port), d.auth_username, d.auth_private_key)
            if got != want:
                rec_v(i, "handed-ne-reported", f"{who}: ssh was spawned as {argv} = destination/-p/-l/-i {got}, the driver reports {want}",
                      dialed_host=argv[1] if len(argv) > 1 else "")
            if argv[len(argv) - len(snap.get("open_cmd", [])):] != snap.get("open_cmd", []) and snap.get("open_cmd"):
                rec_v(i, "options-not-passed", f"{who}: open_cmd {snap['open_cmd']} is not at the end of {argv}")
            for ok, ov in snap.get("ptyprocess", {}).items():
                if pk.get(ok) != ov:
                    rec_v(i, "options-not-passed", f"{who}: transport_options['ptyprocess'][{ok!r}]={ov!r} reached spawn as {pk.get(ok)!r}")
        else:
            if handed["addr"] != [(d.host, d.port)]:
                rec_v(i, "handed-ne-reported", f"{who}: the connection was opened to {handed['addr']}",
                      dialed_host=str(handed["addr"][0][0]) if handed["addr"] else "")
            if "telnet" not in t:
                if handed["users"] not in ([d.auth_username], []):
                    rec_v(i, "handed-ne-reported", f"{who}: authenticated as {handed['users']}")
                if handed["keys"] != ([d.auth_private_key] if d.auth_private_key else []):
                    rec_v(i, "handed-ne-reported", f"{who}: key files used {handed['keys']}, the driver reports {d.auth_private_key!r}")
    if mutated is not None:                       # reported after what the later drivers did with the changed container
        rec_v(mutated[0], "transport-options-mutated", mutated[1])
    for d in drivers:
        try:
            if not isinstance(d, dict):
                d.transport.close()
        except Exception:  # noqa
            pass
    return out


def observe_no_build(d):
    """observables of a system-transport driver whose open_cmd open() has already built (do not rebuild it)"""
    import dataclasses
    t = d.transport
    b = t._base_transport_args
    return {"host": d.host, "port": d.port, "user": d.auth_username, "password": d.auth_password, "key": d.auth_private_key,
            "passphrase": d.auth_private_key_passphrase, "strict": d.auth_strict_key, "cfg": d.ssh_config_file,
            "kh": d.ssh_known_hosts_file, "bta_host": b.host, "bta_port": b.port, "same_bta": b is d._base_transport_args,
            "plugin": [(f.name, getattr(t.plugin_transport_args, f.name)) for f in dataclasses.fields(t.plugin_transport_args)],
            "argv": list(t.open_cmd)}


def handed_as_eff(c, obs, handed):
    """the recorded library calls in the model's `EF=` syntax (host:port:user:key), or None where the model's notion
    of `effective` is not a plain record of calls (system transport: compared through the spawned argv instead)"""
    t = c["transport"]
    if t == "system":
        return None
    if t == "asyncssh":
        if len(handed["connect"]) != 1:
            return None
        k = handed["connect"][0]
        return f"ok:{hx(str(k.get('host')))}:{hx(str(k.get('port')))}:{hx(k.get('username') or '')}:{hx(k.get('client_keys') or '')}"
    if len(handed["addr"]) != 1:
        return None
    user = handed["users"][0] if len(handed["users"]) == 1 else ""
    key = handed["keys"][0] if len(handed["keys"]) == 1 else ""
    if "telnet" in t:
        user = key = ""
    return f"ok:{hx(str(handed['addr'][0][0]))}:{hx(str(handed['addr'][0][1]))}:{hx(user)}:{hx(key)}"


def gen_argv(rng):
    """random ssh command lines for the grammar cross-check (model vs oracle parser vs real ssh)"""
    words = ["ssh"]
    pool_flags = ["-v", "-q", "-4", "-6", "-A", "-a", "-C", "-T", "-t", "-x", "-N", "-n", "-k", "-vv", "-Tq"]
    pool_args = [("-p", "2022"), ("-l", "bob"), ("-i", "/tmp/idx"), ("-F", "/dev/null"), ("-o", "ConnectTimeout=5"),
                 ("-o", "StrictHostKeyChecking=no"), ("-e", "none"), ("-l", "bob2"), ("-i", "-v"), ("-p", "22"), ("-S", "none")]
    dests = ["dev1", "DEV1", "10.0.0.1", "-oProxyCommand=x", "-l", "-v", "--", "-", "-p", "-vp", "-Z", "--x", "dev1.example.com",
             "admin@dev1", "ssh://carl@dev1:2222", "ssh://dev1:2022", "a@b@dev1"]

    def some_opts(n):
        for _ in range(n):
            r = rng.random()
            if r < 0.4:
                words.append(rng.choice(pool_flags))
            elif r < 0.8:
                o, a = rng.choice(pool_args)
                if rng.random() < 0.3:
                    words.append(o + a)
                elif rng.random() < 0.2:
                    words.append("-v" + o[1:]); words.append(a)
                else:
                    words.extend([o, a])
            elif r < 0.86:
                words.append(rng.choice(["-p", "-o", "-F"]))       # possibly swallowing the next word / missing argument
            elif r < 0.92:
                words.append(rng.choice(["-Z", "--x", "--", "-"]))
            else:
                words.extend(rng.choice([["-p", "22"], ["-l", "admin"], ["-vvv"], ["-o", "BatchMode=yes"]]))
    some_opts(rng.choice([0, 0, 1, 2, 3]))
    if rng.random() < 0.92:
        words.append(rng.choice(dests))
        some_opts(rng.choice([0, 1, 2, 4]))
        if rng.random() < 0.3:
            words.extend(rng.choice([["ls"], ["ls", "-l"], ["--", "-v"], ["uptime", "-p"]]))
    return words


# ---------------------------------------------------------------- real OpenSSH as a third opinion
def ssh_G(argv, timeout=20):
    """run the real `ssh -G <argv[1:]>` (prints the configuration in effect, connects nowhere)
    -> ("ok", dict) | ("usage", stderr) | ("other", stderr)"""
    try:
        p = subprocess.run(["ssh", "-G", *argv[1:]], capture_output=True, text=True, timeout=timeout, stdin=subprocess.DEVNULL)
    except (OSError, subprocess.TimeoutExpired) as e:
        return "rig", repr(e)
    if p.returncode == 0:
        d = {}
        for line in p.stdout.splitlines():
            k, _, v = line.partition(" ")
            d.setdefault(k, []).append(v)
        return "ok", d
    err = p.stderr.lower()
    if "usage:" in err or "illegal option" in err or "unknown option" in err or "requires an argument" in err or "invalid option" in err:
        return "usage", p.stderr[-200:]
    return "other", p.stderr[-200:]


# ---------------------------------------------------------------- fix-variant detection / stored witnesses
WITNESSES = [
    ("F15a", mk(transport="paramiko", cfg="P", xvar=1), "cfgPortDialed"),
    ("F15b", mk(transport="asyncssh", cfg="P", xvar=1, port=830), "explicitPortWins"),
    ("F15c", mk(transport="telnet", host=" dev1 "), "stripDialedHost"),
    ("F16a", mk(transport="system", host="-oProxyCommand=x"), "rejectDashHost"),
    ("F16b", mk(transport="system", cfg="P", xvar=1), None),
    ("F16c", mk(transport="system", host="admin@dev1", user="bob"), "rejectDestSyntax"),
]
FLAG_ORDER = ("stripDialedHost", "cfgPortDialed", "explicitPortWins", "rejectDashHost", "rejectDestSyntax")


def evaluate(ck, w, c, collect):
    kw, home, facts = materialise(w, c)
    obs = run_real(kw, home, c["cls"])

    def viol(kind, what, **extra):
        collect.append(({**c, "kind": kind, **extra}, what))
    oracle(ck, c, facts, obs, viol)
    return kw, home, facts, obs


def run(tier, seed):
    ck = Check(PID, tier, seed, level="proof")
    if FINDINGS_FILE.exists():
        # known_findings.json merged with this property's own file; a defect that either source records as
        # fixed is fixed (an entry never goes back to open), so a stale `open` cannot hide a regression
        mine = {f["id"]: f for f in json.load(open(FINDINGS_FILE))}
        for i, f in enumerate(ck.findings):
            m = mine.pop(f["id"], None)
            if m is not None and m.get("status") == "fixed" and f.get("status") != "fixed":
                ck.findings[i] = m
        ck.findings += list(mine.values())
    ssh2_kind = _install_ssh2_stub()
    ck.rule = ("case = (transport in the 6 core transports, driver class base/generic/iosxe, host string incl. surrounding "
               "blanks / leading '-' / embedded blank / upper case / non-ASCII / empty, port omitted|22|830|2222|0|65535|2200, "
               "username, password, key none|existing|~-relative|missing, passphrase, strict flag, ssh_config_file "
               "False|True|''|existing path|missing path|'~/.ssh/config', ssh_known_hosts_file False|True|path|missing, HOME with/without "
               ".ssh/config and .ssh/known_hosts, 10 ssh config contents for the host (none/Port/User/IdentityFile/all/Host * "
               "entries/Port 22/Port 0), timeouts, extra open_cmd words). Exhaustive small product (transport x host shape x port x "
               "ssh_config_file x contents x HOME) + PRNG cases. Each case constructs the REAL driver in a temp HOME and runs the "
               "Lean model on the same arguments and file-system view; non-trivial = ssh transport with an ssh config entry, a key, "
               "a non-plain host or an explicit port. Oracle = independent Python statement: reported == dialed on the argument "
               "objects, precedence table, documented file resolution, and an independent OpenSSH argv parser; real `ssh -G` as a "
               "third opinion on the grammar. HISTORIES: 2-3 drivers constructed one after the other in ONE process state (shared cache of parsed "
               "ssh configs, same transport_options dict object), all 576 ordered pairs of (paramiko|asyncssh|system x explicit/omitted port "
               "x user x key) on one config + PRNG histories (mixed transports, same host / other host of the same `Host *` block, "
               "ssh_config_file path|True|False|missing): each driver must equal the same construction alone, nothing reported by an "
               "earlier driver may change, the cached parse must still equal the file, the caller's dict must be unchanged; the model's "
               "runHistory is compared with the real sequence. OPEN HISTORIES: drivers for different devices sharing ONE transport_options dict "
               "(asyncssh / paramiko / ssh2 sub-dicts, open_cmd list, ptyprocess dict, enable_rsa2) by reference, every ordered pair of core "
               "transports + each transport 3x + PRNG, open()ed one after the other against recording fakes at the library boundary "
               "(Socket, paramiko Transport/RSAKey, ssh2 Session, asyncssh.connect, asyncio.open_connection, PtyProcess.spawn): socket "
               "address / user names / key files / connect arguments / spawned argv must be what THAT driver reports and what the model "
               "says is in effect, the caller's containers must be unchanged, the caller's options must be passed on.")
    ck.trusted = ["Lean 4.33.0 kernel; axioms of every theorem audited ⊆ {propext, Classical.choice, Quot.sound}",
                  "tools/gen/c17.py (constructor defaults, default ports, transports consulting the ssh config, magic strings, "
                  "fall-back paths, PluginTransportArgs field names, argv literals read off the real _build_open_cmd)",
                  "correspondence harness props/c17.py (temp HOME, generated ssh config files, SSHConfig parse cache cleared per case)",
                  "the model of OpenSSH's option grammar (ssh.c main + BSD getopt) — cross-checked against the installed ssh via `ssh -G`"]
    ck.assumptions = ["which ssh config entry applies to a host (SSHConfig.lookup, text parser) is property C16; the generated configs "
                      "use an entry spelled exactly like the stripped host plus `Host *`, host entry first",
                      "paths are absolute/normalised or of the form ~/x; `~user`, relative paths that exist, `..`/`//` are not generated",
                      "ssh's treatment of the destination word itself (user@host, ssh:// URIs), of blanks inside -o values and of "
                      "-o Port=/User= is outside the grammar model (scrapli emits none of the latter)",
                      f"ssh2-python is not installed: scrapli's ssh2 transport class is loaded against a {ssh2_kind} `ssh2` module "
                      "(construction never calls the library)",
                      "sockets / the ssh child are never opened except the optional fake-ssh run (thorough); what paramiko/asyncssh do "
                      "with host/port is their call boundary (Socket(host, port), asyncssh.connect(host=, port=))"]
    # 1 translate
    try:
        translate.translate(PID)
    except Exception as e:
        ck.proof_broken("translator gen/c17.py", repr(e))
    # 2 prove
    ck.prove("ScrapliProps.C17", lemma_files=["ScrapliProps/C17Lemmas.lean", "ScrapliModel/Resolve.lean"])
    if tier == "thorough":
        ck.leanchecker("ScrapliProps.C17")
    w = World()
    old_home = os.environ.get("HOME")
    try:
        return _run(ck, w, tier)
    finally:
        if old_home is not None:
            os.environ["HOME"] = old_home
        w.cleanup()


def _run(ck, w, tier):
    # 3 stored witnesses: which defects does this tree still have (-> KNOWN-FINDING lines, model variant)
    flags = {}
    wit_hits = {}
    wit_other = []
    for fid, c, flag in WITNESSES:
        got = []
        evaluate(ck, w, c, got)
        hit = [x for x in got if match_predicate(x[0]) == fid]
        other = [x for x in got if match_predicate(x[0]) != fid]
        wit_hits[fid] = bool(hit)
        if flag:
            flags[flag] = not hit
        f = next((f for f in ck.findings if f["id"] == fid), None)
        if hit and f is not None and f.get("status") == "open":
            ck.known_finding(fid, f["what"])
        elif hit:
            ck.violation(hit[0][0], hit[0][1])          # defect present but not (or no longer) listed as open
        wit_other += other
    fx = "".join("1" if flags[n] else "0" for n in FLAG_ORDER)
    active = {fid for fid, hit in wit_hits.items() if hit}
    global _ACTIVE
    _ACTIVE = active      # generated violations are attributed to a finding only while its stored witness still fails
    for x in wit_other:
        ck.violation(x[0], x[1], matcher)
    try:                                  # the translator's probed decision table must tell the same story as the witnesses
        import gen.c17 as _g
        for tname, fname in (("updCfgPortDialed", "cfgPortDialed"), ("updExplicitPortWins", "explicitPortWins")):
            if tname in _g.LAST and _g.LAST[tname] != flags[fname]:
                ck.proof_broken("probed update table vs stored witnesses", f"{tname}={_g.LAST[tname]} but witness replay says {fname}={flags[fname]}")
    except ImportError:
        pass
    ck.extra["code_variant"] = {n: flags[n] for n in FLAG_ORDER}
    ck.extra["code_variant_note"] = ("flags = which proposed fixes/C17-*.patch the tree under test already has (found by replaying "
                                     "the stored witnesses); the Lean model is run with the same flags, theorems cover every "
                                     "combination (…_partial) and both named variants")
    # 4 cases
    cases = []
    for c in json.load(open(VERIF / "corpus" / "C17" / "corpus.json")):
        cases.append(mk(**{k: v for k, v in c.items() if k in FIELDS}))
    cases += gen_exhaustive(tier)
    for _ in range(4000 if tier == "quick" else 85000):
        cases.append(gen_random(ck.rng))
    seen, uniq = set(), []
    for c in cases:
        k = tuple(c[f] if not isinstance(c[f], list) else tuple(c[f]) for f in FIELDS)
        if k not in seen:
            seen.add(k)
            uniq.append(c)
    cases = uniq
    # 5 real code + oracle
    lines, reals, advisory = [], [], 0
    for c in cases:
        got = []
        kw, home, facts, obs = evaluate(ck, w, c, got)
        depends_on_etc = (not w.etc_simple) and (ETC_CFG in (obs.get("cfg"),) or (c["transport"] == "system" and c["cfg"] in "TE"))
        hs = c["host"].strip()
        view, _ = consulted_view(c, facts)
        nontriv = ("telnet" not in c["transport"] and any(view.values())) or c["key"] != "" or c["host"] != "dev1" or c["port"] is not None
        ck.case(tuple(sorted((k, str(v)) for k, v in c.items())), nontrivial=nontriv,
                sample={k: c[k] for k in ("transport", "host", "port", "user", "key", "cfg", "kh", "home", "xvar", "strict")},
                tags=(f"transport={c['transport']}", f"port={'omitted' if c['port'] is None else 'explicit'}",
                      f"cfg={c['cfg']}", f"kh={c['kh']}", f"key={c['key'] or 'none'}",
                      "host=" + ("empty" if not c["host"] else "dash" if hs.startswith("-") else "blanks" if hs != c["host"] else "plain"),
                      "cfgentry=" + ("+".join(k for k in ("port", "user", "ident") if view[k]) or "none"),
                      "result=" + (obs["err"].split(":")[0] if "err" in obs else "constructed"),
                      f"cls={c['cls']}", "extra" if facts["extra"] else "noextra"))
        if depends_on_etc:
            advisory += 1
        else:
            for vc, what in got:
                ck.violation(vc, what, matcher)
        lines.append(model_line("".join("1" if flags[n] else "0" for n in FLAG_ORDER), c, facts))
        reals.append((c, facts, obs))
    ck.extra["advisory_cases_depending_on_uncontrolled_etc_ssh_config"] = advisory
    # 5b histories: several drivers in one process sharing the cache of parsed ssh configs (and option dicts)
    hists = [{"steps": [mk(**st) for st in hc["steps"]], "share_opts": hc.get("share_opts", False)}
             for hc in json.load(open(VERIF / "corpus" / "C17" / "histories.json"))]
    hists += list(gen_history_pairs())
    hists += [gen_history(ck.rng) for _ in range(700 if tier == "quick" else 9000)]
    hist_runs = []
    for h in hists:
        got = []
        r = evaluate_history(ck, w, h, got)
        if r is None:
            continue
        mats, at = r
        st = h["steps"]
        ck.case(("history", tuple(tuple(sorted((k, str(v)) for k, v in c.items())) for c in st)),
                nontrivial=any(c["port"] is not None or c["user"] or c["key"] for c in st[:-1]),
                sample={"history": [{k: c[k] for k in ("transport", "host", "port", "user", "key", "cfg")} for c in st]},
                tags=(f"history-len={len(st)}", "history-same-host" if len({c["host"].strip() for c in st}) == 1 else "history-mixed-hosts",
                      "history-explicit-then-omitted" if any((a["port"] is not None and b["port"] is None) or (a["user"] and not b["user"])
                                                            or (a["key"] and not b["key"]) for a, b in zip(st, st[1:])) else "history-other"))
        for vc, what in got:
            ck.violation(vc, what, matcher)
        hist_runs.append((h, mats, at))
    fxs = "".join("1" if flags[n] else "0" for n in FLAG_ORDER)
    n_single = len(lines)
    lines += [history_line(fxs, h, mats) for h, mats, _ in hist_runs]
    ck.extra["histories"] = len(hist_runs)
    # 5c open histories: drivers for different devices sharing one transport_options object, opened against recording fakes
    open_runs = []
    n_open_hist = 0
    for h in gen_open_histories(ck.rng, 150 if tier == "quick" else 2500):
        got = []
        res = evaluate_open_history(ck, w, h, got)
        if not res:
            continue
        n_open_hist += 1
        st = h["steps"]
        ck.case(("open-history", tuple(h["options"]), tuple(tuple(sorted((k, str(v)) for k, v in c.items())) for c in st)),
                nontrivial=len(st) > 1 and bool(h["options"]),
                sample={"open_history": [{k: c[k] for k in ("transport", "host", "port", "user", "key")} for c in st], "shared_options": h["options"]},
                tags=(f"open-history-len={len(st)}", "open-history-one-transport" if len({c["transport"] for c in st}) == 1 else "open-history-mixed",
                      "shared-options" if h["options"] else "no-options") + tuple(f"opened={c['transport']}" for c in st))
        for vc, what in got:
            ck.violation(vc, what, matcher)
        open_runs += res
    n_before_open = len(lines)
    lines += [model_line(fxs, c, facts) for c, facts, _, _ in open_runs]
    ck.extra["open_histories"] = {"histories": n_open_hist, "transports_opened": len(open_runs)}
    # grammar cross-check inputs
    argvs = [gen_argv(ck.rng) for _ in range(600 if tier == "quick" else 6000)]
    argvs += [o["argv"] for _, _, o in reals[:400] if o.get("argv")]
    lines += ["parse " + hxl(a) for a in argvs]
    # 6 model
    try:
        mout = run_model("C17", lines)
    except Exception as e:
        ck.proof_broken("model driver Drv/C17.lean", repr(e))
        mout = None
    # 7 correspondence
    if mout is not None:
        for (c, facts, obs), ml in zip(reals, mout):
            real = canon_real(obs)
            mhead = ml.split(" PR=")[0]
            if real != mhead:
                ck.disagree("Resolve model vs driver constructor", c, f"impl={real} model={mhead}")
                continue
            ok = True
            if obs.get("argv") is not None and " PR=" in ml:
                mpr = ml.split(" PR=")[1].split(" EF=")[0]
                if mpr != enc_parse(obs["argv"]):
                    ok = False
                    ck.disagree("parseSshArgv model vs oracle parser", c, f"argv={obs['argv']} model={mpr} oracle={enc_parse(obs['argv'])}")
            if ok:
                ck.traces_validated += 1
        for (h, mats, at), ml in zip(hist_runs, mout[n_single:n_single + len(hist_runs)]):
            real = " || ".join(canon_real(o) for o in at)
            if real != ml:
                ck.disagree("runHistory model vs drivers constructed in one process", {"history": h["steps"]}, f"impl={real} model={ml}")
            else:
                ck.traces_validated += 1
        for (c, facts, obs, handed), ml in zip(open_runs, mout[n_before_open:n_before_open + len(open_runs)]):
            real = canon_real(obs)
            if real != ml.split(" PR=")[0]:
                ck.disagree("Resolve model vs driver opened in a history", c, f"impl={real} model={ml.split(' PR=')[0]}")
                continue
            eff = handed_as_eff(c, obs, handed)
            if c["transport"] == "system":
                sp = handed["spawn"]
                if len(sp) == 1 and hxl(sp[0][0]) != ml.split(" AV=")[1].split(" PR=")[0]:
                    ck.disagree("buildOpenCmd model vs the command line open() spawned", c, f"spawned={sp[0][0]} model={ml.split(' AV=')[1].split(' PR=')[0]}")
                    continue
            elif eff is not None and " EF=" in ml and eff != ml.split(" EF=")[1]:
                ck.disagree("effective (model) vs what open() handed to the library", c, f"recorded={eff} model={ml.split(' EF=')[1]}")
                continue
            ck.traces_validated += 1
        base = n_before_open + len(open_runs)
        for a, ml in zip(argvs, mout[base:]):
            if ml != enc_parse(a):
                ck.disagree("parseSshArgv model vs oracle parser", {"argv": a}, f"model={ml} oracle={enc_parse(a)}")
            else:
                ck.traces_validated += 1
    # 8 the real ssh
    _ssh_cross_check(ck, w, tier, argvs, reals)
    if tier == "thorough":
        _fake_ssh_end_to_end(ck, w, reals)
        _loopback_dial(ck, w)
    ck.exhaustive = True
    ck.extra["exhaustive_scope"] = ("all 6 core transports x host {plain, surrounding blanks, leading '-'[, '-l', embedded blank, upper case]} x "
                                    "port {omitted, 830[, 22, 2222]} x ssh_config_file {False, True, path[, missing, '']} x config contents "
                                    "{none, Port, all[, Host * variants, Port 22]} x HOME {no .ssh, with .ssh/config[, +known_hosts]}")
    # 9 if model and code disagree, widen the search with the oracle around the disagreeing inputs
    if ck.disagreements and not ck.violations:
        t0 = time.time()
        for kind, name, d in list(ck.broken):
            if kind != "correspondence" or "transport" not in d.get("case", {}):
                continue
            c0 = d["case"]
            for _ in range(3000):
                if time.time() - t0 > 60:
                    break
                c = dict(c0)
                for f in ck.rng.sample(["host", "port", "cfg", "xvar", "hvar", "home", "user", "key", "kh", "strict"], 3):
                    c[f] = gen_random(ck.rng)[f]
                got = []
                evaluate(ck, w, c, got)
                for vc, what in got:
                    ck.violation(vc, what, matcher)
    if tier != "thorough" and not ck.violations and any(k == "proof" and "translator" in n for k, n, _ in ck.broken):
        _loopback_dial(ck, w)        # the translator also guards the dial sites: look for a failing input by really dialing
    # headline = a violation of what is in effect, rather than the container mutation that causes it
    ck.violations.sort(key=lambda x: x["case"].get("kind") in ("transport-options-mutated", "shared-cache-mutated", "options-not-passed"))
    if ck.violations and "transport" in ck.violations[0]["case"] and not ck.violations[0]["case"].get("loopback"):
        ck.violations[0] = _shrink(ck, w, ck.violations[0])
    return ck.finish()


def _shrink(ck, w, v):
    """minimise the first violation: reset argument after argument to its default while the same kind of
    violation (not attributable to a known finding) is still observed"""
    if "history" in v["case"]:
        return _shrink_history(ck, w, v)
    if "open_history" in v["case"]:
        return _shrink_open_history(ck, w, v)
    c = {k: v["case"][k] for k in FIELDS}
    kind, best = v["case"]["kind"], v

    def still(cc):
        got = []
        try:
            evaluate(ck, w, cc, got)
        except Exception:
            return None
        for vc, what in got:
            if vc["kind"] == kind and not (matcher(vc) and any(f["id"] == matcher(vc) and f.get("status") == "open" for f in ck.findings)):
                return {"what": what, "case": vc}
        return None
    for f in FIELDS:
        if f == "transport" or c[f] == DEFAULT[f]:
            continue
        cc = dict(c)
        cc[f] = DEFAULT[f]
        r = still(cc)
        if r is not None:
            c, best = cc, r
    return best


def _shrink_history(ck, w, v):
    """drop steps, then reset arguments to their defaults, while a violation of the same kind is still observed"""
    kind = v["case"]["kind"]
    h = {"steps": [mk(**st) for st in v["case"]["history"]], "share_opts": v["case"].get("share_opts", False)}
    best = v

    def still(hh):
        got = []
        try:
            if evaluate_history(ck, w, hh, got) is None:
                return None
        except Exception:
            return None
        for vc, what in got:
            if vc["kind"] == kind and matcher(vc) is None:
                return {"what": what, "case": vc}
        return None
    j = 0
    while len(h["steps"]) > 1 and j < len(h["steps"]):
        hh = {**h, "steps": h["steps"][:j] + h["steps"][j + 1:]}
        r = still(hh)
        if r is not None:
            h, best = hh, r
        else:
            j += 1
    for i in range(len(h["steps"])):
        for f in FIELDS:
            if f in ("transport",) + HIST_SHARED or h["steps"][i][f] == DEFAULT[f]:
                continue
            hh = {**h, "steps": [dict(st) for st in h["steps"]]}
            hh["steps"][i][f] = DEFAULT[f]
            r = still(hh)
            if r is not None:
                h, best = hh, r
    return best


def _shrink_open_history(ck, w, v):
    """drop drivers and shared option containers while a violation of the same kind is still observed"""
    kind = v["case"]["kind"]
    h = {"steps": [mk(**st) for st in v["case"]["open_history"]], "options": list(v["case"]["options"])}
    best = v

    def still(hh):
        got = []
        try:
            evaluate_open_history(ck, w, hh, got)
        except Exception:
            return None
        for vc, what in got:
            if vc["kind"] == kind and matcher(vc) is None:
                return {"what": what, "case": vc}
        return None
    j = 0
    while len(h["steps"]) > 1 and j < len(h["steps"]):
        hh = {**h, "steps": h["steps"][:j] + h["steps"][j + 1:]}
        r = still(hh)
        if r is not None:
            h, best = hh, r
        else:
            j += 1
    for o in list(h["options"]):
        hh = {**h, "options": [x for x in h["options"] if x != o]}
        r = still(hh)
        if r is not None:
            h, best = hh, r
    return best


def _norm_hostname(h):
    """how `ssh -G` prints a host name: lower case, numeric forms (`2022`, `10.1`) as dotted quad"""
    import socket
    h = h.lower()
    if h and all(ch.isdigit() or ch == "." for ch in h):
        try:
            return socket.inet_ntoa(socket.inet_aton(h))
        except OSError:
            pass
    return h


def _ssh_hostname(dest):
    """the host name ssh takes out of a destination word, as `ssh -G` prints it"""
    return _norm_hostname(parse_dest(dest)[1])


def _ssh_cross_check(ck, w, tier, argvs, reals):
    if shutil.which("ssh") is None:
        ck.extra["ssh_G"] = "no ssh binary: skipped"
        return
    os.environ["HOME"] = w.home("empty", "x", 0)
    n = ok = usage = other = rig = 0
    budget = 250 if tier == "quick" else 2500
    for a in argvs[:budget]:
        try:
            p = parse_ssh_argv(a)
            mine = "ok"
        except ArgvError:
            p, mine = None, "usage"
        kind, d = ssh_G(a)
        n += 1
        if kind == "rig":
            rig += 1
            continue
        if kind == "other":
            other += 1          # ssh parsed (part of) the line but rejected a value (bad hostname, port …)
            import re
            mm = re.search(r"Bad port '(.*)'", d)
            if mm and mine == "ok" and first(p["opts"], "p") != mm.group(1):
                ck.disagree("OpenSSH grammar model vs real `ssh -G`", {"argv": a}, f"ssh read port {mm.group(1)!r}, parser {first(p['opts'], 'p')!r}")
            continue
        if kind != mine:
            ck.disagree("OpenSSH grammar model vs real `ssh -G`", {"argv": a}, f"parser={mine} ssh={kind}: {d if kind != 'ok' else ''}")
            continue
        if kind == "usage":
            usage += 1
            continue
        ok += 1
        bad = []
        if d.get("hostname", [""])[0] != _ssh_hostname(p["dest"]):
            bad.append(f"hostname {d.get('hostname')} vs dest {p['dest']!r}")
        du, _, dp = parse_dest(p["dest"])
        o1 = _getopt_pass(a, 1)[0]                                    # options BEFORE the destination (first obtained wins)
        pp = first(o1, "p") or dp or first(p["opts"], "p")
        if d.get("port", [""])[0] != (pp if pp is not None else "22"):
            bad.append(f"port {d.get('port')} vs destination/-p {pp!r}")
        lu = first(o1, "l") or du or first(p["opts"], "l")
        if lu is not None and d.get("user", [""])[0] != lu:
            bad.append(f"user {d.get('user')} vs destination/-l {lu!r}")
        if bad:
            ck.disagree("OpenSSH grammar model vs real `ssh -G`", {"argv": a}, "; ".join(bad))
        else:
            ck.traces_validated += 1
    # scrapli's own command lines with an explicit -F: what does the real ssh say is in effect
    e2e = viol = 0
    special = [x for x in reals if not dest_plain(x[0]["host"])][:20 if tier == "quick" else 200]
    for c, facts, obs in special + reals:
        if e2e >= (60 if tier == "quick" else 600):
            break
        if not obs.get("argv") or facts["extra"] or c["host"] != c["host"].strip() or \
                not c["host"].replace(".", "").replace("@", "").replace("ssh://", "").replace(":", "").isalnum():
            continue
        fcfg = last(parse_ssh_argv(obs["argv"])["opts"], "F")
        if fcfg is None or any(ch.isspace() for x in obs["argv"] for ch in x):
            continue
        if fcfg != "/dev/null" and VARIANTS[c["xvar"] if fcfg == facts["xfile"] else c["hvar"]][0] == "port0":
            continue                                         # ssh itself rejects `Port 0`
        os.environ["HOME"] = facts["home"]
        kind, d = ssh_G(obs["argv"])
        if kind != "ok":
            rig += kind == "rig"
            continue
        e2e += 1
        view = EMPTY_VIEW if fcfg == "/dev/null" else facts["views"].get(fcfg, EMPTY_VIEW)
        want_port = c["port"] if c["port"] is not None else (view["port"] or 22)
        got_port = int(d["port"][0])
        case = {**c, "cfg_port": view["port"] or None, "dialed_host": obs["bta_host"]}
        if d["hostname"][0] != _norm_hostname(obs["host"]):
            ck.violation({**case, "kind": "argv-dest"}, f"real ssh connects to {d['hostname'][0]!r}, driver reports {obs['host']!r}", matcher)
        if got_port != obs["port"]:
            ck.violation({**case, "kind": "argv-port"}, f"real ssh uses port {got_port}, driver reports {obs['port']}", matcher)
        if got_port != want_port:
            viol += 1
            ck.violation({**case, "kind": "port-precedence"},
                         f"real ssh (-G) uses port {got_port}, expected {want_port} (explicit {c['port']}, config file says {view['port']})", matcher)
        if obs["user"] and d["user"][0] != obs["user"]:
            ck.violation({**case, "kind": "argv-user"}, f"real ssh logs in as {d['user'][0]!r}, driver reports {obs['user']!r}", matcher)
    ck.extra["ssh_G"] = {"random_argv": n, "agree_ok": ok, "agree_usage": usage, "value_rejected_by_ssh": other, "rig_trouble": rig,
                         "scrapli_argv_checked_with_real_ssh": e2e, "of_which_port_precedence_violations": viol}


def _fake_ssh_end_to_end(ck, w, reals):
    """a stand-in `ssh` first on PATH records its argv; SystemTransport.open() really spawns it on a pty"""
    bindir = os.path.join(w.root, "bin")
    os.makedirs(bindir, exist_ok=True)
    rec = os.path.join(w.root, "argv.rec")
    script = os.path.join(bindir, "ssh")
    with open(script, "w") as f:
        f.write('#!/bin/sh\nfor a in "$@"; do printf \'%s\\0\' "$a"; done > "$C17_REC.tmp"\nmv "$C17_REC.tmp" "$C17_REC"\nsleep 1\n')
    os.chmod(script, 0o755)
    old_path = os.environ.get("PATH", "")
    os.environ["PATH"] = bindir + os.pathsep + old_path
    os.environ["C17_REC"] = rec
    done = rig = 0
    try:
        for c, facts, obs in reals:
            if done + rig >= 25:
                break
            if c["transport"] != "system" or "err" in obs or "\x00" in "".join(obs["argv"]):
                continue
            kw, home, _ = materialise(w, c)
            os.environ["HOME"] = home
            try:
                d = driver_class("system", c["cls"])(**kw)
                if os.path.exists(rec):
                    os.unlink(rec)
                d.transport.open()
                t0 = time.time()
                while not os.path.exists(rec) and time.time() - t0 < 10:
                    time.sleep(0.02)
                got = open(rec, "rb").read().split(b"\0")[:-1] if os.path.exists(rec) else None
                try:
                    d.transport.close()
                except Exception:
                    pass
            except Exception:
                rig += 1
                continue
            if got is None:
                rig += 1
                continue
            done += 1
            want = [x.encode("utf-8") for x in obs["argv"][1:]]
            if got != want:
                ck.violation({**c, "kind": "argv-exec"}, f"the ssh child received {got}, open_cmd was {obs['argv']}", matcher)
            else:
                ck.traces_validated += 1
    finally:
        os.environ["PATH"] = old_path
    ck.extra["fake_ssh_end_to_end"] = {"spawned": done, "rig_trouble": rig}


def _loopback_dial(ck, w):
    """really open transports against a listener on 127.0.0.1: the port/host the driver reports is where the
    TCP connection arrives (telnet, asynctelnet, paramiko's Socket; the ssh handshake itself is not played)"""
    import asyncio, logging, socket, threading
    logging.getLogger("paramiko").addHandler(logging.NullHandler())   # the failing handshake is expected, keep stderr clean
    logging.getLogger("paramiko").propagate = False
    srv = socket.socket(socket.AF_INET, socket.SOCK_STREAM)
    try:
        srv.bind(("127.0.0.1", 0))
        srv.listen(16)
    except OSError as e:
        ck.extra["loopback_dial"] = f"rig trouble: {e!r}"
        return
    port = srv.getsockname()[1]
    hits, stop = [], threading.Event()

    def acceptor():
        srv.settimeout(0.2)
        while not stop.is_set():
            try:
                c, _ = srv.accept()
            except OSError:
                continue
            hits.append(time.time())
            c.close()
    th = threading.Thread(target=acceptor, daemon=True)
    th.start()
    cfg = os.path.join(w.root, "loopback.cfg")
    with open(cfg, "w") as f:
        f.write(f"Host 127.0.0.1\n  Port {port}\n")
    os.environ["HOME"] = w.home("empty", "x", 0)
    from scrapli.ssh_config import SSHConfig
    plans = [("telnet", "127.0.0.1", port, False), ("asynctelnet", "127.0.0.1", port, False), ("paramiko", "127.0.0.1", port, False),
             ("paramiko", "127.0.0.1", None, True), ("telnet", " 127.0.0.1\n", port, False), ("paramiko", " 127.0.0.1 ", None, True)]
    done = 0
    try:
        for t, host, p, use_cfg in plans:
            SSHConfig._config_files.clear()
            kw = dict(host=host, transport=t, timeout_socket=3, auth_strict_key=False)
            if p is not None:
                kw["port"] = p
            if use_cfg:
                kw["ssh_config_file"] = cfg
            try:
                d = driver_class(t, "base")(**kw)
            except Exception:
                continue
            n0 = len(hits)
            try:
                if t in ASYNC:
                    asyncio.run(asyncio.wait_for(d.transport.open(), 5))
                else:
                    d.transport.open()
            except BaseException as e:  # refused / handshake failure / gaierror are all expected outcomes
                if isinstance(e, KeyboardInterrupt):
                    raise
            t0 = time.time()
            while len(hits) == n0 and time.time() - t0 < 1.0:
                time.sleep(0.02)
            try:
                d.transport.close()
            except Exception:
                pass
            done += 1
            arrived = len(hits) > n0
            b = d.transport._base_transport_args
            case = {**mk(transport=t, host=host, port=p, cfg="P" if use_cfg else "F"), "cfg_port": port if use_cfg else None,
                    "dialed_host": b.host, "loopback": True}
            if d.host == "127.0.0.1" and d.port == port and not arrived:
                kind = "host-reported-ne-dialed" if b.host != d.host else "port-reported-ne-dialed"
                ck.violation({**case, "kind": kind},
                             f"driver reports {d.host}:{d.port} (a listener is waiting there) but opening the {t} transport never "
                             f"connected to it (transport args {b.host!r}:{b.port})", matcher)
            elif arrived and (d.host, d.port) == ("127.0.0.1", port):
                ck.traces_validated += 1
    finally:
        stop.set()
        th.join(2)
        srv.close()
    ck.extra["loopback_dial"] = {"opened": done, "connections_seen": len(hits)}


def replay(path):
    from vlib import common
    r = json.load(open(path))
    v = r.get("violation", {}).get("case") or (r.get("no_longer_checks") or [{}])[0].get("case") or {}
    _install_ssh2_stub()
    ck = Check(PID, "quick", 0)
    w = World()
    try:
        if v.get("loopback"):
            _loopback_dial(ck, w)
            for x in ck.violations:
                print("VIOLATES:", x["case"]["kind"], "-", x["what"])
            print(ck.extra.get("loopback_dial"))
            return 1 if ck.violations else 0
        if "open_history" in v:
            h = {"steps": [mk(**st) for st in v["open_history"]], "options": list(v.get("options", []))}
            got = []
            for c, facts, obs, handed in evaluate_open_history(ck, w, h, got):
                print(f"{c['transport']} driver reports {obs['host']}:{obs['port']} user {obs['user']!r} key {obs['key']!r}\n   handed to the library: {handed}")
            for vc, what in got:
                print("VIOLATES:", vc["kind"], f"(driver #{vc['step'] + 1}) -", what, "| finding:", matcher(vc))
            return 1 if got else 0
        if "history" in v:
            h = {"steps": [mk(**st) for st in v["history"]], "share_opts": v.get("share_opts", False)}
            got = []
            r = evaluate_history(ck, w, h, got)
            for i, ((kw, home, _), o) in enumerate(zip(*r)):
                print(f"driver #{i + 1}: {kw}\n   observed: {json.dumps(o, default=str)}")
            for vc, what in got:
                print("VIOLATES:", vc["kind"], f"(driver #{vc['step'] + 1}) -", what, "| finding:", matcher(vc))
            return 1 if got else 0
        c = mk(**{k: v[k] for k in FIELDS if k in v})
        got = []
        kw, home, facts, obs = evaluate(ck, w, c, got)
        print("constructor arguments:", kw, "\nHOME:", home)
        print("observed:", json.dumps(obs, indent=1, default=str))
        for vc, what in got:
            print("VIOLATES:", vc["kind"], "-", what, "| finding:", matcher(vc))
        return 1 if got else 0
    finally:
        w.cleanup()
