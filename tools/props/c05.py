"""C05 — every device prompt maps to exactly one privilege level (decided on whole regular languages).
Lean: ScrapliModel/Regex/*, PromptClass.lean, Spec/PromptGrammar.lean, Gen/C05Tables_<table>.lean, Gen/Cert_*.lean,
ScrapliProps/C05/*.lean (one kernel-checked certificate per obligation), ScrapliProps/C05.lean (summary).
Real code: constructed core drivers (`_determine_current_priv`, register_configuration_session,
update_privilege_levels), the channel's compiled prompt pattern, `Channel.get_prompt` over SimTransport."""
import json, re
from pathlib import Path

from vlib.common import Check, VERIF, hexs, run_model, unhex, unhexl
import translate

PID = "C05"
FLAGS = re.M | re.I   # replaced in run() by the flags the translator reads from the source AST (level patterns / channel pattern)
CHAN_FLAGS = re.M | re.I
PARTIAL = ("iosxe", "iosxr", "nxos", "nxosS", "eos", "eosS", "junos")          # must hold on the unchanged tree
FULL = {"junosFull": "junos", "nxosFull": "nxos", "nxosSFull": "nxosS", "eosSFull": "eosS", "eosPFull": "eosP"}  # carry the findings' witnesses
SESSION_TABLES = {"nxosS": "nxos", "eosS": "eos", "eosP": "eos"}
PLATFORM = {"iosxe": "cisco_iosxe", "iosxr": "cisco_iosxr", "nxos": "cisco_nxos", "eos": "arista_eos", "junos": "juniper_junos"}


def table_of_suite(suite):
    return FULL.get(suite, suite)


def base_of(suite):
    t = table_of_suite(suite)
    return SESSION_TABLES.get(t, t)


def has_sessions(suite):
    return table_of_suite(suite) in SESSION_TABLES


def sessions_of(suite):
    from gen import c05 as g
    return g.SESSIONS.get(table_of_suite(suite), [])


# ---------------------------------------------------------------- the real code
class _PromptDevice:
    """prints the given prompt after every return (what a device in that mode does)"""

    def __init__(self, prompt: bytes):
        self.prompt = prompt

    def connect(self):
        return b""

    def on_write(self, data: bytes) -> bytes:
        return b"\n" + self.prompt if data.endswith(b"\n") else b""


_CONNS = {}


def real_conn(suite):
    """constructed real driver of the suite (sessions registered for the `…S` suites), cached"""
    from gen import c05 as g
    key = FULL.get(suite, suite)
    if key not in _CONNS:
        for name, conn, _ in g.drivers():
            _CONNS[name] = conn
    return _CONNS[key]


def real_classify(conn, prompt: str):
    from scrapli.exceptions import ScrapliPrivilegeError
    try:
        return list(conn._determine_current_priv(prompt))
    except ScrapliPrivilegeError:
        return []


def real_detect(conn, raw: bytes) -> bool:
    pat = conn.channel._get_prompt_pattern(class_pattern=conn.channel._base_channel_args.comms_prompt_pattern)
    return pat.search(raw) is not None


def real_get_prompt(suite, raw: bytes):
    """Channel.get_prompt over SimTransport: the returned prompt, or None when the channel never finds one"""
    from harness.simtransport import SimStall, SimTransport, attach
    from gen import c05 as g
    from scrapli.driver import core as C
    cls = {"iosxe": C.IOSXEDriver, "iosxr": C.IOSXRDriver, "nxos": C.NXOSDriver, "eos": C.EOSDriver, "junos": C.JunosDriver}[base_of(suite)]
    conn = cls(host="sim", auth_bypass=True, timeout_ops=0, timeout_transport=0, auth_strict_key=False)
    for s in sessions_of(suite):
        conn.register_configuration_session(session_name=s)
    t = SimTransport(conn._base_transport_args, _PromptDevice(raw))
    attach(conn, t)
    t.open()
    try:
        return conn.channel.get_prompt()
    except SimStall:
        return None


# ---------------------------------------------------------------- findings (narrow predicates)
def _head(prompt: str) -> str:
    line = prompt.split("\n")[-1]
    return re.split(r"[(#>%$]", line, maxsplit=1)[0]


OPEN_IDS = None   # set in run(): ids of the findings that are still open (a fixed finding attributes nothing)


def matcher(case):
    """the first OPEN finding whose narrow predicate the failing case satisfies"""
    for fid in _candidates(case):
        if OPEN_IDS is None or fid in OPEN_IDS:
            return fid
    return None


def _candidates(case):
    suite, mode, p = case.get("suite", ""), case.get("mode", ""), case.get("prompt", "")
    base = base_of(suite)
    out = []
    if base == "junos" and mode in ("configuration", "shell") and "root" in p:
        out.append("F12")
    if base == "nxos" and ((mode == "privilege_exec" and "-tcl" in _head(p)) or (mode == "configuration" and "config-" in _head(p))):
        out.append("F24")
    if base == "nxos" and has_sessions(suite) and mode == "configuration" and re.search(r"\(config-s", p):
        out.append("F25")
    if base == "eos" and mode.startswith("session:"):
        # the mode's own truncated name vs the truncated names of the OTHER registered sessions
        mine = mode[len("session:"):]
        others = {n[:6] for n in sessions_of(suite)} - {mine}
        if any(o.lower() == mine.lower() for o in others):
            out.append("F28")
        if any(mine.lower().startswith(o.lower()) and o.lower() != mine.lower() for o in others):
            out.append("F27")
    if base == "eos" and has_sessions(suite) and mode.startswith("session") and "_" in p.split("(config-s-")[0]:
        out.append("F26")
    return out


# ---------------------------------------------------------------- independent statement of the property (oracle)
def oracle(ck, suite, mode, group, raw: bytes, levels_order, with_channel=False):
    """a prompt the device can display in `mode`: the channel's pattern finds it, and the stripped prompt
    (what get_prompt hands to the driver) as well as the raw one are classified as exactly the share group"""
    conn = real_conn(suite)
    want = [n for n in levels_order if n in group]
    text = raw.decode("ascii")
    case = {"suite": suite, "mode": mode, "prompt": text, "prompt_hex": hexs(raw), "expected": want}
    bad = None
    if not real_detect(conn, raw):
        bad = "the channel's prompt pattern does not find this prompt (get_prompt would never return)"
    else:
        for variant in (text.strip(), text):
            got = real_classify(conn, variant)
            if got != want:
                bad = f"_determine_current_priv({variant!r}) = {got}, the device is in {want}"
                break
    if bad is None and with_channel:
        gp = real_get_prompt(suite, raw)
        if gp is None or gp != text.strip().split("\n", 1)[-1] and gp != text.strip():
            bad = f"Channel.get_prompt over the simulated device returned {gp!r} for the displayed prompt {text!r}"
    if bad:
        ck.violation({**case, "what": bad}, bad, matcher)
    return bad


def one_edit_mutants(rng, raw: bytes, n):
    out = []
    alpha = b"#>$%()@-_. :~tclsroot\n" + bytes(rng.sample(range(33, 127), 6))
    for _ in range(n):
        b = bytearray(raw)
        k = rng.randrange(3)
        pos = rng.randrange(len(b) + (1 if k == 0 else 0)) if b else 0
        if k == 0 or not b:
            b.insert(pos, rng.choice(alpha))
        elif k == 1:
            del b[pos]
        else:
            b[pos] = rng.choice(alpha)
        out.append(bytes(b))
    return out


def run(tier, seed):
    from gen import c05 as g
    import regex2lean as R
    ck = Check(PID, tier, seed, level="proof")
    ck.findings += [f for f in json.load(open(VERIF / "findings" / "C05.json")) if not any(x["id"] == f["id"] for x in ck.findings)]
    global OPEN_IDS
    OPEN_IDS = {f["id"] for f in ck.findings if f.get("status") == "open"}
    ck.rule = ("DECISION: per platform table (generated from constructed real drivers, before and after register_configuration_session) and "
               "per device mode of Spec/PromptGrammar.lean, three regular-language emptiness obligations (detected / classified by the "
               "whole share group / by no other level), each a kernel-checked derivative-automaton certificate over the WHOLE grammar "
               "(no sampling). SAMPLES (correspondence + oracle only): words drawn by the Lean sampler from every mode grammar "
               "(counts biased to the bounds), their one-edit mutants, the corpus, all strings of length <= N over each pattern's byte "
               "class representatives. Non-trivial = distinct (suite, prompt). Each sample runs the real _determine_current_priv, the real "
               "compiled channel pattern (and Channel.get_prompt over SimTransport on a subset) and the Lean model.")
    ck.trusted = ["Lean 4.33.0 kernel; axioms of every theorem audited ⊆ {propext, Classical.choice, Quot.sound}; decide +kernel only",
                  "Spec/PromptGrammar.lean (hand-written prompt grammars, quoted in design/C05.md)",
                  "tools/regex2lean.py + tools/gen/c05.py (pattern rendering; tested every run against CPython re.search)",
                  "CPython re (modelled: MULTILINE search as whole-string language; ASCII domain)"]
    ck.assumptions = ["prompts are ASCII; str patterns are translated with bytes semantics (\\w, \\s, IGNORECASE differ only outside ASCII)",
                      "bounds checked: see Spec/PromptGrammar.lean (NX-OS / EOS configuration-like / Junos hostnames up to 32 bytes, others 63)",
                      "session names: the generated set of tools/gen/c05.py (EOS 3 names, NX-OS 2 names); arbitrary names are not covered by a parametric proof",
                      "which prefix of the read buffer get_prompt matches first is covered by C01/C02, here only on the sampled prompts"]
    # ---- 1 translate (tables + certificates)
    obs, suites = {}, {}
    global FLAGS, CHAN_FLAGS
    try:
        FLAGS, CHAN_FLAGS = g.classify_flags(), g.channel_flags()
        ck.extra["regex_flags_read_from_source"] = {"_determine_current_priv": repr(re.RegexFlag(FLAGS)), "_get_prompt_pattern": repr(re.RegexFlag(CHAN_FLAGS))}
        translate.translate(PID)
        obs = g.certificates()
        suites = g.parse_suites(g.run_driver(["suites"])[0])
    except Exception as e:
        ck.proof_broken("translator gen/c05.py", repr(e))
        probe_invalid_patterns(ck, g)
    # an obligation of a PARTIAL suite that is no longer empty: the explorer's shortest witness is the failing input
    failed_obs = []
    for name, info in obs.items():
        if info["suite"] in PARTIAL and info["outcome"] != "cert":
            failed_obs.append((name, info))
    ck.extra["certificates"] = {"obligations": len(obs), "states": sum(i["states"] for i in obs.values()),
                                "witness_obligations": sorted(n for n, i in obs.items() if i["outcome"] == "witness")}
    # ---- 2 prove
    lemma_files = ["ScrapliProps/C05Lemmas.lean", "ScrapliModel/Regex/Lemmas.lean", "ScrapliModel/Regex/Cert.lean",
                   "ScrapliModel/Regex/Basic.lean", "ScrapliModel/PromptClass.lean", "ScrapliModel/Spec/PromptGrammar.lean",
                   "ScrapliModel/C05Obligations.lean"] + [f"ScrapliProps/C05/{n}.lean" for n in obs]
    ck.prove("ScrapliProps.C05", lemma_files=lemma_files)
    # generated verdicts on the unrestricted grammars of the finding modes (refuted while the defect exists, proved after a fix)
    ck.prove("ScrapliProps.C05Full")
    # accounting: an obligation is a kernel-checked theorem this run set out to establish.  Every generated obligation module
    # counts once: a certificate module proves `empty`, a witness module (only in the `…Full` suites, i.e. the grammar WITHOUT
    # the restriction of an open finding) proves `nonempty` — both are theorems, both were built by the `lake build` above.
    # A partial-suite obligation that is no longer empty makes C05.lean fail to build => proof_broken => exit 1 (no silent gap).
    built = not any(b[0] == "proof" for b in ck.broken)
    ck.obligations += len(obs)
    ck.discharged += len(obs) if built else 0
    fid = {"junosFull": "F12", "nxosFull": "F24", "nxosSFull": "F25", "eosSFull": "F26", "eosPFull": "F27/F28"}
    refuted = sorted({(fid.get(i["suite"], "?"), i["suite"], i["mode"], i["mode_index"]) for i in obs.values()
                      if i["suite"] in FULL and i["outcome"] == "witness"})
    ck.extra["full_statements_refuted_by_open_findings"] = [
        {"finding": f, "suite": sn, "mode": m, "theorem": f"Scrapli.C05.{g.ob_name(sn, mi, m, 0)[:-4]}_full_refuted (ScrapliProps/C05Full.lean)",
         "witness_prompts": sorted({bytes.fromhex(i["witness"]).decode("ascii", "replace") for i in obs.values()
                                    if i["suite"] == sn and i["mode"] == m and i["witness"] not in (None, "-")})}
        for f, sn, m, mi in refuted]
    ck.notes.append("proof: every theorem of ScrapliProps/C05.lean, C05Full.lean and of the generated obligation modules re-checked by the kernel "
                    "and audited; model tied to /repo by translator + correspondence")
    if refuted:
        ck.notes.append("the full-strength statement (grammar without a finding's restriction) is FALSE on this tree for "
                        + ", ".join(f"{sn}/{m} ({f})" for f, sn, m, _ in refuted)
                        + ": these are not proof obligations of this run; what is proved for them is the refutation (¬ ModeOK, from a "
                          "machine-checked witness prompt) and ModeOK for the grammar restricted by the open finding's predicate")
    if tier == "thorough":
        ck.leanchecker("ScrapliProps.C05")
    if not suites:
        # translator / model unavailable: the families that need only the REAL code still run (directed search for a
        # concrete failing input, DESIGN 1.3 step 5b)
        corpus = json.load(open(VERIF / "corpus" / "C05" / "corpus.json"))
        cases = [(c["suite"], c["mode"], [], c["prompt"].encode(), "corpus") for c in corpus if c["suite"] in PARTIAL]
        try:
            cache_cases(ck, g, False)
            table_edit_histories(ck, g, cases)
        except Exception as e:   # noqa: BLE001
            ck.proof_broken("real-code histories", repr(e))
        return ck.finish()
    # ---- 3 cases
    nsamp = 30 if tier == "quick" else 150
    nmut = 1 if tier == "quick" else 2
    reqs = []
    for sn, d in suites.items():
        for i, _ in enumerate(d["modes"]):
            reqs.append(f"sample {sn} {i} {seed * 1000 + i} {nsamp if sn in PARTIAL else max(4, nsamp // 3)}")
    try:
        sampled = run_model("C05", reqs)
    except Exception as e:
        ck.proof_broken("model driver Drv/C05.lean (sample)", repr(e))
        return ck.finish()
    cases = []   # (suite, mode, group, raw, kind)
    corpus = json.load(open(VERIF / "corpus" / "C05" / "corpus.json"))
    for c in corpus:
        if c["suite"] in suites:
            grp = dict(suites[c["suite"]]["modes"]).get(c["mode"])
            if grp is not None:
                cases.append((c["suite"], c["mode"], grp, c["prompt"].encode(), "corpus"))
    it = iter(sampled)
    for sn, d in suites.items():
        for i, (mode, grp) in enumerate(d["modes"]):
            for w in unhexl(next(it)):
                cases.append((sn, mode, grp, w, "grammar"))
    # failing obligations' witnesses go first through the oracle (directed search, DESIGN 1.3 step 5b)
    for name, info in failed_obs:
        mode, grp = suites[info["suite"]]["modes"][info["mode_index"]]
        cases.insert(0, (info["suite"], mode, grp, unhex(info["witness"]), "witness:" + name))
    mutants = []
    for sn, mode, grp, w, kind in cases:
        if kind == "grammar" and sn in PARTIAL:
            mutants += [(sn, m) for m in one_edit_mutants(ck.rng, w, nmut)]
    # ---- 4 model requests: classification + detection on every case and mutant; rendering on small strings
    lines = [f"classify {sn} {hexs(w)}" for sn, _, _, w, _ in cases] + [f"classify {sn} {hexs(m)}" for sn, m in mutants]
    nclass = len(lines)
    render = []   # (suite, which, pattern str, bytes)
    maxlen = 2 if tier == "quick" else 3
    import itertools
    seen_pat = set()
    for sn in PARTIAL:
        conn = real_conn(sn)
        pats = [(str(k), l.pattern) for k, l in enumerate(conn.privilege_levels.values())] + [("detect", conn.channel._base_channel_args.comms_prompt_pattern)]
        words = [w for s2, _, _, w, k in cases if s2 == sn][: 40 if tier == "quick" else 400] + [m for s2, m in mutants if s2 == sn][: 40 if tier == "quick" else 400]
        for which, pat in pats:
            small = []
            if pat not in seen_pat:
                seen_pat.add(pat)
                reps = R.class_reps(R.translate_search(pat, CHAN_FLAGS if which == "detect" else FLAGS))
                L = maxlen if len(reps) <= 24 or tier == "thorough" else 2
                if tier == "thorough" and len(reps) <= 9:
                    L = 4
                for n in range(L + 1):
                    small += [bytes(t) for t in itertools.product(reps, repeat=n)]
                if len(small) > (6000 if tier == "quick" else 60000):
                    small = small[:600] + ck.rng.sample(small[600:], (6000 if tier == "quick" else 60000) - 600)
            for w in small + (words if which != "detect" or True else []):
                render.append((sn, which, pat, w))
    lines += [f"rm {sn} {which} {hexs(w)}" for sn, which, _, w in render]
    try:
        mout = run_model("C05", lines)
    except Exception as e:
        ck.proof_broken("model driver Drv/C05.lean", repr(e))
        mout = None
    # ---- 5 real code: oracle + correspondence
    nchan = 0
    for idx, (sn, mode, grp, w, kind) in enumerate(cases):
        order = suites[sn]["levels"]
        try:
            text = w.decode("ascii")
        except UnicodeDecodeError:
            ck.extra["non_ascii_samples"] = ck.extra.get("non_ascii_samples", 0) + 1
            continue
        with_channel = kind != "grammar" or (idx % (7 if tier == "quick" else 3) == 0)
        nchan += with_channel
        ck.case((sn, w), nontrivial=True, sample={"suite": sn, "mode": mode, "prompt": text},
                tags=(f"suite={sn}", f"mode={mode.split(':')[0]}", f"len={min(len(w) // 10 * 10, 90)}", kind.split(":")[0],
                      "banner" if "\n" in text else "one-line", "trailing-blank" if text.endswith(" ") else "no-blank"))
        bad = oracle(ck, sn, mode, grp, w, order, with_channel=with_channel)
        if kind.startswith("witness:") and bad is None:
            ck.disagree("certificate witness vs real driver", {"suite": sn, "mode": mode, "prompt": text, "obligation": kind[8:]},
                        "the Lean explorer found a grammar word violating the obligation but the real driver handles it as C05 demands "
                        "(model or translator wrong)")
        if mout is not None:
            conn = real_conn(sn)
            got = f"{1 if real_detect(conn, w) else 0} {','.join(real_classify(conn, text)) or '-'}"
            if got != mout[idx]:
                ck.disagree("classify/detect model vs real driver", {"suite": sn, "prompt": text, "hex": hexs(w)}, f"impl={got} model={mout[idx]}")
            else:
                ck.traces_validated += 1
    if mout is not None:
        for j, (sn, m) in enumerate(mutants):
            try:
                text = m.decode("ascii")
            except UnicodeDecodeError:
                continue
            conn = real_conn(sn)
            got = f"{1 if real_detect(conn, m) else 0} {','.join(real_classify(conn, text)) or '-'}"
            ck.case((sn, m), nontrivial=True, tags=(f"suite={sn}", "mutant"))
            if got != mout[len(cases) + j]:
                ck.disagree("classify/detect model vs real driver", {"suite": sn, "prompt": text, "hex": hexs(m)}, f"impl={got} model={mout[len(cases) + j]}")
            else:
                ck.traces_validated += 1
        nr = 0
        for j, (sn, which, pat, w) in enumerate(render):
            fl = CHAN_FLAGS if which == "detect" else FLAGS
            real = re.search(pat.encode(), w, fl) is not None
            if w.isascii() and (re.search(pat, w.decode(), fl) is not None) != real:
                ck.extra["str_vs_bytes_search_differs"] = ck.extra.get("str_vs_bytes_search_differs", 0) + 1
            if ("1" if real else "0") != mout[nclass + j]:
                ck.disagree("regex rendering: Lean rmatch vs CPython re.search", {"suite": sn, "pattern": pat, "string_hex": hexs(w)},
                            f"re.search={real} rmatch={mout[nclass + j]}")
            else:
                nr += 1
        ck.traces_validated += nr
        ck.extra["rendering_strings_compared"] = nr
    ck.extra["get_prompt_over_simtransport"] = nchan
    # ---- cache behaviour: classify, register a session, classify again (a stale lru_cache shows as a diff)
    cache_cases(ck, g, mout is not None)
    table_edit_histories(ck, g, cases)
    # ---- update_regenerates on the real objects (the generated theorem states the same for the model)
    for sn in PARTIAL:
        conn = real_conn(sn)
        join = "|".join(f"({l.pattern})" for l in conn.privilege_levels.values())
        if conn.comms_prompt_pattern != join or conn.channel._base_channel_args.comms_prompt_pattern != join:
            ck.violation({"suite": sn, "what": "after construction / registration the channel's pattern is not the join of the current table",
                          "channel": conn.channel._base_channel_args.comms_prompt_pattern, "join": join},
                         "comms_prompt_pattern is not the alternation of the current privilege table", None)
    # ---- 6 known findings: replay the stored witnesses on the real code
    for f in ck.findings:
        if f.get("status") != "open" or f.get("property") != PID:
            continue
        still = False
        for wt in f["witness"]:
            sn = wt["suite"]
            if sn not in suites:
                continue
            conn = real_conn(sn)
            raw = wt["prompt"].encode()
            want = [n for n in suites[sn]["levels"] if n in wt["expected"]]
            if not real_detect(conn, raw) or real_classify(conn, wt["prompt"].strip()) != want:
                still = True
        if still:
            ck.known_finding(f["id"], f["what"])
    ck.exhaustive = True
    ck.extra["exhaustive_scope"] = ("decision: whole regular languages (certificates); rendering: all strings of length <= "
                                    f"{maxlen} over each pattern's class representatives")
    ck.extra["programs"] = len(obs)
    return ck.finish()


def probe_invalid_patterns(ck, g):
    """directed search when the translator could not render a table: a privilege pattern that CPython's re itself cannot
    compile is a concrete failure of the real code — every classification (and every get_prompt, through the joined
    channel pattern) of that driver raises re.error.  The failing input is the session set + any prompt."""
    try:
        conns = g.drivers()
    except Exception as e:   # construction / registration itself fails
        ck.violation({"what": f"constructing the drivers / registering the sessions raised {e!r}"}, "driver construction failed", None)
        return
    for tname, conn, sessions in conns:
        for lvl in conn.privilege_levels.values():
            try:
                re.compile(lvl.pattern, FLAGS)
            except re.error as e:
                prompt = "leaf1(config)#"
                try:
                    got = real_classify(conn, prompt)
                    raised = None
                except Exception as e2:   # noqa: BLE001 — re.error expected
                    got, raised = None, repr(e2)
                ck.case(("invalid-pattern", tname, lvl.name), nontrivial=True, tags=("invalid-pattern",))
                ck.violation({"suite": tname, "mode": "configuration", "prompt": prompt, "sessions_for_invalid_pattern": sessions,
                              "level": lvl.name, "pattern": lvl.pattern, "re_error": str(e), "classification": got, "raised": raised,
                              "what": f"the pattern of level {lvl.name!r} is not a valid regular expression ({e}); "
                                      f"_determine_current_priv({prompt!r}) raises {raised}"},
                             "a privilege level pattern does not compile: every prompt classification raises re.error", None)
                return


def spec_classify(conn, prompt):
    """independent statement of what classification must be: a function of the CURRENT table only"""
    return [l.name for l in conn.privilege_levels.values()
            if not any(x in prompt for x in l.not_contains) and re.search(l.pattern, prompt, FLAGS)]


def _edits(conn, prompts):
    """edits of a privilege table that leave every pattern STRING untouched (so the joined channel pattern does not
    change): not_contains entries added / removed, levels renamed or replaced by an equal-pattern level, previous_priv
    changed.  Each edit is (label, function applying it to a driver)."""
    from scrapli.driver.network.base_driver import PrivilegeLevel
    out = []
    names = list(conn.privilege_levels)
    for n in names:
        hit = next((p for p in prompts if n in spec_classify(conn, p)), None)
        if hit:
            x = hit.strip()[-3:] if len(hit.strip()) >= 3 else hit.strip()
            out.append((f"append {x!r} to not_contains of {n}",
                        lambda c, n=n, x=x: c.privilege_levels[n].not_contains.append(x)))
        if conn.privilege_levels[n].not_contains:
            out.append((f"clear not_contains of {n}", lambda c, n=n: c.privilege_levels[n].not_contains.clear()))
            out.append((f"replace not_contains list of {n} by []", lambda c, n=n: setattr(c.privilege_levels[n], "not_contains", [])))

        def rename(c, n=n):
            items = list(c.privilege_levels.items())
            c.privilege_levels.clear()
            for k, l in items:
                if k == n:
                    l = PrivilegeLevel(pattern=l.pattern, name=n + "_renamed", previous_priv=l.previous_priv, deescalate=l.deescalate,
                                       escalate=l.escalate, escalate_auth=l.escalate_auth, escalate_prompt=l.escalate_prompt,
                                       not_contains=list(l.not_contains))
                    k = n + "_renamed"
                elif l.previous_priv == n:     # keep the table coherent: who pointed at the old name points at the new one
                    l.previous_priv = n + "_renamed"
                c.privilege_levels[k] = l
        out.append((f"replace level {n} by an equal-pattern level named {n}_renamed", rename))

        def drop(c, n=n):
            del c.privilege_levels[n]
        if len(names) > 1:
            out.append((f"delete level {n}", drop))
    if len(names) > 1:
        out.append((f"previous_priv of {names[-1]} := {names[0]}", lambda c: setattr(c.privilege_levels[names[-1]], "previous_priv", names[0])))
    # edits that CHANGE pattern strings: in place on the existing PrivilegeLevel objects (what a user does to adapt a level:
    # `conn.privilege_levels["exec"].pattern = …`), and by replacing the level object by a new one with another pattern
    for i, n in enumerate(names):
        m = names[(i + 1) % len(names)]
        pat = conn.privilege_levels[n].pattern
        if m != n:
            out.append((f"pattern of {n} := pattern of {m} (in place)",
                        lambda c, n=n, m=m: setattr(c.privilege_levels[n], "pattern", c.privilege_levels[m].pattern)))

            def replace_obj(c, n=n, m=m):
                l = c.privilege_levels[n]
                c.privilege_levels[n] = PrivilegeLevel(pattern=c.privilege_levels[m].pattern, name=l.name, previous_priv=l.previous_priv,
                                                       deescalate=l.deescalate, escalate=l.escalate, escalate_auth=l.escalate_auth,
                                                       escalate_prompt=l.escalate_prompt, not_contains=list(l.not_contains))
            out.append((f"level {n} replaced by a new level object with the pattern of {m}", replace_obj))
        for cls_txt in ("[\\w", "[a-z0-9"):
            if cls_txt in pat:
                out.append((f"widen the first class of {n} by '!' (in place)",
                            lambda c, n=n, t=cls_txt: setattr(c.privilege_levels[n], "pattern", c.privilege_levels[n].pattern.replace(t, t + "!", 1))))
                break
        for bound in ("{1,63}", "{1,32}"):
            if bound in pat:
                out.append((f"narrow {bound} of {n} to {{1,3}} (in place)",
                            lambda c, n=n, b=bound: setattr(c.privilege_levels[n], "pattern", c.privilege_levels[n].pattern.replace(b, "{1,3}", 1))))
                break
        if pat.startswith("^"):
            out.append((f"drop the leading ^ of {n} (in place)",
                        lambda c, n=n: setattr(c.privilege_levels[n], "pattern", c.privilege_levels[n].pattern[1:])))
    return out


def table_edit_histories(ck, g, cases):
    """multi-step histories on ONE long-lived driver: classify prompts (results are now memoised), edit the privilege
    table (not_contains / names / previous_priv with every pattern string untouched, AND pattern strings changed in place or
    through new level objects), call update_privilege_levels(), classify the same prompts again — the
    answers must be (a) what the current table says (spec_classify) and (b) what a brand-new driver given the same
    table answers.  Single edits and chains of two edits, on every platform table incl. the session tables."""
    from scrapli.exceptions import ScrapliPrivilegeError
    n_hist = 0
    for tname, conn0, sessions in g.drivers():
        cls = type(conn0)
        kw = dict(host="localhost", auth_username="u", auth_password="p", auth_strict_key=False)

        def fresh():
            c = cls(**kw)
            for s in sessions:
                c.register_configuration_session(session_name=s)
            return c
        prompts = [w.decode("ascii").strip() for sn, _, _, w, kind in cases if table_of_suite(sn) == tname and w.isascii()]
        prompts = list(dict.fromkeys(prompts))[:8]
        if not prompts:
            continue
        # variants only a widened / re-anchored pattern matches (a '!' in the host part, a leading 'x ')
        prompts = list(dict.fromkeys(prompts + [p[:1] + "!" + p[1:] for p in prompts[:5]] + ["x " + p for p in prompts[:3]]))
        edits = _edits(conn0, prompts)
        chains = [[e] for e in edits] + [[edits[i], edits[(i + 3) % len(edits)]] for i in range(0, len(edits), 4) if len(edits) > 3]
        for chain in chains:
            old, new = fresh(), fresh()
            for p in prompts:
                real_classify(old, p)          # the history that matters: answers are cached now
            labels = []
            ok_chain = True
            for label, fn in chain:
                try:
                    fn(old); old.update_privilege_levels()
                    fn(new); new.update_privilege_levels()
                except Exception as e:   # an edit the code itself rejects is not a history of the property
                    ok_chain = False
                    ck.extra["table_edit_rejected"] = ck.extra.get("table_edit_rejected", 0) + 1
                    break
                labels.append(label)
                for p in prompts:
                    try:
                        spec = spec_classify(old, p)
                    except re.error:          # the edit produced a pattern that is not a regex: not a history of the property
                        ck.extra["table_edit_rejected"] = ck.extra.get("table_edit_rejected", 0) + 1
                        ok_chain = False
                        break
                    got, want = real_classify(old, p), real_classify(new, p)
                    ck.case(("edit", tname, tuple(labels), p), nontrivial=True, tags=("table-edit-history", f"suite={tname}"))
                    if got != spec or got != want:
                        ck.violation({"suite": tname, "prompt": p, "sessions_registered_first": sessions, "table_edits": list(labels),
                                      "long_lived_driver": got, "fresh_driver_same_table": want, "current_table_says": spec,
                                      "what": "after editing the privilege table and update_privilege_levels(), the long-lived driver's "
                                              "classification is not the one of the current table (something derived from the old table is stale)"},
                                     "stale prompt classification after a table edit + update_privilege_levels()", None)
                    else:
                        ck.traces_validated += 1
            n_hist += ok_chain
    ck.extra["table_edit_histories"] = n_hist


def cache_cases(ck, g, have_model):
    """one long-lived driver: classify every prompt, register the next session, classify again, …; after every
    registration the answers must be those of a brand-new driver with the same sessions (which never cached
    anything).  A stale lru_cache (update_privilege_levels not clearing it) shows as a difference."""
    from scrapli.driver.core import EOSDriver, NXOSDriver
    plan = [("eos", EOSDriver, g.EOS_SESSIONS, ["leaf1(config-s-confs-)#", "leaf1(config-s-c.F+g-if)#", "leaf1(config)#", "leaf1#",
                                                "leaf1(config-s-confs--if)#"]),
            ("nxos", NXOSDriver, g.NXOS_SESSIONS, ["n9k(config-s)# ", "n9k(config-s-acl)# ", "n9k(config)# ", "n9k# ", "n9k(config-subif)# ",
                                                   "n9k(config-s0)# "])]
    lines, real = [], []
    kw = dict(host="localhost", auth_username="u", auth_password="p", auth_strict_key=False)
    for base, cls, sessions, prompts in plan:
        conn = cls(**kw)
        for k in range(len(sessions) + 1):
            if k:
                conn.register_configuration_session(session_name=sessions[k - 1])
            fresh = cls(**kw)
            for s in sessions[:k]:
                fresh.register_configuration_session(session_name=s)
            for p in prompts:
                got, want = real_classify(conn, p), real_classify(fresh, p)
                ck.case(("cache", base, k, p), nontrivial=True, tags=("cache",))
                if got != want:
                    ck.violation({"suite": base + ("S" if k else ""), "prompt": p, "sessions_registered": sessions[:k],
                                  "long_lived_driver": got, "fresh_driver_same_table": want,
                                  "what": "classification after register_configuration_session differs from a driver that never "
                                          "classified before (stale cache)"},
                                 "stale prompt-classification cache after register_configuration_session", None)
                if k in (0, len(sessions)):
                    real.append((base + ("S" if k else ""), p, got))
                    lines.append(f"classify {base}{'S' if k else ''} {hexs(p.encode())}")
    if have_model:
        try:
            out = run_model("C05", lines)
        except Exception as e:
            ck.proof_broken("model driver Drv/C05.lean (cache cases)", repr(e))
            return
        for (sn, p, got), ml in zip(real, out):
            m = ml.split(" ", 1)[1]
            if (",".join(got) or "-") != m:
                ck.disagree("classification before/after register_configuration_session", {"suite": sn, "prompt": p}, f"impl={got} model={m}")
            else:
                ck.traces_validated += 1


def replay(path):
    r = json.load(open(path))
    v = r.get("violation", {}).get("case") or {}
    if "prompt" not in v or "suite" not in v:
        print("no failing input in this replay file:", json.dumps(r.get("no_longer_checks", r), indent=1)[:2000])
        return 1
    from gen import c05 as g
    sn = v["suite"]
    if "sessions_for_invalid_pattern" in v:
        conn = real_conn(sn)
        try:
            got = real_classify(conn, v["prompt"])
            print(f"suite {sn}: _determine_current_priv({v['prompt']!r}) = {got}")
            return 0
        except Exception as e:   # noqa: BLE001
            print(f"suite {sn} (sessions {v['sessions_for_invalid_pattern']}): _determine_current_priv({v['prompt']!r}) raised {e!r}")
            return 1
    if "table_edits" in v:
        print("table-edit history (see tools/props/c05.py table_edit_histories): long-lived driver", v["long_lived_driver"],
              "fresh driver", v["fresh_driver_same_table"], "current table says", v["current_table_says"], "after", v["table_edits"])
        import random
        ck = Check(PID, "quick", 0)
        cases = [(sn, "", [], v["prompt"].encode(), "replay")]
        table_edit_histories(ck, g, cases)
        return 1 if ck.violations else 0
    if "sessions_registered" in v:   # stale-cache case: long-lived driver vs brand-new driver
        from scrapli.driver.core import EOSDriver, NXOSDriver
        cls = EOSDriver if base_of(sn) == "eos" else NXOSDriver
        kw = dict(host="localhost", auth_username="u", auth_password="p", auth_strict_key=False)
        old, new = cls(**kw), cls(**kw)
        real_classify(old, v["prompt"])
        for s in v["sessions_registered"]:
            old.register_configuration_session(session_name=s)
            real_classify(old, v["prompt"])
            new.register_configuration_session(session_name=s)
        a, b = real_classify(old, v["prompt"]), real_classify(new, v["prompt"])
        print(f"prompt {v['prompt']!r}: long-lived driver {a}, fresh driver with the same sessions {b}")
        return 0 if a == b else 1
    conn = real_conn(sn)
    raw = unhex(v["prompt_hex"]) if v.get("prompt_hex") else v["prompt"].encode()
    det = real_detect(conn, raw)
    got = real_classify(conn, raw.decode("ascii").strip())
    print(f"suite {sn} mode {v.get('mode')} prompt {raw!r}\n detected by the channel pattern: {det}\n _determine_current_priv: {got}\n expected: {v.get('expected')}")
    return 0 if det and got == v.get("expected") else 1
