"""C14 — per-call timeout overrides never outlive the call.
Lean: ScrapliModel/TimeoutRestore.lean, ScrapliProps/C14.lean (+C14Lemmas).  Real code: GenericDriver / IOSXEDriver /
NetworkDriver (sync and asyncio) over the Sim transports of harness/c14rig.py, with a site-level probe hung on the
constructed objects from outside.  Oracle: state after every call == state before it, on the real objects."""
import asyncio, itertools, json, threading, time
from pathlib import Path

from vlib.common import Check, VERIF, run_model
import translate

PID = "C14"
OBS = ("conn.timeout_ops", "conn.timeout_transport", "_base_transport_args.timeout_transport", "_base_channel_args.timeout_ops",
       "value held by the transport session (_set_timeout)")
OBS = OBS + tuple("the OTHER driver sharing the transport (commandeer): " + x for x in OBS)
OV = [None, "equal", 0, 0.5, 1, 7.5]
EXCS = [("timeout", True), ("conn", False), ("other", True), ("timeout_close", False)]
CONSTS = {}       # what the translator extracted (set by run / replay)


# ---------------------------------------------------------------- independent statement of the property (oracle)
def oracle_step(step):
    """-> list of (observable name, expected, after) that differ; never looks at the model.
    A per-call operation must leave every observable of the driver it is called on - and of any other driver sharing the
    transport - as it found it; a reconfiguration through a public setter must change exactly what it names."""
    want = list(step["before"])
    if step.get("set") and step["res"] == "-":
        attr, value = step["set"]
        if attr == "timeout_ops":
            want[0] = want[3] = value
        elif attr == "timeout_transport":
            want[1] = want[2] = value
            for i in range(4, len(want), 5):          # the (shared) transport session gets the value pushed
                if want[i] is not None and step.get("session_open", True):
                    want[i] = value
    if step.get("set") and step["res"] != "-":
        return []       # a setter that raised (non-number; _set_timeout on a closed session, after assigning): no claim of C14
    # the session value is claimed only for a coherent start (session holds the acting driver's configured value; after
    # B.commandeer(A) it holds A's) and an open session - the `Coherent` / `PushesOk` hypotheses of restore_full
    b = step["before"]
    skip_sess = (not step.get("session_open", True)) or (b[4] is not None and not (b[4] == b[2]))
    return [(OBS[i], w, a) for i, (w, a) in enumerate(zip(want, step["after"])) if not (a == w) and not (i % 5 == 4 and skip_sess)]


def oracle_in_force(spec, step, base_ops):
    """the override is what the channel operations of this call run under (timeout_ops only)"""
    ov = spec.get("ov")
    if ov is None or ov == "bad" or spec["op"] in ("read_callback", "set"):
        return []
    want = base_ops if ov == "equal" else ov
    return [e for e in step["log"] if e["site"] in ("send_input", "interact", "write", "read_until_input", "send_return", "read")
            and not (e["ops"] == want)]


def matcher(vcase):
    """narrow predicate of finding F5 (see findings/C14.json): only timeout_transport (or the session value) differs, and the
    call ended with an exception that escaped the swapped region of _read_until_prompt_or_time / read_callback"""
    esc = vcase.get("escape")
    if not esc or any(d[0] in (OBS[0], OBS[3]) for d in vcase.get("diff", [])):
        return None
    if esc["region"] == "gap":
        return "C14-F3"      # an exception arrived between the swap of _read_until_prompt_or_time and its try
    if esc["region"] == "swap" and esc["site"] == "push":
        return "C14-F2"      # transport._set_timeout raised inside read_callback's swapping assignment (before the try)
    if esc["region"] == "chan" and esc["exc"] != "t":
        return "F5"
    if esc["region"] == "cb" and not (esc["site"] == "read" and esc["exc"] == "t"):
        return "F5"
    return None


# ---------------------------------------------------------------- encoding for the model driver
def milli(v):
    return int(round(v * 1000))


def enc_ov(ov, base_ops):
    if ov is None:
        return "n"
    if ov == "bad":
        return "b"
    return str(milli(base_ops if ov == "equal" else ov))


def resolve(case):
    """replace the symbolic 'equal' by the connection's own values (a copy; what is really passed to scrapli)"""
    c = json.loads(json.dumps(case))
    sh = (CONSTS.get("shape") or {}).get(c["stack"])
    c["swap_in_try"] = bool(sh[3]) if sh else False
    for s in c["ops"]:
        if s.get("ov") == "equal":
            s["ov"] = c["base"][0]
        if s.get("rt") == "equal":
            s["rt"] = c["base"][1]
        if s.get("rd") == "equal":
            s["rd"] = c["base"][1]
        for cb in s.get("cbs", []):
            if cb.get("next") == "equal":
                cb["next"] = c["base"][1]
    return c


def enc_op(spec, step, net, consts, stack):
    op, b = spec["op"], lambda x: "1" if x else "0"
    ov = enc_ov(spec.get("ov"), None)
    if op == "send_command":
        return f"sc:{b(net)}:{ov}"
    if op in ("send_commands", "send_commands_from_file"):
        return f"scs:{b(net)}:{b(op == 'send_commands_from_file')}:{ov}:{spec.get('n', 1)}:{b(spec.get('stop'))}"
    if op == "send_and_read":
        rd = spec.get("rd", "omit")
        rd = str(consts["drv_default"][stack]) if rd == "omit" else ("n" if rd is None else str(milli(rd)))
        return f"sar:{ov}:{rd}"
    if op == "send_interactive":
        return f"si:{b(net)}:{ov}"
    if op in ("send_configs", "send_config", "send_configs_from_file"):
        # whether acquire_priv had to be called is an input from the environment (the privilege state)
        log = step["log"]
        acq = len(log) > 1 and log[0]["site"] == "pre" and log[1]["site"] == "acquire"
        return f"cfg:{ov}:{spec.get('n', 1)}:{b(spec.get('stop'))}:{b(acq)}"
    if op == "read_callback":
        rt = spec.get("rt", "omit")
        rt = consts["rt_default"][stack] if rt == "omit" else milli(rt)
        cbs = "+".join(f"{b(c.get('complete'))}/{milli(c['next']) if 'next' in c else consts['next_timeout_default']}" for c in spec["cbs"]) or "."
        return f"rcb:{b(spec.get('init'))}:{rt}:{cbs}"
    raise ValueError(op)


def _model_log(case, st, consts):
    """the sites the model knows for this tree: the pre-fix form of read_callback is modelled with a setter that cannot raise"""
    if consts["shape"][case["stack"]][2]:
        return st["log"]
    return [e for e in st["log"] if e["site"] != "push"]


def segments(case, steps):
    """maximal runs of per-call operations between the user's reconfigurations: [(ops, steps)]"""
    out, cur = [], ([], [])
    for spec, st in zip(case["ops"], steps):
        if spec["op"] == "set":
            if cur[0]:
                out.append(cur)
            cur = ([], [])
        else:
            cur[0].append(spec)
            cur[1].append(st)
    if cur[0]:
        out.append(cur)
    return out


def enc_lines(case, steps, consts):
    """one model request per segment; the segment starts from the state the real connection is in at that moment (the
    theorems quantify over every initial state, a reconfiguration just starts a new run)"""
    lines = []
    stack = "a" if case["stack"] == "async" else "s"
    net = case["driver"] != "generic"
    shape = "t"
    if case.get("gap") is not None:       # the tree's shape + "an exception may arrive between the channel's swap and its try"
        shape = "".join("1" if x else "0" for x in consts["shape"][case["stack"]]) + "1"
    for ops, sts in segments(case, steps):
        sts = [dict(st, log=_model_log(case, st, consts)) for st in sts]
        enc = ";".join(enc_op(s, st, net, consts, case["stack"]) for s, st in zip(ops, sts))
        tape = ",".join(f"{e['exc'] or '-'}/{int(e['flag'])}" for st in sts for e in st["log"]) or "."
        b = sts[0]["before"]
        sess = "x" if b[4] is None else str(milli(b[4]))
        lines.append(f"{stack} {shape} {milli(b[3])} {milli(b[2])} {sess} {enc} {tape}")
    return lines


def enc_real(steps, case=None, consts=None):
    if case is not None:
        steps = [dict(x, log=_model_log(case, x, consts)) for x in steps]

    def st(o, t, s):
        return f"{milli(o)}/{milli(t)}/{'x' if s is None else milli(s)}"
    res = ",".join(s["res"] for s in steps) or "."
    states = ",".join(st(s["after"][3], s["after"][2], s["after"][4]) for s in steps) or "."
    log = ",".join(f"{e['site']}/{e['region']}/{st(e['ops'], e['tr'], e['sess'])}" for s in steps for e in s["log"]) or "."
    return f"{res} {states} {log}"


# ---------------------------------------------------------------- generation
def rcb_templates():
    A = {"contains": "r1#", "only_once": True, "next": 0.5, "send": "show clock", "name": "A"}
    A2 = {"contains": "clock-output", "only_once": True, "next": 7.5, "send": "show version", "name": "A2"}
    B = {"contains": "clock-output", "complete": True, "name": "B"}
    B2 = {"contains": "version-output", "complete": True, "name": "B2"}
    return [
        {"op": "read_callback", "init": True, "cbs": [A, B]},
        {"op": "read_callback", "init": False, "cbs": [{"contains": "r1#", "complete": True, "name": "P"}]},
        {"op": "read_callback", "init": True, "cbs": [{"raise": "check", "name": "C"}]},
        {"op": "read_callback", "init": True, "cbs": [{"contains": "never-there", "name": "N"}, {"contains": "r1#", "raise": "run", "next": 1, "name": "D"}]},
        {"op": "read_callback", "init": True, "cbs": [dict(A, next="equal"), A2, B2]},
        {"op": "read_callback", "init": True, "cbs": [dict(A, next=0), {"contains": "never-there", "name": "N"}]},
    ]


def templates(driver):
    T = [
        {"op": "send_command"},
        {"op": "send_command", "fail_at": 0},
        {"op": "send_commands", "n": 2, "stop": False},
        {"op": "send_commands", "n": 3, "stop": True, "fail_at": 1},
        {"op": "send_commands", "n": 0},
        {"op": "send_commands_from_file", "n": 2, "stop": True, "fail_at": 1},
        {"op": "send_and_read", "rd": "omit"},
        {"op": "send_and_read", "rd": 0},
        {"op": "send_and_read", "rd": 0.5},
        {"op": "send_and_read", "rd": 1},
        {"op": "send_and_read", "rd": 7.5, "expect": "version-output"},
        {"op": "send_and_read", "rd": None},
        {"op": "send_and_read", "rd": "equal"},
        {"op": "send_interactive"},
    ] + rcb_templates()
    if driver != "generic":
        T += [
            {"op": "send_configs", "n": 2},
            {"op": "send_configs", "n": 2, "stop": True, "fail_at": 0},
            {"op": "send_config", "n": 2, "stop": True, "fail_at": 1},
            {"op": "send_configs_from_file", "n": 1},
            {"op": "send_interactive", "priv": "bogus"},
            {"op": "send_configs", "n": 1, "priv": "bogus"},
        ]
    return T


def with_override(tpl, ov):
    """apply one value of the override dimension: timeout_ops for the send_* family, read_timeout for read_callback"""
    s = json.loads(json.dumps(tpl))
    if s["op"] == "read_callback":
        s["rt"] = "omit" if ov is None else ov
    else:
        s["ov"] = ov
    return s


def mk(driver, stack, ops, faults=(), push=False, base=(30, 7), **kw):
    return dict({"driver": driver, "stack": stack, "push": push, "base": list(base), "ops": list(ops), "faults": list(faults)}, **kw)


def timer_cases():
    """real timers, a device that goes silent and reads that really block (oracle only; each costs <= ~0.1 s).
    The sync cases run in a worker thread, so that the decorator uses its thread mechanism (as it does for the system and
    telnet transports): SIGALRM timers do not nest (a transport read disarms the ops timer), which would make a main-thread
    run wait for the rig's own 3 s limit."""
    never = [{"contains": "never-there", "name": "N"}]
    out = []
    for stack in ("async", "sync"):
        out += [
            # ops timer fires while send_and_read waits inside its read loop (asyncio: CancelledError at the read; thread
            # mechanism: the transport is closed under the blocked read) -- the exception leaves the swapped region
            mk("generic", stack, [{"op": "send_and_read", "ov": 0.05, "rd": 1}, {"op": "send_command"}], [{"at_write": 2, "exc": "silent"}]),
            mk("iosxe", stack, [{"op": "send_and_read", "ov": 0.05, "rd": 7.5}, {"op": "send_command", "ov": 1}], [{"at_write": 2, "exc": "silent"}], push=True),
            mk("generic", stack, [{"op": "send_and_read", "ov": 0.05, "rd": 0.5}], [{"at_write": 1, "exc": "silent"}]),
            # the temporary read_timeout itself expires (a real ScrapliTimeout from the transport read)
            mk("generic", stack, [{"op": "read_callback", "init": True, "rt": 0.05, "cbs": never}, {"op": "send_command", "ov": 0.5}], [{"at_write": 1, "exc": "silent"}], push=True),
        ]
    # the task running read_callback is cancelled from outside while it waits
    out.append(mk("generic", "async", [{"op": "read_callback", "init": True, "rt": 4.5, "cancel_after": 0.05, "cbs": never}], [{"at_write": 1, "exc": "silent"}], push=True))
    return [dict(c, on_empty="block", timer=True, thread=(c["stack"] == "sync")) for c in out]


def gen_cases(ck, tier, run_one):
    """-> list of cases (corpus first). run_one(case) is used for dry runs that count reads/writes."""
    cases = [dict(c, corpus=True) for c in json.load(open(VERIF / "corpus" / "C14" / "corpus.json"))]
    for c in cases:
        c.pop("note", None)
    rng = ck.rng
    drivers = ["generic", "iosxe"] + (["network"] if tier == "thorough" else [])
    stacks = ["sync", "async"]
    # (1) every template x every override value, no fault
    for drv in drivers + (["network"] if tier == "quick" else []):
        for stack in stacks:
            for i, tpl in enumerate(templates(drv)):
                for j, ov in enumerate(OV + ["bad"]):
                    if tpl["op"] == "read_callback" and ov == "bad":
                        continue
                    if drv == "network" and tier == "quick" and (i + j) % 3:
                        continue
                    cases.append(mk(drv, stack, [with_override(tpl, ov)], push=bool((i + j) % 2)))
    # (2) every template x (quick: 2 rotating / thorough: all) override values x a fault at EVERY read and write index x class
    for drv in drivers:
        for stack in stacks:
            for i, tpl in enumerate(templates(drv)):
                ovs = OV if tier == "thorough" else [OV[(i + ck.seed + d) % len(OV)] for d in (0, 2, 3)]
                for j, ov in enumerate(ovs):
                    push = bool((i + j) % 2)
                    spec = with_override(tpl, ov)
                    dry = run_one(mk(drv, "sync", [spec], push=push))
                    R, W = dry[0]["reads"], dry[0]["writes"]
                    R = min(R, 8)          # runaway loops: the first reads are enough
                    for kind, k in [("at_read", x) for x in range(1, R + 1)] + [("at_write", x) for x in range(1, W + 1)]:
                        for exc, soft in EXCS:
                            cases.append(mk(drv, stack, [spec], [{kind: k, "exc": exc, "soft": soft}], push=push))
    # (3) sequences of 2-3 calls with 0-2 faults anywhere
    nseq = 2500 if tier == "quick" else 60000
    bases = [(30, 7), (30, 7), (30, 7), (0, 0), (30, 0), (0.5, 7.5), (10, 10)]
    for _ in range(nseq):
        drv = rng.choice(["generic", "iosxe", "iosxe", "network"])
        tpls = templates(drv)
        ops = [with_override(rng.choice(tpls), rng.choice(OV + ["bad"] if rng.random() < 0.1 else OV)) for _ in range(rng.choice([2, 2, 3]))]
        for s in ops:
            if s["op"] == "read_callback" and s.get("rt") == "bad":
                s["rt"] = 1
        if rng.random() < 0.3:           # the user reconfigures the connection between two calls
            attr, val = rng.choice(SETS)
            ops.insert(rng.randint(1, len(ops) - 1), {"op": "set", "attr": attr, "value": val})
        faults = []
        for _ in range(rng.choice([0, 1, 1, 2])):
            exc, soft = rng.choice(EXCS)
            faults.append({rng.choice(["at_read", "at_read", "at_write"]): rng.randint(1, 14), "exc": exc, "soft": soft})
        cases.append(mk(drv, rng.choice(stacks), ops, faults, push=rng.random() < 0.5, base=rng.choice(bases),
                        refuse_config=(drv != "generic" and rng.random() < 0.06)))
    # (4) thorough: all ordered pairs of a reduced template set, fault at every read of the pair
    if tier == "thorough":
        small = [{"op": "send_command", "ov": 0.5}, {"op": "send_and_read", "ov": 1, "rd": 1.5}, {"op": "send_and_read", "rd": 0.5},
                 with_override(rcb_templates()[0], 4.5), with_override(rcb_templates()[3], 0), {"op": "send_interactive", "ov": 7.5},
                 {"op": "send_commands", "ov": 0, "n": 2, "stop": True, "fail_at": 0}]
        for a, b in itertools.product(small, repeat=2):
            for stack in stacks:
                dry = run_one(mk("generic", "sync", [a, b], push=True))
                for k in range(1, min(dry[-1]["reads"], 12) + 1):
                    for exc, soft in EXCS:
                        cases.append(mk("generic", stack, [a, b], [{"at_read": k, "exc": exc, "soft": soft}], push=True))
    # (5) a session that is gone (closed by a timeout, as decorators._handle_timeout does): every setter push raises
    P = {"contains": "r1#", "complete": True, "name": "P"}
    for drv in ("generic", "iosxe"):
        for stack in stacks:
            for rt in (0, 0.5, 1, 7.5, "equal", "omit"):
                for first in ({"op": "send_command", "ov": 0.5}, {"op": "read_callback", "init": True, "rt": 1, "cbs": [P]}):
                    cases.append(mk(drv, stack, [first, {"op": "read_callback", "init": False, "rt": rt, "cbs": [P]},
                                                 {"op": "read_callback", "init": True, "rt": rt, "cbs": [P]}],
                                    [{"at_read": 1, "exc": "timeout_close", "soft": False}], push=True))
    # (6) an exception arriving between the swap of _read_until_prompt_or_time and its try (what the SIGALRM of the sync
    #     ops timer does, see signal_sweep), emulated deterministically by an args object that raises after storing;
    #     compared with the model under Shape.asyncExc (finding C14-F3 while the swap stands before the try)
    for drv in ("generic", "iosxe"):
        for gap, ops in ((1, [{"op": "send_and_read", "ov": 3, "rd": 1.5}, {"op": "send_command", "ov": 0.5}]),
                         (2, [{"op": "send_and_read", "rd": 0.5}, {"op": "send_and_read", "ov": 1, "rd": 7.5}, {"op": "send_and_read", "rd": "omit"}]),
                         (0, [{"op": "send_and_read", "ov": 3, "rd": 1.5}])):
            cases.append(mk(drv, "sync", ops, push=(drv == "iosxe"), gap=gap))
    cases += history_cases(rng, ck.seed, stacks, tier)
    return cases + timer_cases()


SETS = [("timeout_transport", 60), ("timeout_transport", 0), ("timeout_transport", 2.5), ("timeout_ops", 60), ("timeout_ops", 0.5),
        ("timeout_socket", 5)]


def small_ops():
    P = {"contains": "r1#", "complete": True, "name": "P"}
    return [{"op": "send_and_read", "rd": "omit"}, {"op": "send_and_read", "rd": 2, "ov": 1}, {"op": "send_and_read", "rd": 0},
            with_override(rcb_templates()[0], 4.5), {"op": "read_callback", "init": True, "rt": "omit", "cbs": [P]},
            {"op": "send_command", "ov": 0.5}, {"op": "send_interactive", "ov": 7.5}]


def history_cases(rng, seed, stacks, tier):
    """multi-step histories around the per-call overrides:
    (7) the user reconfigures the connection through the public setters (timeout_ops / timeout_transport / timeout_socket)
        BETWEEN per-call-override operations: every (operation, setter, operation) triple of a reduced operation set, every
        second one with an injected failure in the last operation;
    (8) B.commandeer(A) with different configured timeouts, then every operation template on B and on A, every override
        value in rotation, five outcomes; and short mixed sequences on both drivers.  Observed: both drivers."""
    out = []
    small = small_ops()
    n = 0
    for drv in ("generic", "iosxe"):
        for stack in stacks:
            for a in small:
                for attr, val in SETS:
                    for b in small:
                        n += 1
                        faults = []
                        if n % 2:
                            exc, soft = EXCS[n % 3]
                            faults = [{"at_read": 3 + n % 7, "exc": exc, "soft": soft}]
                        out.append(mk(drv, stack, [a, {"op": "set", "attr": attr, "value": val}, b], faults, push=bool(n % 3 == 0)))
    outcomes = [[], [{"at_read": 1, "exc": "timeout", "soft": True}], [{"at_read": 2, "exc": "conn", "soft": False}],
                [{"at_read": 1, "exc": "other", "soft": True}], [{"at_read": 3, "exc": "timeout_close", "soft": False}]]
    for stack in stacks:
        for drv_a, drv_b in (("generic", "generic"), ("generic", "iosxe"), ("iosxe", "generic")):
            for on, drv in (("B", drv_b), ("A", drv_a)):
                for i, tpl in enumerate(templates(drv)):
                    spec = dict(with_override(tpl, OV[(i + seed) % len(OV)]), on=on)
                    for j, faults in enumerate(outcomes if tier == "thorough" or on == "B" else outcomes[:2]):
                        out.append(mk(drv_a, stack, [spec], faults, push=bool((i + j) % 2), base=(30, 10),
                                      commandeer={"driver": drv_b, "base": [15, 30]}))
    for _ in range(150 if tier == "quick" else 2000):
        drv_a, drv_b = rng.choice([("generic", "generic"), ("generic", "iosxe")])
        ops = []
        for _ in range(rng.choice([2, 3])):
            on = rng.choice(["A", "B", "B"])
            if rng.random() < 0.25:
                attr, val = rng.choice(SETS)
                ops.append({"op": "set", "attr": attr, "value": val, "on": on})
            ops.append(dict(with_override(rng.choice(small), rng.choice(OV)), on=on))
        exc, soft = rng.choice(EXCS)
        out.append(mk(drv_a, rng.choice(stacks), ops, [{"at_read": rng.randint(1, 9), "exc": exc, "soft": soft}] if rng.random() < 0.5 else [],
                      push=rng.random() < 0.5, base=rng.choice([(30, 10), (30, 0), (0, 7)]),
                      commandeer={"driver": drv_b, "base": rng.choice([[15, 30], [30, 10], [0, 0]])}))
    return out


def signal_sweep(n=500):
    """main thread, real SIGALRM: send_and_read(timeout_ops=d) for d on a fine grid across the ~0.3 ms the call takes, so
    that the handler raises at many different points of the call.  -> (cases, ended in ScrapliTimeout, raised between two
    call sites, leaks as violation cases).  A hit of the swap->try window is timing: it cannot be replayed exactly, the
    deterministic witness of the same window is the emulated case family (6)."""
    rig = load_rig()
    timeouts = between = 0
    leaks = []
    for i in range(n):
        d = 0.00004 + i * 0.000001
        c = mk("generic", "sync", [{"op": "send_and_read", "ov": d, "rd": 1.5}], push=bool(i % 2))
        st = rig.run_case_sync(resolve(c))[0]
        if st["res"] == "t":
            timeouts += 1
            if not (st["log"] and st["log"][-1]["exc"]):
                between += 1
        if oracle_step(st):
            last = st["log"][-1] if st["log"] else None
            # the signature of the swap->try gap: ScrapliTimeout, no call site raised, the last site entered is send_return
            # (the read loop was not reached), only timeout_transport differs
            in_gap = (st["res"] == "t" and last is not None and last["site"] == "send_return" and not last["exc"]
                      and not any(x[0] in (OBS[0], OBS[3]) for x in oracle_step(st)))
            leaks.append({"case": c, "step": 0, "op": c["ops"][0], "result": st["exc_repr"], "diff": oracle_step(st),
                          "escape": {"site": "gap", "region": "gap", "exc": "t"} if in_gap else None,
                          "before": st["before"], "after": st["after"], "real_sigalrm": True})
    return n, timeouts, between, leaks


def paramiko_probe():
    """the real ParamikoTransport._set_timeout (never opened = no session): read_callback with and without initial_input.
    -> list of (what, before, after, raised by _set_timeout?)"""
    from scrapli.driver import GenericDriver
    from scrapli.driver.generic.base_driver import ReadCallback
    out = []
    for kw in ({"read_timeout": 4.5}, {"read_timeout": 0}, {"read_timeout": 4.5, "initial_input": "show version"}, {}):
        conn = GenericDriver(host="h", auth_bypass=True, transport="paramiko", timeout_ops=30, timeout_transport=7, auth_strict_key=False)
        if type(conn.transport).__name__ != "ParamikoTransport":
            return []
        hit = []
        orig = conn.transport._set_timeout

        def st(value, orig=orig, hit=hit):
            try:
                return orig(value)
            except BaseException as e:
                hit.append(type(e).__name__)
                raise
        conn.transport._set_timeout = st
        before = (conn.timeout_ops, conn.timeout_transport)
        try:
            conn.read_callback([ReadCallback(lambda d, o: None, contains="#", complete=True)], **kw)
            res = "returned"
        except Exception as e:
            res = type(e).__name__
        out.append((kw, res, before, (conn.timeout_ops, conn.timeout_transport), bool(hit)))
    return out


# ---------------------------------------------------------------- running
def load_rig():
    from harness import c14rig
    return c14rig


def run_real(cases):
    """-> list of step lists (or ('EXC', repr)); sync cases in-line, asyncio cases in one event loop"""
    rig = load_rig()
    out = [None] * len(cases)

    async def all_async():
        for i, c in enumerate(cases):
            if c["stack"] == "async":
                try:
                    out[i] = await rig.run_case_async(resolve(c))
                except Exception as e:  # harness trouble, not an observation
                    out[i] = ("EXC", repr(e))
    for i, c in enumerate(cases):
        if c["stack"] == "sync":
            try:
                if c.get("thread"):
                    box = []
                    th = threading.Thread(target=lambda: box.append(rig.run_case_sync(resolve(c))), daemon=True)
                    th.start()
                    th.join(20)
                    out[i] = box[0] if box else ("EXC", "worker thread did not finish in 20 s")
                else:
                    out[i] = rig.run_case_sync(resolve(c))
            except Exception as e:
                out[i] = ("EXC", repr(e))
    asyncio.run(all_async())
    rig.cleanup()
    return out


def ov_class(spec):
    if spec["op"] == "set":
        return "none"
    v = spec.get("rt", "omit") if spec["op"] == "read_callback" else spec.get("ov")
    if v is None or v == "omit":
        return "none"
    if v in ("equal", "bad"):
        return v
    return "zero" if v == 0 else ("fractional" if v != int(v) else "integer")


def evaluate(ck, case, steps, consts, mlines=None, count=True):
    """oracle + (if mline) correspondence for one executed case"""
    rc = resolve(case)
    swapped = False
    for idx, (spec, st) in enumerate(zip(rc["ops"], steps)):
        diff = oracle_step(st)
        vc = {"case": case, "step": idx, "op": spec, "result": st["exc_repr"] or "returned", "diff": diff, "escape": st["escape"],
              "before": st["before"], "after": st["after"]}
        if diff:
            what = (f"conn.{spec['attr']} = {spec['value']!r}" if spec["op"] == "set" else spec["op"]) + \
                (f" on driver {st.get('on')} after B.commandeer(A)" if case.get("commandeer") else "")
            ck.violation(vc, f"{what} ended ({st['exc_repr'] or 'returned'}) and left " +
                         "; ".join(f"{n}: expected {b!r}, is {a!r}" for n, b, a in diff), matcher)
        nf = oracle_in_force(spec, st, rc["base"][0])
        if nf:
            ck.violation(dict(vc, not_in_force=nf[:3]), f"{spec['op']}: timeout_ops override {spec.get('ov')!r} not in force at {nf[0]['site']}", None)
        swapped = swapped or any(not (e["ops"] == st["before"][3] and e["tr"] == st["before"][2]) for e in st["log"])
        if count:
            out = "ok" if st["res"] == "-" else st["res"][0]
            if st["res"] == "-" and any(e["site"] == "send_input" and e["flag"] for e in st["log"]):
                out = "failed-command"
            ck.dist[f"op={spec['op']}"] += 1
            ck.dist[f"override={ov_class(case['ops'][idx])}"] += 1
            ck.dist[f"outcome={ {'t': 'ScrapliTimeout', 'c': 'ConnectionError', 'p': 'PrivilegeError', 'y': 'TypeError', 'o': 'other-exception'}.get(out, out)}"] += 1
            if st["escape"]:
                ck.dist[f"raised-inside-swap={st['escape']['region']}/{st['escape']['site']}"] += 1
            elif st["res"] != "-" and st["log"] and st["log"][-1]["exc"]:
                ck.dist[f"raised-at={st['log'][-1]['site']}"] += 1
    if count:
        key = json.dumps(case, sort_keys=True)
        ck.case(key, nontrivial=swapped, sample={k: case[k] for k in ("driver", "stack", "push", "base", "ops", "faults", "commandeer") if k in case},
                tags=(f"stack={case['stack']}", f"driver={case['driver']}", f"ncalls={len(case['ops'])}", f"nfaults={len(case['faults'])}",
                      "session-push" if case.get("push") else "no-session", "timer" if case.get("timer") else "scripted",
                      "history=commandeer" if case.get("commandeer") else ("history=reconfigured" if any(o["op"] == "set" for o in case["ops"]) else "history=plain")))
    if mlines is not None:
        real = [enc_real(sts, rc, consts) for _, sts in segments(rc, steps)]
        mline = mlines
        # a REAL timer of the decorators expired during a scripted case (only under extreme machine load): the call ends in
        # ScrapliTimeout although no call site raised one (SIGALRM between two sites / asyncio cancellation converted by
        # timeout_wrapper).  The oracle above still applies; the trace is not compared.
        artefact = any(st["res"] == "t" and not (st["log"] and st["log"][-1]["exc"] == "t") for st in steps)
        if real == mline:
            ck.traces_validated += 1 if real else 0
        elif artefact:
            ck.extra["advisory_timer_artefacts"] = ck.extra.get("advisory_timer_artefacts", 0) + 1
        else:
            ck.disagree("TimeoutRestore model vs real drivers", {"case": case}, f"impl={real}\nmodel={mline}")


def run(tier, seed):
    ck = Check(PID, tier, seed, level="proof")
    ck.rule = ("cases = a real GenericDriver / IOSXEDriver / NetworkDriver (sync and asyncio) on a causal simulated IOS-XE device; "
               "1-3 calls per connection drawn from 20-26 operation templates (send_command(s)[_from_file], send_and_read with "
               "read_duration omitted/None/0/0.5/1/7.5/equal, send_interactive, send_config(s)[_from_file], read_callback with 6 "
               "callback set-ups incl. recursion, a check that raises, a callback that raises, a callback that never matches) x "
               "override values {None, equal, 0, 0.5, 1, 7.5, non-number} x an outcome injected at EVERY transport read and write "
               "index of the call (ScrapliTimeout, ScrapliConnectionError, a foreign exception) + failed commands, privilege "
               "errors, stop_on_failed aborts; plus real-timer cases (timeout_ops expiring during send_and_read/read_callback). "
               "Multi-step histories: the user reconfigures timeout_ops / timeout_transport / timeout_socket through the public setters "
               "between calls (all operation-setter-operation triples of a reduced set); B.commandeer(A) with different configured "
               "timeouts, then every template on B and on A (both drivers observed). Single calls are enumerated, sequences are drawn from the PRNG. Observed before/after each call: conn.timeout_ops, "
               "conn.timeout_transport, both *_args attributes, the value held by a transport session (_set_timeout). "
               "Non-trivial = a timeout was actually different from the configured one at some call site; distinct by the full case.")
    ck.trusted = ["Lean 4.33.0 kernel; axioms of every theorem audited ⊆ {propext, Classical.choice, Quot.sound}",
                  "tools/gen/c14.py (AST: restore-in-finally shape of the 6 swap sites, defaults, decorated methods, timeout_ops hand-offs, "
                  "attribute-assignment scan); cross-checked by the correspondence (the model runs with the extracted shape)",
                  "harness/c14rig.py (Sim transports, site-level probe hung on instance attributes), harness/simdevice.py"]
    ck.assumptions = ["exceptions are raised at call sites (reads, writes, hooks, callbacks); an asynchronous SIGALRM landing between two "
                      "statements of the swapped region is only covered by the real-timer cases (oracle), not by the model",
                      "a cancellation delivered at asyncio.sleep in read_callback is modelled as delivered at the next read (same region)",
                      "callbacks do not themselves assign conn.timeout_ops / conn.timeout_transport",
                      "transport._set_timeout does not raise (a closed paramiko/ssh2 session raises ScrapliConnectionNotOpened from the setter)"]
    ph, tph = {}, [time.time()]

    def phase(name):
        ph[name] = round(time.time() - tph[0], 1)
        tph[0] = time.time()
    ck.extra["phase_s"] = ph
    # 1 translate
    consts = None
    try:
        translate.translate(PID)
        from gen import c14 as g
        consts = g.extract()
        CONSTS.clear()
        CONSTS.update(consts)
    except Exception as e:
        ck.proof_broken("translator gen/c14.py", repr(e))
    if consts is not None:
        ck.extra["tree_shape(mod,chan,cb finally)"] = {k: list(v) for k, v in consts["shape"].items()}
    # 2 prove
    ck.prove("ScrapliProps.C14", lemma_files=["ScrapliProps/C14Lemmas.lean", "ScrapliModel/TimeoutRestore.lean"])
    if tier == "thorough":
        ck.leanchecker("ScrapliProps.C14")
    phase("translate+prove")
    # findings (status open: replay the witness; status fixed: suppress nothing)
    ff = VERIF / "findings" / "C14.json"
    if ff.exists():
        mine = json.load(open(ff))          # the owner's file is the authority for its ids until the lead has merged it
        ids = {f["id"] for f in mine}
        ck.findings = [f for f in ck.findings if f["id"] not in ids] + mine
    rig = load_rig()
    for f in ck.findings:
        if f.get("status") == "open":
            w = {k: f["witness"][k] for k in ("driver", "stack", "push", "base", "ops", "faults", "gap") if k in f["witness"]}
            st = asyncio.run(rig.run_case_async(resolve(w))) if w["stack"] == "async" else rig.run_case_sync(resolve(w))
            if any(oracle_step(s) for s in st):
                ck.known_finding(f["id"], f["what"])
    # the real paramiko transport class (no session): the push raises inside the swapping assignment
    try:
        for kw, res, before, after, in_push in paramiko_probe():
            ck.case(("paramiko", json.dumps(kw)), nontrivial=True, tags=("real-ParamikoTransport",))
            if before != after:
                ck.violation({"case": {"real_transport": "paramiko (never opened)", "call": "read_callback", "kwargs": kw}, "result": res,
                              "diff": [(OBS[1], before[1], after[1])] if before[0] == after[0] else [(OBS[0], before[0], after[0])],
                              "escape": {"site": "push", "region": "swap", "exc": "o9"} if (in_push and "initial_input" not in kw) else None},
                             f"read_callback({kw}) on an unopened ParamikoTransport ended ({res}) and left (timeout_ops, timeout_transport) {before} -> {after}", matcher)
    except Exception as e:
        ck.extra["paramiko_probe_error"] = repr(e)
    try:
        n, nt, nb, leaks = signal_sweep(500 if tier == "quick" else 4000)
        ck.extra["sigalrm_sweep"] = {"cases": n, "ended_in_ScrapliTimeout": nt, "raised_between_two_call_sites": nb,
                                     "left_a_timeout_behind": len(leaks), "samples": [{"timeout_ops": x["op"]["ov"], "diff": x["diff"]} for x in leaks[:3]]}
        for x in leaks:
            ck.violation(x, f"send_and_read(timeout_ops={x['op']['ov']}) ended ({x['result']}) under a real SIGALRM and left " +
                         "; ".join(f"{n_}: {b!r} -> {a!r}" for n_, b, a in x["diff"]), matcher)
    except Exception as e:
        ck.extra["sigalrm_sweep"] = {"error": repr(e)}
    # 3 cases
    cases = gen_cases(ck, tier, lambda c: rig.run_case_sync(resolve(c)))
    phase("generate(+dry runs)")
    # 4 real code
    results = run_real(cases)
    phase("real code")
    # 5 model (one batch)
    lines, spans = [], {}
    if consts is not None:
        for i, (c, st) in enumerate(zip(cases, results)):
            if isinstance(st, tuple) or c.get("timer") or c.get("commandeer"):
                continue            # (two drivers on one transport have two args objects: oracle only)
            ls = enc_lines(resolve(c), st, consts)
            spans[i] = (len(lines), len(lines) + len(ls))
            lines += ls
    mout = {}
    if lines:
        try:
            outs = run_model("C14", lines)
            mout = {i: outs[a:b] for i, (a, b) in spans.items()}
        except Exception as e:
            ck.proof_broken("model driver Drv/C14.lean", repr(e))
    phase("model")
    # 6 oracle + correspondence
    harness_trouble = 0
    for i, (c, st) in enumerate(zip(cases, results)):
        if isinstance(st, tuple):
            harness_trouble += 1
            ck.extra.setdefault("harness_trouble_samples", []).append({"case": c, "error": st[1]})
            continue
        evaluate(ck, c, st, consts, mout.get(i))
    ck.extra["harness_trouble"] = harness_trouble
    ck.extra["subsecond_read_duration_cases(transport timeout 0 during the call)"] = sum(
        1 for c, st in zip(cases, results) if not isinstance(st, tuple) for s in st for e in s["log"] if e["region"] == "chan" and e["tr"] == 0 and s["before"][2] != 0)
    phase("oracle+correspondence")
    # 7 something no longer checks but no failing input yet: widen the search (oracle only)
    if ck.broken and not ck.violations:
        t0 = time.time()
        while time.time() - t0 < (60 if tier == "quick" else 300) and not ck.violations:
            extra = []
            for _ in range(300):
                drv = ck.rng.choice(["generic", "iosxe", "network"])
                ops = [with_override(ck.rng.choice(templates(drv)), ck.rng.choice(OV)) for _ in range(ck.rng.choice([1, 2, 3]))]
                exc, soft = ck.rng.choice(EXCS)
                extra.append(mk(drv, ck.rng.choice(["sync", "async"]), ops, [{ck.rng.choice(["at_read", "at_write"]): ck.rng.randint(1, 12), "exc": exc, "soft": soft}],
                                push=ck.rng.random() < 0.5))
            extra += history_cases(ck.rng, ck.rng.randint(0, 5), ["sync", "async"], "quick")[::3]
            for c, st in zip(extra, run_real(extra)):
                if not isinstance(st, tuple):
                    evaluate(ck, c, st, consts, None)
    ck.exhaustive = True
    ck.extra["exhaustive_scope"] = ("every operation template x every override value (no fault); every template x "
                                    + ("every" if tier == "thorough" else "2 rotating") + " override value(s) x every transport read/write index x 3 exception classes, "
                                    "both stacks" + ("; all ordered pairs of 7 reduced operations x every read index x 3 classes" if tier == "thorough" else ""))
    if harness_trouble and not (ck.violations or ck.broken):
        ck.finish()
        return 2
    return ck.finish()


def replay(path):
    r = json.load(open(path))
    v = r.get("violation", {}).get("case") or {}
    case = v.get("case") or (r.get("no_longer_checks") or [{}])[0].get("case", {}).get("case")
    if not case:
        print("no case in replay file")
        return 2
    rig = load_rig()
    if case.get("real_transport"):
        bad = 0
        for kw, res, before, after, in_push in paramiko_probe():
            print(kw, "->", res, before, "->", after, "(raised by _set_timeout)" if in_push else "")
            bad += before != after
        return 1 if bad else 0
    try:
        from gen import c14 as g
        CONSTS.update(g.extract())
    except Exception:
        pass
    rc = resolve(case)
    steps = asyncio.run(rig.run_case_async(rc)) if rc["stack"] == "async" else rig.run_case_sync(rc)
    bad = 0
    print(json.dumps({k: case.get(k) for k in ("driver", "stack", "push", "base", "faults")}))
    for spec, st in zip(rc["ops"], steps):
        d = oracle_step(st) or [("override-not-in-force", spec.get("ov"), e["ops"]) for e in oracle_in_force(spec, st, rc["base"][0])[:1]]
        print(f"  {json.dumps(spec)}\n    -> {st['exc_repr'] or 'returned'}; before={st['before']} after={st['after']}" +
              ("".join(f"\n    VIOLATED {n}: {b!r} -> {a!r}" for n, b, a in d)))
        print("    sites: " + " ".join(f"{e['site']}[ops={e['ops']},tr={e['tr']}]{'!' + e['exc'] if e['exc'] else ''}" for e in st["log"][:40]))
        bad += bool(d)
    return 1 if bad else 0
