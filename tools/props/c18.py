"""C18 — the factory builds what direct construction builds; connections are isolated.
Lean: ScrapliModel/Factory.lean + FactoryHeap.lean, ScrapliProps/C18.lean.  Real code: Scrapli / AsyncScrapli and the
platform drivers are constructed in-process (no connection is opened); synthetic community platforms are injected
into sys.modules as scrapli_community.<vendor>.<os>."""
import copy, inspect, io, itertools, json, os, re, sys, tempfile, types
from unittest import mock
from vlib.common import Check, VERIF, run_model
import translate

PID = "C18"
CORE = ("arista_eos", "cisco_iosxe", "cisco_iosxr", "cisco_nxos", "juniper_junos")
# the oracle's own reading of "sync/async transport mix-up" (scrapli documentation: transports)
SYNC_TRANSPORTS = ("system", "telnet", "paramiko", "ssh2")
ASYNC_TRANSPORTS = ("asyncssh", "asynctelnet")
MISSING = "<missing>"


# ===================================================================== encoding for the model driver
def hx(s):
    b = s.encode("utf-8", "surrogatepass")
    return b.hex() if b else "-"


def unhx(s):
    return "" if s == "-" else bytes.fromhex(s).decode("utf-8", "surrogatepass")


class Registry:
    """names for the objects of one case (identity matters for callables, BytesIO, dicts of levels, classes)"""

    def __init__(self):
        self.by_id, self.by_name = {}, {}

    def name(self, o, prefix):
        if id(o) not in self.by_id:
            n = f"{prefix}{len(self.by_id)}"
            self.by_id[id(o)] = n
            self.by_name[n] = o
        return self.by_id[id(o)]


def enc_val(v, reg):
    if v is None:
        return "N"
    if v is True or v is False:
        return "B1" if v else "B0"
    if type(v) is int:
        return f"I{v}"
    if type(v) is float:
        return "F" + hx(repr(v))
    if type(v) is str:
        return "S" + hx(v)
    if type(v) is list and all(type(x) is str for x in v) and not v:
        return "L."
    if type(v) is dict and not v:
        return "D."
    if callable(v) and not isinstance(v, type):
        return "C" + hx(reg.name(v, "f"))
    return "O" + hx(reg.name(v, "o"))


def dec_val(s, reg):
    t, b = s[0], s[1:]
    if t == "N":
        return None
    if t == "B":
        return b == "1"
    if t == "I":
        return int(b)
    if t == "F":
        return float(unhx(b))
    if t == "S":
        return unhx(b)
    if t == "L":
        return [] if b == "." else [unhx(x) for x in b.split(",")]
    if t == "D":
        return {} if b == "." else dict((unhx(k), unhx(v)) for k, v in (e.split(":") for e in b.split(",")))
    return reg.by_name[unhx(b)]


def enc_kw(d, reg):
    return ";".join(f"{hx(k)}={enc_val(v, reg)}" for k, v in d.items()) if d else "."


def dec_kw(s, reg):
    return {} if s == "." else {unhx(k): dec_val(v, reg) for k, v in (e.split("=", 1) for e in s.split(";"))}


def same_value(a, b, identity):
    """equality that tells False from 0 from 0.0; objects the user supplied must arrive by identity, objects that come
    from a platform definition arrive as (deep) copies and are compared structurally"""
    if a is b:
        return True
    if type(a) is not type(b):
        return False
    if isinstance(a, (bool, int, float, str)):
        return a == b
    if isinstance(a, (list, dict)) and not a and not b:
        return True   # the model carries an empty list / dict by value
    if identity:
        return False
    return _val_snap(a) == _val_snap(b)


def same_kwargs(a, b, user_keys):
    return a.keys() == b.keys() and all(same_value(a[k], b[k], k in user_keys) for k in a)


def enc_dt(dt, reg):
    if isinstance(dt, str):
        return "n" + hx(dt)
    return "c" + hx(reg.name(dt["sync"], "o")) + "+" + hx(reg.name(dt["async"], "o"))


def enc_platform(p, reg):
    """SCRAPLI_PLATFORM dict -> model encoding (the documented structure: driver_type, defaults, variants)"""
    if "variants" not in p:
        vs = "-"
    elif not p["variants"]:
        vs = "."
    else:
        parts = []
        for n, v in p["variants"].items():
            v = dict(v)
            dt = v.pop("driver_type", None)
            parts.append(f"{hx(n)}^{enc_dt(dt, reg) if dt else '-'}^{enc_kw(v, reg)}")
        vs = "&".join(parts)
    return f"P!{enc_dt(p['driver_type'], reg)}!{enc_kw(p['defaults'], reg)}!{vs}"


# ===================================================================== synthetic community platforms
def so(conn):  # sync_on_open
    return None


def sc(conn):
    return None


async def ao(conn):
    return None


async def ac(conn):
    return None


def user_cb(conn):
    return None


def user_cb2(conn):
    return None


def _levels():
    from scrapli.driver.network.base_driver import PrivilegeLevel
    return {
        "exec": PrivilegeLevel(r"^[a-z0-9]{1,32}>$", "exec", "", "", "", False, ""),
        "privilege_exec": PrivilegeLevel(r"^[a-z0-9]{1,32}#$", "privilege_exec", "exec", "disable", "enable", True, r"^[pP]assword:\s?$",
                                         not_contains=["(conf"]),
        "configuration": PrivilegeLevel(r"^[a-z0-9]{1,32}\(conf\)#$", "configuration", "privilege_exec", "end", "conf t", False, ""),
    }


def make_synthetic():
    """name -> SCRAPLI_PLATFORM (fresh objects every call)"""
    from scrapli.driver import AsyncGenericDriver, AsyncNetworkDriver, GenericDriver, NetworkDriver

    class CustomSync(NetworkDriver):
        pass

    class CustomAsync(AsyncNetworkDriver):
        pass

    class VarSync(GenericDriver):
        pass

    class VarAsync(AsyncGenericDriver):
        pass

    hooks = {"sync_on_open": so, "async_on_open": ao, "sync_on_close": sc, "async_on_close": ac}
    plats = {
        "acme_netos": {
            "driver_type": "network",
            "defaults": {"privilege_levels": _levels(), "default_desired_privilege_level": "privilege_exec", **hooks,
                         "failed_when_contains": ["% Bad", "% Worse"], "textfsm_platform": "acme_netos", "genie_platform": "",
                         "auth_strict_key": False, "timeout_ops": 7, "comms_return_char": "\r\n"},
            "variants": {
                "v1": {"default_desired_privilege_level": "configuration", "textfsm_platform": "", "timeout_ops": 0},
                "v2": {"driver_type": {"sync": CustomSync, "async": CustomAsync}, "failed_when_contains": ["% v2"],
                       "sync_on_open": None, "async_on_open": None},
            },
        },
        "acme_gen": {
            "driver_type": "generic",
            "defaults": {"comms_prompt_pattern": r"^\(acme\) >$", **hooks, "auth_bypass": True, "port": 2022, "transport": "telnet"},
            "variants": {"v1": {"comms_prompt_pattern": r"^X>$", "auth_bypass": False, "sync_on_close": None, "async_on_close": None},
                         "v3": {"driver_type": {"sync": VarSync, "async": VarAsync}}},
        },
        "acme_custom_thing": {   # three-part name: scrapli_community.acme.custom.thing; no "variants" key
            "driver_type": {"sync": CustomSync, "async": CustomAsync},
            "defaults": {"privilege_levels": _levels(), "default_desired_privilege_level": "exec",
                         "sync_on_open": None, "async_on_open": None, "sync_on_close": sc, "async_on_close": ac},
        },
        "single": {            # one-part name: scrapli_community.single
            "driver_type": "network",
            "defaults": {"privilege_levels": _levels(), "default_desired_privilege_level": "exec", **hooks, "failed_when_contains": []},
            "variants": {},
        },
    }
    return plats


EMPTY_MODULES = ("acme_empty", "acme_noattr")   # SCRAPLI_PLATFORM == {} / attribute missing
UNKNOWN = ("nope", "acme_missing", "", "_", "cisco_iosxe_", "CISCO_IOSXE", "cisco", "a b", "x" * 300, "ß_é", "arista.eos", "juniper")


class Community:
    """context manager that injects the synthetic platforms (and optionally hides the whole package)"""

    def __init__(self, plats, hide_package=False):
        self.plats, self.hide = plats, hide_package
        self.saved = {}

    def _set(self, name, mod):
        if name not in self.saved:
            self.saved[name] = sys.modules.get(name, MISSING)
        sys.modules[name] = mod

    def __enter__(self):
        import scrapli_community  # noqa: the real package must be importable for the "installed" runs
        if self.hide:
            self._set("scrapli_community", None)
        for name, plat in self.plats.items():
            self._inject(name, {"SCRAPLI_PLATFORM": plat})
        self._inject("acme_empty", {"SCRAPLI_PLATFORM": {}})
        self._inject("acme_noattr", {})
        return self

    def _inject(self, name, attrs):
        parts = name.split("_")
        for i in range(1, len(parts) + 1):
            mn = "scrapli_community." + ".".join(parts[:i])
            if i < len(parts):
                if mn not in sys.modules or mn in self.saved:
                    m = types.ModuleType(mn)
                    m.__path__ = []
                    self._set(mn, m)
            else:
                m = types.ModuleType(mn)
                m.__path__ = []
                for k, v in attrs.items():
                    setattr(m, k, v)
                self._set(mn, m)

    def __exit__(self, *a):
        for name, old in self.saved.items():
            if old is MISSING:
                sys.modules.pop(name, None)
            else:
                sys.modules[name] = old


def module_name(platform):
    return "scrapli_community." + platform.replace("_", ".")


def env_for(platform, plats, hidden, reg):
    """the community environment as far as `platform` can see it, for the model"""
    out = ["0" if hidden else "1"]
    if isinstance(platform, str):
        mn = module_name(platform)
        m = sys.modules.get(mn)
        kind = None
        if m is not None:
            kind = "E" if not getattr(m, "SCRAPLI_PLATFORM", {}) else enc_platform(m.SCRAPLI_PLATFORM, reg)
        else:
            import importlib.util
            try:
                found = importlib.util.find_spec(mn) is not None
            except (ImportError, ValueError, AttributeError):
                found = False
            if found:
                import importlib
                m = importlib.import_module(mn)
                kind = "E" if not getattr(m, "SCRAPLI_PLATFORM", {}) else enc_platform(m.SCRAPLI_PLATFORM, reg)
        if kind is not None:
            out.append(f"{hx(mn)}~{kind}")
    return "|".join(out)


# ===================================================================== argument pools
def pools(tmpfile):
    from scrapli.driver.network.base_driver import PrivilegeLevel
    lv = {"only": PrivilegeLevel(r"^x>$", "only", "", "", "", False, "")}
    bio = io.BytesIO()
    nums = [15.0, 0, 0.0, 5, 600.5]
    files = [True, False, "", "/nonexistent/c18", tmpfile]
    return {
        "host": ["r1", " r1 ", "10.0.0.1", ""],
        "privilege_levels": [lv, {}],
        "default_desired_privilege_level": ["exec", "", "configuration"],
        "port": [22, 0, 2222, 23],
        "auth_username": ["user", ""],
        "auth_password": ["pw", ""],
        "auth_private_key": ["", tmpfile, "/nonexistent/c18key"],
        "auth_private_key_passphrase": ["pp", ""],
        "auth_strict_key": [True, False, 0],
        "auth_bypass": [True, False],
        "timeout_socket": nums, "timeout_transport": nums, "timeout_ops": nums,
        "comms_return_char": ["\n", "\r\n", ""],
        "comms_roughly_match_inputs": [True, False],
        "ssh_config_file": files, "ssh_known_hosts_file": files,
        "on_init": [user_cb, 0], "on_open": [user_cb, user_cb2], "on_close": [user_cb2, ""],
        "transport": ["system", "telnet", "paramiko", "ssh2", "asyncssh", "asynctelnet", "", "bogus"],
        "transport_options": [{}, {"open_cmd": ["-o", "X=1"]}],
        "channel_log": [True, False, "", bio, "/tmp/c18-channel.log"],
        "channel_log_mode": ["write", "append", "", "WRITE"],
        "channel_lock": [True, False],
        "logging_uid": ["uid1", ""],
        "auth_secondary": ["sec", ""],
        "failed_when_contains": [["% x", "y"], []],
        "textfsm_platform": ["tplat", ""],
        "genie_platform": ["gplat", ""],
        # not parameters of the factory: they travel through **kwargs
        "auth_telnet_login_pattern": ["login:", "", None],
        "auth_password_pattern": ["pass:", ""],
        "auth_passphrase_pattern": ["phrase:", ""],
        "comms_prompt_pattern": [r"^P>$", ""],
        "bogus_keyword": [1, None, False],
    }


FALSY = {False, 0, 0.0, ""}


def is_falsy_non_none(v):
    return v is not None and not v


# what "takes effect" means for an argument: (where the value shows on the object, expected value)
def effect_of(name, v, conn, transport):
    bt, bc = conn._base_transport_args, conn._base_channel_args
    ssh_lib = transport in ("asyncssh", "ssh2", "paramiko")
    table = {
        "port": lambda: (bt.port, v),
        "auth_username": lambda: None if (v == "" and ssh_lib) else (conn.auth_username, v),
        "auth_password": lambda: (conn.auth_password, v),
        "auth_private_key_passphrase": lambda: (conn.auth_private_key_passphrase, v),
        "auth_strict_key": lambda: (conn.auth_strict_key, v),
        "auth_bypass": lambda: (conn.auth_bypass, v),
        "timeout_socket": lambda: (bt.timeout_socket, v),
        "timeout_transport": lambda: (bt.timeout_transport, v),
        "timeout_ops": lambda: (bc.timeout_ops, v),
        "comms_return_char": lambda: (bc.comms_return_char, v),
        "comms_roughly_match_inputs": lambda: (bc.comms_roughly_match_inputs, v),
        "on_init": lambda: (conn.on_init, v), "on_open": lambda: (conn.on_open, v), "on_close": lambda: (conn.on_close, v),
        "transport": lambda: (conn.transport_name, v),
        "transport_options": lambda: (bt.transport_options, v or {}),
        "channel_log": lambda: (bc.channel_log, v),
        "channel_log_mode": lambda: (bc.channel_log_mode, {"write": "w", "append": "a"}.get(v.lower(), MISSING)),
        "channel_lock": lambda: (bc.channel_lock, v),
        "logging_uid": lambda: (bt.logging_uid, v),
        "auth_secondary": lambda: (getattr(conn, "auth_secondary", MISSING), v),
        "failed_when_contains": lambda: (getattr(conn, "failed_when_contains", MISSING), v or []),
        "textfsm_platform": lambda: (getattr(conn, "textfsm_platform", MISSING), v),
        "genie_platform": lambda: (getattr(conn, "genie_platform", MISSING), v),
        "privilege_levels": lambda: (getattr(conn, "privilege_levels", MISSING), v),
        "default_desired_privilege_level": lambda: (getattr(conn, "default_desired_privilege_level", MISSING), v),
        "host": lambda: (bt.host, v),
    }
    f = table.get(name)
    return f() if f else None


# ===================================================================== snapshots
def lvl_snap(pl):
    return tuple((s, tuple(getattr(pl, s)) if s == "not_contains" else getattr(pl, s)) for s in pl.__slots__)


def privs_snap(d):
    return tuple((k, lvl_snap(v)) for k, v in d.items())


def dc_fields(o):
    import dataclasses
    return tuple((f.name, _val_snap(getattr(o, f.name))) for f in dataclasses.fields(o)) if o is not None else None


def _val_snap(v):
    """structural for plain data, identity for everything else"""
    if isinstance(v, (bool, int, float, str, type(None))):
        return (type(v).__name__, v)
    if isinstance(v, (list, tuple)):
        return ("seq", tuple(_val_snap(x) for x in v))
    if isinstance(v, (set, frozenset)):
        return ("set", tuple(sorted(map(repr, v))))
    if isinstance(v, dict):
        return ("dict", tuple((repr(k), _val_snap(x)) for k, x in v.items()))
    if hasattr(v, "__slots__") and hasattr(v, "escalate_auth"):
        return ("level", lvl_snap(v))
    return ("id", id(v))


def conn_snap(c):
    """every constructor-derived attribute of a driver"""
    s = {"class": id(type(c)), "classname": type(c).__name__}
    for a in ("host", "port", "auth_username", "auth_password", "auth_private_key", "auth_private_key_passphrase",
              "auth_strict_key", "auth_bypass", "ssh_config_file", "ssh_known_hosts_file", "transport_name",
              "auth_secondary", "textfsm_platform", "genie_platform", "default_desired_privilege_level",
              "failed_when_contains", "on_init", "on_open", "on_close"):
        s[a] = _val_snap(getattr(c, a, MISSING))
    s["comms_prompt_pattern"] = _val_snap(getattr(c, "comms_prompt_pattern", MISSING))
    s["base_transport_args"] = dc_fields(c._base_transport_args)
    s["base_channel_args"] = dc_fields(c._base_channel_args)
    s["plugin_transport_args"] = dc_fields(c._plugin_transport_args)
    s["transport_class"] = id(type(c.transport))
    s["channel_class"] = id(type(c.channel))
    s["logger_extra"] = _val_snap(getattr(c.logger, "extra", None))
    pl = getattr(c, "privilege_levels", MISSING)
    s["privilege_levels"] = privs_snap(pl) if isinstance(pl, dict) else _val_snap(pl)
    s["priv_graph"] = _val_snap({k: set(v) for k, v in getattr(c, "_priv_graph", {}).items()})
    s["generic_driver_mode"] = getattr(c, "_generic_driver_mode", MISSING)
    return s


def exc_sig(e):
    msg = re.sub(r"0x[0-9a-fA-F]+", "0x", str(e))
    # which of several unexpected keywords CPython names depends on dict order, which is not observable otherwise
    msg = re.sub(r"(got an unexpected keyword argument) '[^']*'", r"\1", msg)
    return (type(e).__name__, msg[:400])


def build(fn, kwargs, cb_log=None):
    """construct; returns ('ok', conn) or ('exc', exception)"""
    import warnings
    try:
        with warnings.catch_warnings():
            warnings.simplefilter("ignore")
            return "ok", fn(**kwargs)
    except Exception as e:  # noqa
        return "exc", e


# ===================================================================== the oracle's own reading of a community platform
def oracle_community(plat, variant, is_async, driver_map):
    d = copy.deepcopy(plat)
    kw = dict(d["defaults"])
    spec = d["driver_type"]
    if variant:
        v = dict(d["variants"][variant])
        dt = v.pop("driver_type", None)
        if dt:
            spec = dt
        kw.update(v)
    cls = driver_map[spec] if isinstance(spec, str) else spec["async" if is_async else "sync"]
    mine, other = ("async", "sync") if is_async else ("sync", "async")
    kw.pop(other + "_on_open"), kw.pop(other + "_on_close")
    kw["on_open"], kw["on_close"] = kw.pop(mine + "_on_open"), kw.pop(mine + "_on_close")
    return cls, kw


# ===================================================================== one factory case
class Recorded(Exception):
    pass


def record_factory(factory, call, candidates):
    """run the real factory with every candidate class's __init__ replaced by a recorder"""
    got = {}

    def rec(self, *a, **kw):
        got["cls"], got["args"], got["kw"] = type(self), a, kw
        raise Recorded()

    patches = [mock.patch.object(c, "__init__", rec) for c in candidates]
    for p in patches:
        p.start()
    try:
        st, r = build(factory, call)
    finally:
        for p in patches:
            p.stop()
    if st == "exc" and isinstance(r, Recorded):
        return "ok", got
    return st, r


def _case_parts(case, plats):
    from scrapli import AsyncScrapli, Scrapli
    is_async = case["async"]
    factory = AsyncScrapli if is_async else Scrapli
    platform, args = case["platform"], dict(case["args"])
    call = {"platform": platform, **args}
    if case["variant"] is not MISSING:
        call["variant"] = case["variant"]
    is_core = isinstance(platform, str) and platform in CORE
    plat = plats.get(platform) if isinstance(platform, str) and not case["hidden"] else None
    if plat is None and isinstance(platform, str) and not case["hidden"] and platform in REAL_COMMUNITY:
        plat = sys.modules[module_name(platform)].SCRAPLI_PLATFORM
    return is_async, factory, platform, args, call, is_core, plat


def factory_oracle(case, plats):
    """the property evaluated on the real code for one factory call (never consults the model).
    returns dict(viols=[(what, details)], tags, nontrivial, advisory)"""
    from scrapli.exceptions import ScrapliException
    is_async, factory, platform, args, call, is_core, plat = _case_parts(case, plats)
    variant, transport = call.get("variant"), args.get("transport")
    out = {"viols": [], "advisory": None}
    with Community(plats, hide_package=case["hidden"]):
        fst, fres = build(factory, call)
        out["outcome"] = ("ok", type(fres).__name__) if fst == "ok" else ("exc",) + exc_sig(fres)
        supplied = {k: v for k, v in args.items() if v is not None or k not in FACTORY_PARAMS}
        unknown = (not isinstance(platform, str)) or (not is_core and plat is None)
        # direct construction of the same thing: the class and the platform's own keyword arguments
        dcls, ckw, outside = None, {}, False
        if not unknown:
            try:
                if is_core:
                    dcls = ORACLE_CORE[(platform, is_async)]
                else:
                    dcls, ckw = oracle_community(plat, variant, is_async, ORACLE_DRIVER_MAP[is_async])
            except KeyError:
                outside = True   # outside the documented structure (unknown variant, no "variants" key)
        # the transport in effect: the user's, else the platform's, else the drivers' documented default "system"
        eff = transport if transport is not None else ckw.get("transport", "system")
        mixup = isinstance(eff, str) and eff in (SYNC_TRANSPORTS if is_async else ASYNC_TRANSPORTS)
        out["nontrivial"] = bool(supplied.keys() - {"host"}) or unknown or mixup
        tags = [f"stack={'async' if is_async else 'sync'}", f"nargs={min(len(supplied), 12)}",
                "platform=" + ("core" if is_core else "unknown" if unknown else "community"),
                "outcome=" + ("ok" if fst == "ok" else type(fres).__name__)]
        if any(is_falsy_non_none(v) for k, v in supplied.items() if k in FACTORY_PARAMS):
            tags.append("has-falsy")
        if any(v is None for v in args.values()):
            tags.append("has-None")
        if variant:
            tags.append("variant")
        if mixup:
            tags.append("mixup" if transport is not None else "mixup-by-default")
        out["tags"] = tuple(tags)

        def bad(what, **more):
            out["viols"].append((what, more))

        if unknown or (mixup and transport is not None and not outside):
            if not (fst == "exc" and isinstance(fres, ScrapliException)):
                bad("unknown platform / transport mix-up was not rejected with a scrapli exception",
                    got=exc_sig(fres) if fst == "exc" else "constructed " + type(fres).__name__)
            return out
        if mixup and not outside and fst == "ok":
            # no transport given: the mix-up is caught by the driver's constructor, after its other argument checks
            bad("transport mix-up through the default transport was not rejected", got="constructed " + type(fres).__name__)
            return out
        if outside:
            out["advisory"] = ("unknown_variant", None if (fst == "exc" and isinstance(fres, ScrapliException)) else
                               (type(fres).__name__ if fst == "exc" else "constructed"))
            return out
        dst, dres = build(dcls, {**ckw, **supplied})
        if fst != dst:
            bad("factory and direct construction differ: one raised, the other did not",
                factory=exc_sig(fres) if fst == "exc" else "ok", direct=exc_sig(dres) if dst == "exc" else "ok")
            return out
        if fst == "exc":
            if exc_sig(fres) != exc_sig(dres):
                bad("factory and direct construction raise different exceptions", factory=exc_sig(fres), direct=exc_sig(dres))
            return out
        if type(fres) is not dcls:
            bad("factory built a different class", factory=type(fres).__name__, direct=dcls.__name__)
            return out
        fs, ds = conn_snap(fres), conn_snap(dres)
        diff = [k for k in fs if fs[k] != ds[k]]
        if diff:
            bad("factory-built and directly built drivers differ in " + ",".join(diff),
                factory={k: repr(fs[k])[:200] for k in diff}, direct={k: repr(ds[k])[:200] for k in diff})
        # every supplied argument takes effect
        tn = fres.transport_name
        for k, v in supplied.items():
            e = effect_of(k, v, fres, tn)
            if e is None or k == "host":
                continue
            got, want = e
            by_identity = callable(want) or isinstance(want, io.BytesIO) or (isinstance(want, dict) and want and k == "privilege_levels")
            if not (got is want if by_identity else (type(got) is type(want) and got == want)):
                bad(f"supplied argument {k} did not take effect", argument=k, got=repr(got)[:200], want=repr(want)[:200])
        # community defaults apply where the user said nothing
        for k, v in ckw.items():
            if k in supplied or k == "privilege_levels" or v is None:
                continue
            e = effect_of(k, v, fres, tn)
            if e is not None:
                got, want = e
                if not (got is want or (type(got) is type(want) and got == want)):
                    bad(f"community default {k} did not take effect", argument=k, got=repr(got)[:200], want=repr(want)[:200])
    return out


def shrink_factory(case, what, plats, budget=60):
    """greedy: drop arguments (then the variant) while the same violation persists"""
    cur = {**case, "args": dict(case["args"])}
    for k in list(cur["args"]):
        if budget <= 0:
            break
        if k == "host":
            continue
        trial = {**cur, "args": {x: y for x, y in cur["args"].items() if x != k}}
        budget -= 1
        try:
            if any(w == what for w, _ in factory_oracle(trial, plats)["viols"]):
                cur = trial
        except Exception:
            pass
    if cur["variant"] is not MISSING:
        trial = {**cur, "variant": MISSING}
        try:
            if any(w == what for w, _ in factory_oracle(trial, plats)["viols"]):
                cur = trial
        except Exception:
            pass
    return cur


def factory_case(ck, case, plats, tmpfile, lines, pending, matcher):
    """case = dict(async, platform, variant(MISSING|..), args{name:value}, hidden)"""
    is_async, factory, platform, args, call, is_core, plat = _case_parts(case, plats)
    reg = Registry()
    desc = describe(case)
    with Community(plats, hide_package=case["hidden"]):
        # ---- the model's request + the recorded real run (correspondence on: class, kwargs | exception class)
        custom = []
        for p in list(plats.values()) + ([plat] if plat is not None and all(plat is not q for q in plats.values()) else []):
            for dt in [p["driver_type"]] + [v.get("driver_type") for v in p.get("variants", {}).values()]:
                if isinstance(dt, dict):
                    custom += [dt["sync"], dt["async"]]
        from scrapli.driver import AsyncGenericDriver, AsyncNetworkDriver, GenericDriver, NetworkDriver
        from scrapli.factory import AsyncScrapli as _A, Scrapli as _S
        cands = set(_S.CORE_PLATFORM_MAP.values()) | set(_A.CORE_PLATFORM_MAP.values()) | {NetworkDriver, GenericDriver, AsyncNetworkDriver, AsyncGenericDriver} | set(custom)
        rst, rres = record_factory(factory, call, cands)
        for c in cands:
            reg.name(c, "o")
        reg_names = {c.__name__: c for c in cands}
        env = env_for(platform, plats, case["hidden"], reg) if not is_core else ("0" if case["hidden"] else "1")
        lines.append(f"fac {1 if is_async else 0} {enc_kw(call, reg)} {env}")
        entry = ["fac", desc, reg, rst, rres, reg_names, {k for k, v in call.items() if v is not None}, None]
        pending.append(entry)
    # ---- the oracle on the real factory
    res = factory_oracle(case, plats)
    entry[7] = res["outcome"]
    ck.case(("fac", desc), nontrivial=res["nontrivial"], sample=desc, tags=res["tags"])
    if res["advisory"]:
        ck.extra["advisory_unknown_variant_cases"] = ck.extra.get("advisory_unknown_variant_cases", 0) + 1
        if res["advisory"][1]:
            ck.extra["advisory_unknown_variant_outcome"] = res["advisory"][1]
    if res["viols"] and not ck.violations:
        small = shrink_factory(case, res["viols"][0][0], plats)
        r2 = factory_oracle(small, plats)
        if r2["viols"]:
            res, desc = r2, describe(small)
    for what, more in res["viols"]:
        ck.violation({"kind": "factory", **desc, **more}, what, matcher)


def describe(case):
    def r(v):
        if isinstance(v, (bool, int, float, str, type(None))):
            return v
        if isinstance(v, list):
            return list(v)
        if isinstance(v, dict) and all(isinstance(x, (str, list)) for x in v.values()):
            return {k: x for k, x in v.items()}
        if isinstance(v, dict):
            return "<levels:" + ",".join(v) + ">"
        return "<" + getattr(v, "__name__", type(v).__name__) + ">"
    d = {"async": case["async"], "platform": r(case["platform"]), "args": {k: r(v) for k, v in case["args"].items()}}
    if case["variant"] is not MISSING:
        d["variant"] = r(case["variant"])
    if case["hidden"]:
        d["community_hidden"] = True
    return d


def undescribe(d, tmpfile):
    """rebuild a case from its description (replay / corpus)"""
    P = pools(tmpfile)
    byname = {}
    for k, vs in P.items():
        for v in vs:
            if not isinstance(v, (bool, int, float, str, type(None), list)) and not (isinstance(v, dict) and all(isinstance(x, (str, list)) for x in v.values())):
                byname.setdefault(k, {})[describe({"async": 0, "platform": "", "args": {k: v}, "variant": MISSING, "hidden": False})["args"][k]] = v
    args = {}
    for k, v in d.get("args", {}).items():
        if isinstance(v, str) and v.startswith("<") and k in byname and v in byname[k]:
            args[k] = byname[k][v]
        else:
            args[k] = v
    return {"async": bool(d.get("async")), "platform": d.get("platform"), "args": args,
            "variant": d["variant"] if "variant" in d else MISSING, "hidden": bool(d.get("community_hidden"))}


def check_fac_reply(ck, desc, reg, rst, rres, reg_names, user_keys, outcome, reply, search):
    """correspondence: model reply vs recorded real run"""
    from scrapli.exceptions import ScrapliException
    if rst == "ok":
        real = ("ok", rres["cls"], rres["kw"])
        if rres["args"]:
            ck.disagree("Factory model vs factory.py", desc, "the factory passed positional arguments to the driver")
            return
    else:
        real = ("err", type(rres).__name__)
    parts = reply.split(" ")
    if parts[0] == "ok":
        cls = reg.by_name.get(unhx(parts[1])) or reg_names.get(unhx(parts[1]))
        kw = dec_kw(parts[2], reg)
        agree = real[0] == "ok" and real[1] is cls and same_kwargs(real[2], kw, user_keys)
    elif parts[0] == "err":
        agree = real[0] == "err" and real[1] == parts[1]
    else:
        agree = False
    if agree and parts[0] == "ok" and len(parts) > 3 and parts[3] in "01" and outcome is not None:
        # the constructor-level transport check (Driver.__init__ / AsyncDriver.__init__) on the effective transport
        # (BaseDriver.__init__ runs first: another constructor error may come before the transport check, never after it)
        real_rejects = outcome[0] == "exc" and outcome[1] == "ScrapliValueError" and "provided transport is *not*" in outcome[2]
        if (parts[3] == "1" and outcome[0] != "exc") or (parts[3] == "0" and real_rejects):
            agree = False
            reply = f"{reply[:200]} (constructor transport check: impl rejects={real_rejects})"
    if agree:
        ck.traces_validated += 1
    else:
        shown = ("ok", real[1].__name__, {k: repr(v)[:60] for k, v in real[2].items()}) if real[0] == "ok" else real
        ck.disagree("Factory model vs factory.py", desc, f"impl={shown} model={reply[:300]}")
        search.append(desc)


# ===================================================================== isolation
def core_modules():
    import importlib
    return {p: importlib.import_module(f"scrapli.driver.core.{p}.base_driver") for p in CORE}


def global_snap(plats):
    """module-level platform definitions + the community definitions + the shared dummy level"""
    import scrapli.driver.network.base_driver as nb
    s = {}
    for p, m in core_modules().items():
        s["PRIVS:" + p] = privs_snap(m.PRIVS)
        s["FWC:" + p] = tuple(m.FAILED_WHEN_CONTAINS)
    s["network.PRIVS"] = privs_snap(nb.PRIVS)
    s["DUMMY"] = lvl_snap(nb.DUMMY_PRIV_LEVEL)
    for n, p in plats.items():
        s["SCRAPLI_PLATFORM:" + n] = _val_snap(p)
    return s


def tables_snap(c):
    pl = getattr(c, "privilege_levels", None)
    return {
        "privilege_levels": privs_snap(pl) if isinstance(pl, dict) else None,
        "failed_when_contains": tuple(getattr(c, "failed_when_contains", ()) or ()),
        "comms_prompt_pattern": c.comms_prompt_pattern,
        "channel_prompt_pattern": c.channel._base_channel_args.comms_prompt_pattern,
        "priv_graph": _val_snap({k: set(v) for k, v in getattr(c, "_priv_graph", {}).items()}),
        "transport_options": _val_snap(c._base_transport_args.transport_options),
        "channel_args": dc_fields(c._base_channel_args),
        "transport_args": dc_fields(c._base_transport_args),
        "generic_driver_mode": getattr(c, "_generic_driver_mode", None),
        "default_desired_privilege_level": getattr(c, "default_desired_privilege_level", None),
        "current_priv_level": lvl_snap(c._current_priv_level) if hasattr(c, "_current_priv_level") else None,
    }


def owned_ids(c):
    """mutable objects a connection owns (must not be shared with any other owner)"""
    ids = {id(c._base_transport_args), id(c._base_channel_args), id(c._base_transport_args.transport_options)}
    pl = getattr(c, "privilege_levels", None)
    if isinstance(pl, dict):
        ids.add(id(pl))
        for v in pl.values():
            ids.add(id(v))
            ids.add(id(v.not_contains))
    f = getattr(c, "failed_when_contains", None)
    if isinstance(f, list):
        ids.add(id(f))
    if hasattr(c, "_priv_graph"):
        ids.add(id(c._priv_graph))
    cur = getattr(c, "_current_priv_level", None)
    if cur is not None:
        import scrapli.driver.network.base_driver as nb
        # the module-level dummy is the one object known to be shared by all connections (finding C18-shared-dummy-priv-level, exhibited by
        # the history operation "u"); anything else a connection's _current_priv_level refers to must be its own
        if cur is not nb.DUMMY_PRIV_LEVEL:
            ids.add(id(cur))
            ids.add(id(cur.not_contains))
    return ids


def def_ids(plats):
    out = {}
    for p, m in core_modules().items():
        ids = {id(m.PRIVS), id(m.FAILED_WHEN_CONTAINS)}
        for v in m.PRIVS.values():
            ids |= {id(v), id(v.not_contains)}
        out["core:" + p] = ids
    for n, pl in plats.items():
        ids = set()

        def walk(o):
            if isinstance(o, dict):
                ids.add(id(o))
                for x in o.values():
                    walk(x)
            elif isinstance(o, list):
                ids.add(id(o))
            elif hasattr(o, "escalate_auth"):
                ids.add(id(o))
                ids.add(id(o.not_contains))
        walk(pl)
        out["community:" + n] = ids
    return out


CLASSNAME = {("arista_eos", False): "EOSDriver", ("arista_eos", True): "AsyncEOSDriver", ("cisco_iosxe", False): "IOSXEDriver",
             ("cisco_iosxe", True): "AsyncIOSXEDriver", ("cisco_iosxr", False): "IOSXRDriver", ("cisco_iosxr", True): "AsyncIOSXRDriver",
             ("cisco_nxos", False): "NXOSDriver", ("cisco_nxos", True): "AsyncNXOSDriver", ("juniper_junos", False): "JunosDriver",
             ("juniper_junos", True): "AsyncJunosDriver"}
ISO_COMMUNITY = ("acme_netos", "single")   # network platforms with tables


def iso_construct(spec, plats):
    """spec = (via 'direct'|'factory', platform, is_async)"""
    from scrapli import AsyncScrapli, Scrapli
    via, platform, is_async = spec
    kw = {"host": "h-" + platform.replace("_", "-")}
    if is_async:
        kw["transport"] = "asynctelnet"
    if via == "direct":
        import scrapli.driver.core as core
        return build(getattr(core, CLASSNAME[(platform, is_async)]), kw)
    return build(AsyncScrapli if is_async else Scrapli, {"platform": platform, **kw})


def iso_apply(op, slots, plats):
    """apply one operation to the real objects; returns False when it does not apply (no such connection …)"""
    from scrapli.driver.network.base_driver import PrivilegeLevel
    from scrapli.exceptions import ScrapliValueError
    k, i = op[0], op[1]
    if k == "c":
        st, r = iso_construct(op[2], plats)
        if st != "ok":
            raise RuntimeError(f"construction failed in isolation history: {r!r}")
        slots[i] = r
        return True
    c = slots.get(i)
    if c is None:
        return False
    try:
        _mutate(op, c)
    except Exception:   # a mutation the user gets wrong (e.g. deleting a level others refer to) fails inside connection i only
        pass
    return True


def _mutate(op, c):
    from scrapli.driver.network.base_driver import PrivilegeLevel
    from scrapli.exceptions import ScrapliValueError
    k = op[0]
    if k == "r":
        try:
            c.register_configuration_session(op[2])
        except (AttributeError, ScrapliValueError):
            pass
    elif k == "e":
        pl = c.privilege_levels.get(op[2])
        if pl is None:
            return
        if op[3] is not None:
            pl.pattern = op[3]
        if op[4] is not None:
            pl.not_contains.append(op[4])
        c.update_privilege_levels()
    elif k == "fa":
        c.failed_when_contains.append(op[2])
    elif k == "fc":
        c.failed_when_contains.clear()
    # ---- not in the Lean operation set (oracle only)
    elif k == "d":
        c.privilege_levels.pop(op[2], None)
        c.update_privilege_levels()
    elif k == "n":
        c.privilege_levels[op[2]] = PrivilegeLevel(NEW_LEVEL[0], op[2], *NEW_LEVEL[1:])
        c.update_privilege_levels()
    elif k == "u":
        # in-place edit through the (private) _current_priv_level attribute: before any privilege level has been
        # acquired this is the module-level DUMMY_PRIV_LEVEL object of every connection (finding C18-shared-dummy-priv-level)
        c._current_priv_level.pattern = "^edited-through-current$"
        c._current_priv_level.not_contains.append("u")
    elif k == "t":
        c._base_transport_args.transport_options["k"] = "v"
    elif k == "p":
        c.comms_prompt_pattern = "^changed$"
    elif k == "g":
        c._generic_driver_mode = True
    elif k == "x":
        c.timeout_ops = 3
        c.timeout_socket = 4
        c.comms_return_char = "\r"


MODELLED = ("c", "r", "e", "fa", "fc", "d", "n")
NEW_LEVEL = (r"^new>$", "", "", "", False, "")   # the level assigned by op "n": PrivilegeLevel(pattern, <name>, previous_priv, deescalate, escalate, escalate_auth, escalate_prompt)


def enc_level(key, snap):
    d = dict(snap)
    nc = "/".join(hx(x) for x in d["not_contains"]) if d["not_contains"] else "."
    return ":".join([hx(key), hx(d["pattern"]), hx(d["name"]), hx(d["previous_priv"]), hx(d["deescalate"]), hx(d["escalate"]),
                     "1" if d["escalate_auth"] else "0", hx(d["escalate_prompt"]), nc])


def enc_tables(privs, fwc):
    return (",".join(enc_level(k, s) for k, s in privs) if privs else ".") + "~" + ("/".join(hx(x) for x in fwc) if fwc else ".")


def iso_cls(spec):
    via, platform, is_async = spec
    return CLASSNAME[(platform, is_async)] if platform in CORE else platform


def enc_op(op):
    k, i = op[0], op[1]
    if k == "c":
        return f"c:{i}:{hx(iso_cls(op[2]))}"
    if k == "r":
        return f"r:{i}:{hx(op[2])}"
    if k == "e":
        return f"e:{i}:{hx(op[2])}:{'!' if op[3] is None else hx(op[3])}:{'!' if op[4] is None else hx(op[4])}"
    if k == "fa":
        return f"fa:{i}:{hx(op[2])}"
    if k == "fc":
        return f"fc:{i}"
    if k == "d":
        return f"d:{i}:{hx(op[2])}"
    if k == "n":
        snap = (("pattern", NEW_LEVEL[0]), ("name", op[2]), ("previous_priv", NEW_LEVEL[1]), ("deescalate", NEW_LEVEL[2]),
                ("escalate", NEW_LEVEL[3]), ("escalate_auth", NEW_LEVEL[4]), ("escalate_prompt", NEW_LEVEL[5]), ("not_contains", ()))
        return f"n:{i}:{enc_level(op[2], snap)}"
    raise ValueError(op)


def ops_desc(ops):
    return {"ops": [list(o[:2]) + [list(x) if isinstance(x, tuple) else x for x in o[2:]] for o in ops]}


PRISTINE = {}


def restore_globals():
    """put the module-level definitions back (in place) after a history that changed them, so that later cases and the
    shrinker start from the real definitions again"""
    for p, m in core_modules().items():
        privs, fwc = PRISTINE[p]
        m.PRIVS.clear()
        m.PRIVS.update(copy.deepcopy(privs))
        m.FAILED_WHEN_CONTAINS[:] = list(fwc)
    import scrapli.driver.network.base_driver as nb
    for slot, v in PRISTINE["DUMMY"]:
        setattr(nb.DUMMY_PRIV_LEVEL, slot, list(v) if slot == "not_contains" else v)


def iso_eval(ops, plats_factory, probe=True, share=True):
    """run one history on the real objects and evaluate isolation after every step (never consults the model).
    returns dict(viols=[(kind, what, details)], slots, plats, ok)"""
    plats = plats_factory()
    viols = []
    with Community(plats):
        g0 = global_snap(plats)
        slots, snaps = {}, {}
        for n, op in enumerate(ops):
            i = op[1]
            did = iso_apply(op, slots, plats)
            g1 = global_snap(plats)
            for key in g0:
                if g1[key] != g0[key]:
                    viols.append(("definition-changed", f"operation {op[0]} on connection {i} changed the platform definition {key}",
                                  {"failed_at_step": n, "changed": key, "before": repr(g0[key])[:300], "after": repr(g1[key])[:300]}))
            new = {j: tables_snap(c) for j, c in slots.items()}
            for j, sn in snaps.items():
                if j != i and new[j] != sn:
                    changed = [k for k in sn if new[j][k] != sn[k]]
                    viols.append(("connection-changed", f"operation {op[0]} on connection {i} changed connection {j} ({','.join(changed)})",
                                  {"failed_at_step": n, "other_connection": j, "changed": changed}))
            if op[0] == "c" and did:
                via, platform, is_async = op[2]
                want = (g0["PRIVS:" + platform], g0["FWC:" + platform]) if platform in CORE else \
                    (privs_snap(plats[platform]["defaults"]["privilege_levels"]), tuple(plats[platform]["defaults"].get("failed_when_contains") or ()))
                got = (new[i]["privilege_levels"], new[i]["failed_when_contains"])
                if got != want:
                    viols.append(("not-pristine", "a freshly constructed connection does not start from the platform definition",
                                  {"failed_at_step": n, "got": repr(got)[:300], "want": repr(want)[:300]}))
            # no mutable object is shared between two owners; when one is, mutate through it to exhibit the visible change
            if not viols and share:
                owners = {**def_ids(plats), **{f"conn{j}": owned_ids(c) for j, c in slots.items()}}
                for a, b in itertools.combinations(sorted(owners), 2):
                    if owners[a] & owners[b]:
                        if probe:
                            j = int((a if a.startswith("conn") else b)[4:])
                            lv = next(iter(getattr(slots[j], "privilege_levels", {}) or {"exec": 0}))
                            ext = list(ops[:n + 1]) + [("e", j, lv, "^probe$", "probe"), ("fa", j, "probe"), ("t", j)]
                            restore_globals()
                            r = iso_eval(ext, plats_factory, probe=False, share=False)
                            if r["viols"]:
                                return {**r, "ops": ext}
                        viols.append(("shared-object", f"{a} and {b} share a mutable object", {"failed_at_step": n, "owners": [a, b]}))
                        break
            snaps = new
            if viols:
                break
        g_last = global_snap(plats)
    if viols:
        restore_globals()
    return {"viols": viols, "slots": slots, "plats": plats, "g": g_last, "ops": list(ops)}


def shrink_iso(ops, kind, plats_factory, budget=60):
    cur = list(ops)
    i = len(cur) - 1
    while i >= 0 and budget > 0:
        trial = cur[:i] + cur[i + 1:]
        budget -= 1
        try:
            if any(k == kind for k, _, _ in iso_eval(trial, plats_factory, probe=False, share=(kind == "shared-object"))["viols"]):
                cur = trial
        except Exception:
            pass
        i -= 1
    return cur


def iso_history(ck, ops, plats_factory, lines, pending, matcher, probe=True):
    r = iso_eval(ops, plats_factory, probe)
    modelled = all(o[0] in MODELLED for o in ops)
    nconn = len({o[1] for o in ops if o[0] == "c"})
    nmut = sum(1 for o in ops if o[0] != "c")
    desc = ops_desc(ops)
    ck.case(("iso", repr(ops)), nontrivial=nconn >= 2 and nmut >= 1, sample=desc,
            tags=("kind=isolation", f"len={min(len(ops), 12)}", f"conns={nconn}", "modelled" if modelled else "oracle-only")
            + tuple(sorted({"op=" + o[0] for o in ops})))
    if r["viols"]:
        first = {"kind": "isolation", **ops_desc(r["ops"]), **r["viols"][0][2]}
        if not ck.violations and matcher(first) is None:
            small = shrink_iso(r["ops"], r["viols"][0][0], plats_factory)
            r2 = iso_eval(small, plats_factory, probe=False, share=(r["viols"][0][0] == "shared-object"))
            if r2["viols"]:
                r = r2
        for kind, what, more in r["viols"]:
            ck.violation({"kind": "isolation", **ops_desc(r["ops"]), **more}, what, matcher)
        return
    if modelled:
        plats, slots, g = r["plats"], r["slots"], r["g"]
        comm = [(n, privs_snap(plats[n]["defaults"]["privilege_levels"]), tuple(plats[n]["defaults"].get("failed_when_contains") or ()))
                for n in ISO_COMMUNITY]
        extra = "&".join(f"{hx(n)}~{enc_tables(pv, fw)}" for n, pv, fw in comm)
        lines.append(f"heap {extra} {';'.join(enc_op(o) for o in ops) if ops else '.'}")
        real_defs = [(p, g["PRIVS:" + p], g["FWC:" + p]) for p in sorted(CORE)] + comm
        real_conns = {j: (type(c).__name__ if iso_platform_of(ops, j) in CORE else iso_platform_of(ops, j),
                          privs_snap(c.privilege_levels), tuple(c.failed_when_contains)) for j, c in slots.items()}
        pending.append(("heap", desc, real_defs, real_conns))


def iso_platform_of(ops, j):
    p = None
    for o in ops:
        if o[0] == "c" and o[1] == j:
            p = o[2][1]
    return p


def check_heap_reply(ck, desc, real_defs, real_conns, reply):
    want_defs = "&".join(f"{hx(n)}~{enc_tables(p, f)}" for n, p, f in real_defs)
    want_conns = "&".join(f"{j}~{hx(c)}~{enc_tables(p, f)}" for j, (c, p, f) in real_conns.items()) if real_conns else "."
    parts = reply.split(" ")
    if len(parts) != 2:
        ck.disagree("Heap model vs drivers", desc, f"model={reply[:200]}")
        return
    got_conns = dict(x.split("~", 1) for x in parts[1].split("&")) if parts[1] != "." else {}
    exp_conns = dict(x.split("~", 1) for x in want_conns.split("&")) if want_conns != "." else {}
    if parts[0] == want_defs and got_conns == exp_conns:
        ck.traces_validated += 1
    else:
        where = "defs" if parts[0] != want_defs else "conns"
        ck.disagree("Heap model vs drivers", desc, f"{where}: impl={(want_defs if where == 'defs' else want_conns)[:400]} model={(parts[0] if where == 'defs' else parts[1])[:400]}")


# ===================================================================== translator round trip
def tables_from_live():
    """the digest the Lean driver prints for `tab`, computed from the imported objects"""
    import scrapli.factory as F
    import scrapli.transport as T
    from scrapli.driver import AsyncGenericDriver, AsyncNetworkDriver, GenericDriver, NetworkDriver
    reg = Registry()

    def sig(fn, drop=1):
        ps = list(inspect.signature(fn).parameters.values())[drop:]
        out = []
        for p in ps:
            if p.kind is p.VAR_KEYWORD:
                out.append("**")
            elif p.default is p.empty:
                out.append(hx(p.name) + "=!")
            else:
                d = p.default
                out.append(hx(p.name) + "=" + ("C" + hx(d.__name__) if callable(d) else enc_val(d, reg)))
        return ",".join(out)

    pairs = lambda d: ",".join(f"{hx(k)}={hx(v.__name__)}" for k, v in d.items())  # noqa
    lines = ["core " + ",".join(hx(x) for x in T.CORE_TRANSPORTS), "asyncio " + ",".join(hx(x) for x in T.ASYNCIO_TRANSPORTS),
             "newsync " + sig(F.Scrapli.__new__), "newasync " + sig(F.AsyncScrapli.__new__), "bpk " + sig(F._build_provided_kwargs_dict, 0)]
    live = {"mapsync": pairs(F.Scrapli.CORE_PLATFORM_MAP), "mapasync": pairs(F.AsyncScrapli.CORE_PLATFORM_MAP),
            "drvsync": pairs(F.Scrapli.DRIVER_MAP), "drvasync": pairs(F.AsyncScrapli.DRIVER_MAP)}
    ctor = {}
    for m in (F.Scrapli.CORE_PLATFORM_MAP, F.AsyncScrapli.CORE_PLATFORM_MAP):
        for p, c in m.items():
            ctor[c.__name__] = (p, sig(c.__init__))
    sigs = {c.__name__: sig(c.__init__) for c in (NetworkDriver, AsyncNetworkDriver, GenericDriver, AsyncGenericDriver)}
    defs = {p: enc_tables(privs_snap(m.PRIVS), tuple(m.FAILED_WHEN_CONTAINS)) for p, m in core_modules().items()}
    return lines, live, ctor, sigs, defs


def round_trip(ck, reply):
    lines, live, ctor, sigs, defs = tables_from_live()
    got = reply.split("|")
    bad = []
    bykey = {}
    for g in got:
        k, _, rest = g.partition(" ")
        bykey.setdefault(k, []).append(rest)
    for l in lines:
        k, _, rest = l.partition(" ")
        if bykey.get(k) != [rest]:
            bad.append(f"{k}: lean={bykey.get(k)} live={rest}")
    for k, v in live.items():
        if bykey.get(k) != [v]:
            bad.append(f"{k}: lean={bykey.get(k)} live={v}")
    seen = set()
    for c in bykey.get("ctor", []):
        cls, plat, pm, fm, sg = c.split(" ")
        seen.add(unhx(cls))
        if unhx(cls) not in ctor or ctor[unhx(cls)] != (unhx(plat), sg):
            bad.append(f"ctor {unhx(cls)}: lean=({unhx(plat)}, {sg[:80]}…) live={ctor.get(unhx(cls), ('?', ''))[0]}")
    if seen != set(ctor):
        bad.append(f"ctor set: lean={sorted(seen)} live={sorted(ctor)}")
    for s in bykey.get("sig", []):
        cls, sg = s.split(" ")
        if sigs.get(unhx(cls)) != sg:
            bad.append(f"sig {unhx(cls)}")
    ldefs = dict((unhx(d.split("~", 1)[0]), d.split("~", 1)[1]) for d in bykey.get("def", []))
    if ldefs != defs:
        bad.append("platform definitions differ: " + ",".join(k for k in set(ldefs) | set(defs) if ldefs.get(k) != defs.get(k)))
    # what the check hard-codes about the live tree, re-established each run
    if bad:
        ck.proof_broken("translator round trip (generated tables vs imported objects)", "; ".join(bad)[:2500])
    else:
        ck.extra["translator_round_trip"] = f"{len(got)} generated tables re-read from the Lean driver equal the imported objects"


# ===================================================================== generation
FACTORY_PARAMS = ()
ORACLE_CORE, ORACLE_DRIVER_MAP, REAL_COMMUNITY = {}, {}, ()


def setup_live():
    global FACTORY_PARAMS, ORACLE_CORE, ORACLE_DRIVER_MAP, REAL_COMMUNITY
    from scrapli import AsyncScrapli, Scrapli
    import scrapli.driver.core as core
    from scrapli.driver import AsyncGenericDriver, AsyncNetworkDriver, GenericDriver, NetworkDriver
    ps = [p for p in inspect.signature(Scrapli.__new__).parameters.values()][1:]
    FACTORY_PARAMS = tuple(p.name for p in ps if p.kind is not p.VAR_KEYWORD and p.name not in ("platform", "variant"))
    # the documented platform -> class table (docs/user_guide: core drivers), independent of CORE_PLATFORM_MAP
    for (p, a), n in CLASSNAME.items():
        ORACLE_CORE[(p, a)] = getattr(core, n)
    ORACLE_DRIVER_MAP[False] = {"network": NetworkDriver, "generic": GenericDriver}
    ORACLE_DRIVER_MAP[True] = {"network": AsyncNetworkDriver, "generic": AsyncGenericDriver}
    real = []
    for n in ("scrapli_networkdriver", "scrapli_genericdriver", "ruckus_fastiron", "mikrotik_routeros"):
        try:
            import importlib
            importlib.import_module(module_name(n))
            real.append(n)
        except Exception:
            pass
    REAL_COMMUNITY = tuple(real)
    for p, m in core_modules().items():
        PRISTINE[p] = (copy.deepcopy(m.PRIVS), list(m.FAILED_WHEN_CONTAINS))
    import scrapli.driver.network.base_driver as nb
    PRISTINE["DUMMY"] = lvl_snap(nb.DUMMY_PRIV_LEVEL)


def gen_factory_cases(ck, tier, tmpfile):
    P = pools(tmpfile)
    rng = ck.rng
    cases = []

    def mk(is_async, platform, args, variant=MISSING, hidden=False):
        a = dict(args)
        a.setdefault("host", "r1")
        return {"async": is_async, "platform": platform, "args": a, "variant": variant, "hidden": hidden}

    def ok_transport(is_async):
        return "asynctelnet" if is_async else None

    def base(is_async):
        return {"transport": "asynctelnet"} if is_async else {}

    # 1. exhaustive: every forwarded parameter x every pool value (+ None) x every core platform x both stacks
    for is_async in (False, True):
        for platform in CORE:
            cases.append(mk(is_async, platform, base(is_async)))
            for name in list(FACTORY_PARAMS) + ["auth_telnet_login_pattern", "auth_password_pattern", "auth_passphrase_pattern",
                                                 "comms_prompt_pattern", "bogus_keyword"]:
                for v in P[name] + [None]:
                    a = base(is_async)
                    a[name] = v
                    if tier == "quick" and platform not in ("cisco_iosxe", "arista_eos") and not is_falsy_non_none(v) and v is not None:
                        continue
                    cases.append(mk(is_async, platform, a))
    # 2. exhaustive: every pair of (parameter, falsy value) on one platform, sync
    fals = [(n, v) for n in FACTORY_PARAMS for v in P[n] if is_falsy_non_none(v) and n != "host"]
    pairs = list(itertools.combinations(fals, 2))
    if tier == "quick":
        pairs = pairs[::7]
    for (n1, v1), (n2, v2) in pairs:
        if n1 != n2:
            cases.append(mk(False, "juniper_junos", {n1: v1, n2: v2}))
    # 3. all arguments falsy / all None / all set
    for is_async in (False, True):
        for platform in CORE:
            allf = {n: next((v for v in P[n] if is_falsy_non_none(v)), None) for n in FACTORY_PARAMS if n not in ("host", "transport")}
            cases.append(mk(is_async, platform, {**allf, **base(is_async)}))
            cases.append(mk(is_async, platform, {**{n: None for n in FACTORY_PARAMS if n != "host"}, **base(is_async)}))
            cases.append(mk(is_async, platform, {**{n: P[n][0] for n in FACTORY_PARAMS if n not in ("transport",)}, **base(is_async)}))
    # 4. community platforms: every platform x variant x stack, bare and with overrides of every default
    plats = make_synthetic()
    for is_async in (False, True):
        for pname, plat in plats.items():
            for variant in [MISSING, None, "", *plat.get("variants", {}).keys(), "nope"]:
                b = {} if ("transport" in plat["defaults"] and not is_async) else base(is_async)
                if is_async and "transport" in plat["defaults"]:
                    b = {"transport": "asynctelnet"}
                cases.append(mk(is_async, pname, b, variant))
                for k, dv in plat["defaults"].items():
                    if k in P:
                        for v in P[k][:3] + [None]:
                            cases.append(mk(is_async, pname, {**b, k: v}, variant))
                for k in ("on_open", "on_close", "auth_secondary", "failed_when_contains", "port", "timeout_ops", "auth_strict_key"):
                    for v in P[k][:2]:
                        if pname == "acme_gen" and k in ("auth_secondary", "failed_when_contains"):
                            continue
                        cases.append(mk(is_async, pname, {**b, k: v}, variant))
        for pname in REAL_COMMUNITY:
            rp = sys.modules[module_name(pname)].SCRAPLI_PLATFORM
            for variant in [MISSING, *rp.get("variants", {}).keys()]:
                cases.append(mk(is_async, pname, base(is_async), variant))
                cases.append(mk(is_async, pname, {**base(is_async), "on_open": user_cb, "timeout_ops": 0, "auth_strict_key": False}, variant))
    # 5. rejections: unknown platforms, non-str platforms, empty modules, hidden package, every transport on both stacks
    for is_async in (False, True):
        for p in UNKNOWN + EMPTY_MODULES + (None, 5, ("cisco_iosxe",), b"cisco_iosxe"):
            cases.append(mk(is_async, p, base(is_async)))
            cases.append(mk(is_async, p, {"transport": "system" if is_async else "asyncssh"}))
        for p in ("nope", "acme_netos", "cisco_iosxe"):
            cases.append(mk(is_async, p, base(is_async), hidden=True))
        for platform in CORE + ("acme_netos", "acme_gen"):
            for t in P["transport"] + [None, 0, ["system"]]:
                cases.append(mk(is_async, platform, {"transport": t}))
            cases.append(mk(is_async, platform, {}))
    # 6. random subsets
    nrand = 1200 if tier == "quick" else 60000
    extra_names = ["auth_telnet_login_pattern", "auth_password_pattern", "auth_passphrase_pattern"]
    for _ in range(nrand):
        is_async = rng.random() < 0.5
        r = rng.random()
        if r < 0.6:
            platform = rng.choice(CORE)
        elif r < 0.92:
            platform = rng.choice(list(plats))
        else:
            platform = rng.choice(UNKNOWN + EMPTY_MODULES)
        k = rng.choice([0, 1, 2, 3, 5, 8, 12, 20, len(FACTORY_PARAMS)])
        names = rng.sample(list(FACTORY_PARAMS), min(k, len(FACTORY_PARAMS)))
        if rng.random() < 0.25:
            names += rng.sample(extra_names, rng.randint(1, 3))
        if rng.random() < 0.04:
            names.append(rng.choice(["comms_prompt_pattern", "bogus_keyword"]))
        a = {}
        for n in names:
            mode = rng.random()
            vals = P[n]
            if mode < 0.25:
                f = [v for v in vals if is_falsy_non_none(v)]
                a[n] = rng.choice(f) if f else rng.choice(vals)
            elif mode < 0.35:
                a[n] = None
            else:
                a[n] = rng.choice(vals)
        if "transport" not in a or rng.random() < 0.7:
            t = rng.choice(["asynctelnet", "asyncssh"]) if is_async else rng.choice([None, "system", "telnet", "paramiko"])
            if t is None:
                a.pop("transport", None)
            else:
                a["transport"] = t
        if a.get("host", "r1") == "" and rng.random() < 0.8:
            a["host"] = "r2"
        variant = MISSING
        if platform in plats and rng.random() < 0.6:
            variant = rng.choice(list(plats[platform].get("variants", {}).keys()) + [None, ""])
        elif rng.random() < 0.05:
            variant = "v1"
        cases.append(mk(is_async, platform, a, variant))
    return cases


def gen_iso_histories(ck, tier):
    rng = ck.rng
    out = []
    E = ("direct", "arista_eos", False)
    EA = ("factory", "arista_eos", True)
    EF = ("factory", "arista_eos", False)
    # exhaustive: all histories up to length N over this alphabet (2 connections of one platform with sessions)
    alpha = [("c", 0, E), ("c", 1, EF), ("c", 1, EA), ("r", 0, "s1"), ("r", 1, "s1"), ("e", 0, "exec", "^X$", "nc1"),
             ("e", 1, "privilege_exec", None, "q"), ("fa", 0, "boo"), ("fc", 1), ("e", 0, "s1", "^S$", None)]
    nmax = 3 if tier == "quick" else 4
    for n in range(0, nmax + 1):
        for h in itertools.product(alpha, repeat=n):
            if n and not any(o[0] == "c" for o in h):
                continue
            if n == 4 and h[0][0] != "c":
                continue
            out.append(list(h))
    # every platform x construction path x stack: construct two, mutate the first in every way, re-construct
    names = ["s1", "my-sess.1", "exec", "tést ü", "a+b(c)[d]", "", "abcdefghij", "config\\-s"]
    for platform in CORE + ISO_COMMUNITY:
        for via in ("direct", "factory"):
            if via == "direct" and platform not in CORE:
                continue
            for a1, a2 in ((False, False), (False, True), (True, True)):
                s1, s2 = (via, platform, a1), ("factory" if via == "direct" else via, platform, a2)
                lvl = "exec" if platform != "cisco_iosxr" else "privilege_exec"
                h = [("c", 0, s1), ("c", 1, s2), ("r", 0, "sess-A"), ("e", 0, lvl, "^changed$", "nc"), ("fa", 0, "% mine"),
                     ("c", 2, s1), ("fc", 0), ("r", 2, "sess-A"), ("r", 0, "sess-A")]
                out.append(h)
                out.append(h + [("d", 0, lvl), ("n", 1, "brand-new"), ("t", 0), ("p", 1), ("g", 0), ("x", 1), ("c", 0, s2), ("r", 0, "z")])
    for nm in names:
        out.append([("c", 0, E), ("c", 1, ("direct", "cisco_nxos", False)), ("r", 0, nm), ("r", 1, nm), ("r", 0, nm)])
    # the shared dummy level (known finding): every platform pair, edit through connection 0's _current_priv_level
    for p1, p2 in (("cisco_iosxe", "arista_eos"), ("juniper_junos", "juniper_junos"), ("acme_netos", "cisco_nxos")):
        out.append([("c", 0, ("factory", p1, False)), ("c", 1, ("factory", p2, True)), ("e", 0, "exec", "^mine$", None), ("u", 0)])
    # random histories over all platforms, up to 4 connections
    nrand = 250 if tier == "quick" else 15000
    specs = [(v, p, a) for p in CORE + ISO_COMMUNITY for v in ("direct", "factory") for a in (False, True) if not (v == "direct" and p not in CORE)]
    for _ in range(nrand):
        n = rng.choice([2, 4, 6, 9, 12])
        h, live = [], {}
        for _ in range(n):
            if not live or rng.random() < 0.3:
                i = rng.randrange(4)
                sp = rng.choice(specs) if rng.random() < 0.5 else rng.choice([s for s in specs if s[1] in ("arista_eos", "cisco_nxos")])
                live[i] = sp
                h.append(("c", i, sp))
                continue
            i = rng.choice(list(live))
            r = rng.random()
            lv = rng.choice(["exec", "privilege_exec", "configuration", "s1", "nope"])
            if r < 0.25:
                h.append(("r", i, rng.choice(names)))
            elif r < 0.5:
                h.append(("e", i, lv, rng.choice([None, "^P$", ""]), rng.choice([None, "x", ""])))
            elif r < 0.65:
                h.append(("fa", i, rng.choice(["% a", "", "ü"])))
            elif r < 0.72:
                h.append(("fc", i))
            elif r < 0.8:
                h.append(("d", i, lv))
            elif r < 0.86:
                h.append(("n", i, rng.choice(["new1", "exec"])))
            elif r < 0.97:
                h.append((rng.choice(["t", "p", "g", "x"]), i))
            else:
                h.append(("u", i))
        out.append(h)
    return out


F27 = "C18-shared-dummy-priv-level"


def matcher(case):
    """finding C18-shared-dummy-priv-level only: the failing step is the in-place edit through `_current_priv_level` (operation "u") and what changed is the
    module-level DUMMY level or another connection's `current_priv_level` view — nothing else"""
    if case.get("kind") != "isolation" or "failed_at_step" not in case:
        return None
    ops = case.get("ops") or []
    n = case["failed_at_step"]
    if not (0 <= n < len(ops)) or ops[n][0] != "u":
        return None
    if case.get("changed") == "DUMMY" or case.get("changed") == ["current_priv_level"]:
        return F27
    return None


def positional_order_advisory(ck):
    """advisory (positional calls are outside the property): do the two factories and the drivers order their parameters alike"""
    from scrapli import AsyncScrapli, Scrapli
    from scrapli.driver.core import IOSXEDriver
    s = [p for p in inspect.signature(Scrapli.__new__).parameters][2:]
    a = [p for p in inspect.signature(AsyncScrapli.__new__).parameters][2:]
    d = [p for p in inspect.signature(IOSXEDriver.__init__).parameters][1:]
    ck.extra["advisory_positional_order_sync_vs_async_factory_differs_at"] = [x for x, y in zip(s, a) if x != y]
    common = [p for p in d if p in s]
    ck.extra["advisory_positional_order_sync_factory_vs_driver_differs_at"] = [x for x, y in zip([p for p in s if p in d], common) if x != y]


def user_shared_mutables(ck):
    """advisory: are user-supplied mutable arguments shared between connections that are given the same object?"""
    from scrapli import Scrapli
    fw, to = ["u1"], {"k": "v"}
    a = Scrapli(platform="cisco_iosxe", host="a", failed_when_contains=fw, transport_options=to)
    b = Scrapli(platform="cisco_iosxe", host="b", failed_when_contains=fw, transport_options=to)
    a.failed_when_contains.append("u2")
    a._base_transport_args.transport_options["z"] = 1
    ck.extra["advisory_user_supplied_list_shared_between_connections"] = b.failed_when_contains == ["u1", "u2"]
    ck.extra["advisory_user_supplied_transport_options_shared"] = b._base_transport_args.transport_options.get("z") == 1
    # the driver-created defaults are not shared
    c, d = Scrapli(platform="cisco_iosxe", host="c"), Scrapli(platform="cisco_iosxe", host="d")
    c._base_transport_args.transport_options["z"] = 1
    if d._base_transport_args.transport_options:
        ck.violation({"kind": "isolation", "what": "default transport_options"}, "default transport_options dict shared between connections", matcher)


def run_cases(ck, fac_cases, iso_cases, tmpfile):
    lines, pending = ["tab"], [("tab",)]
    search = []
    plats_for_fac = make_synthetic()
    import logging
    logging.getLogger("scrapli").setLevel(logging.CRITICAL)
    for case in fac_cases:
        try:
            factory_case(ck, case, plats_for_fac, tmpfile, lines, pending, matcher)
        except Exception as e:  # harness trouble on one case must not hide the rest
            ck.proof_broken("harness: factory case raised", f"{describe(case)}: {e!r}")
            break
    # the factory must not have changed the synthetic definitions it was given (all cases above share them)
    fresh = make_synthetic()
    for n in fresh:
        a, b = _strip_ids(_val_snap(plats_for_fac[n])), _strip_ids(_val_snap(fresh[n]))
        if a != b:
            ck.violation({"kind": "isolation", "platform": n, "before": repr(b)[:300], "after": repr(a)[:300]},
                         f"constructing connections through the factory changed SCRAPLI_PLATFORM of {n}", matcher)
    for h in iso_cases:
        try:
            iso_history(ck, h, make_synthetic, lines, pending, matcher)
        except Exception as e:
            ck.proof_broken("harness: isolation history raised", f"{h}: {e!r}")
            break
    try:
        out = run_model("C18", lines)
    except Exception as e:
        ck.proof_broken("model driver Drv/C18.lean", repr(e))
        return search
    for p, reply in zip(pending, out):
        if p[0] == "tab":
            round_trip(ck, reply)
        elif p[0] == "fac":
            check_fac_reply(ck, *p[1:], reply, search)
        else:
            check_heap_reply(ck, *p[1:], reply)
    return search


def _strip_ids(s):
    if isinstance(s, tuple) and len(s) == 2 and s[0] == "id":
        return ("id",)
    if isinstance(s, tuple):
        return tuple(_strip_ids(x) for x in s)
    return s


# ===================================================================== behavioural isolation (wave 5)
# Object identity is not enough: state shared through a class attribute, a module-level cache or a closure makes
# connection B answer with what connection A has seen although no table object is shared.  Oracle: every answer a
# connection gives inside an interleaved history of several live connections must equal the answer the same
# connection gives when the operations addressed to it are run ALONE, in a process forked from the state right after
# importing scrapli (a "pristine twin").  Both runs happen in forked children of one early-forked server process, so
# neither sees anything earlier cases left behind and a reported history replays standalone.
import pickle, struct

BEH_PROMPTS = {   # sample device prompt per privilege level, per platform (what a device of that platform prints)
    "cisco_iosxe": {"exec": "r1>", "privilege_exec": "r1#", "configuration": "r1(config)#", "tclsh": "r1(tcl)#"},
    "arista_eos": {"exec": "r1>", "privilege_exec": "r1#", "configuration": "r1(config)#"},
    "cisco_nxos": {"exec": "r1>", "privilege_exec": "r1#", "configuration": "r1(config)#", "tclsh": "r1-tcl#"},
    "cisco_iosxr": {"privilege_exec": "RP/0/RP0/CPU0:r1#", "configuration": "RP/0/RP0/CPU0:r1(config)#",
                    "configuration_exclusive": "RP/0/RP0/CPU0:r1(config)#"},
    "juniper_junos": {"exec": "admin@r1>", "configuration": "admin@r1#", "configuration_exclusive": "admin@r1#",
                      "configuration_private": "admin@r1#", "shell": "%", "root_shell": "root@r1:~ #"},
    "acme_netos": {"exec": "r1>", "privilege_exec": "r1#", "configuration": "r1(conf)#"},
    "single": {"exec": "r1>", "privilege_exec": "r1#", "configuration": "r1(conf)#"},
}
BEH_QUERY_PROMPTS = ["r1#", "r1>", "r1(config)#", "admin@edge1#", "admin@r1>", "admin@r1#", "leaf1(config-s-maint1)#", "r1(config-s-s1)#",
                     "switch(config-s)#", "RP/0/RP0/CPU0:r1#", "r1(conf)#", "r1(tcl)#", "root@r1:~ #", "%", "no prompt at all", ""]


class _Scripted:
    """stands in for the channel during acquire_priv: a causal device that follows the connection's OWN privilege levels"""

    def __init__(self, conn, platform, start):
        self.conn, self.platform, self.cur, self.sent = conn, platform, start, []
        self.comms_prompt_pattern = ""

    def _prompt(self):
        return BEH_PROMPTS[self.platform].get(self.cur) or f"r1(config-s-{self.cur[:6]})#"

    def _input(self, x):
        self.sent.append(x)
        lv = self.conn.privilege_levels
        for l in lv.values():
            if l.escalate == x and l.previous_priv == self.cur:
                self.cur = l.name
                return
        c = lv.get(self.cur)
        if c is not None and c.deescalate == x and c.previous_priv:
            self.cur = c.previous_priv


class _ScriptedSync(_Scripted):
    def get_prompt(self):
        return self._prompt()

    def send_input(self, channel_input, **kw):
        self._input(channel_input)
        return b"", b""

    def send_inputs_interact(self, interact_events, **kw):
        self._input(interact_events[0][0])
        return b"", b""


class _ScriptedAsync(_Scripted):
    async def get_prompt(self):
        return self._prompt()

    async def send_input(self, channel_input, **kw):
        self._input(channel_input)
        return b"", b""

    async def send_inputs_interact(self, interact_events, **kw):
        self._input(interact_events[0][0])
        return b"", b""


def class_state_snap():
    """mutable containers held by classes / modules of scrapli (class attributes and module globals): contents by value"""
    import collections
    kinds = (dict, list, set, collections.deque)
    out = {}
    for mn, m in list(sys.modules.items()):
        if m is None or not (mn == "scrapli" or mn.startswith("scrapli.")):
            continue
        for an, v in list(vars(m).items()):
            if isinstance(v, kinds) and not an.startswith("__"):
                out[f"{mn}.{an}"] = _strip_ids(_val_snap(v))
            elif isinstance(v, type) and getattr(v, "__module__", None) == mn:
                for cn, cv in list(vars(v).items()):
                    if isinstance(cv, kinds) and not cn.startswith("__"):
                        out[f"{mn}.{v.__name__}.{cn}"] = _strip_ids(_val_snap(cv))
    return out


def beh_answer(f):
    import asyncio
    try:
        r = f()
        if inspect.iscoroutine(r):
            r = asyncio.run(r)
        return r
    except Exception as e:
        return ("raised", type(e).__name__)


def beh_view(c):
    return {"comms_prompt_pattern": c.comms_prompt_pattern, "failed_when_contains": list(getattr(c, "failed_when_contains", [])),
            "levels": [list(map(str, x)) for x in privs_snap(getattr(c, "privilege_levels", {}))],
            "timeout_ops": c._base_channel_args.timeout_ops, "timeout_socket": c._base_transport_args.timeout_socket,
            "return_char": c._base_channel_args.comms_return_char, "transport_options": repr(c._base_transport_args.transport_options),
            "generic_mode": getattr(c, "_generic_driver_mode", None), "current": getattr(getattr(c, "_current_priv_level", None), "name", None),
            "desired": getattr(c, "default_desired_privilege_level", None)}


def beh_run(ops):
    """(in a pristine forked child) run a history on real connections; answers per connection + class-level state changes"""
    import logging, warnings
    warnings.simplefilter("ignore")
    logging.getLogger("scrapli").setLevel(logging.CRITICAL)
    plats = make_synthetic()
    before = class_state_snap()
    answers, slots, plat_of = {}, {}, {}
    with Community(plats):
        for op in ops:
            k, i = op[0], op[1]
            if k == "c":
                iso_apply(op, slots, plats)
                plat_of[i] = (op[2][1], op[2][2])
                answers.setdefault(i, []).append(["constructed", type(slots[i]).__name__])
                continue
            c = slots.get(i)
            if c is None:
                continue
            if k == "q":
                a = beh_answer(lambda: list(c._determine_current_priv(current_prompt=op[2])))
            elif k == "a":
                def f():
                    act, lv = c._process_acquire_priv(destination_priv=op[3], current_prompt=op[2])
                    return [act.name, lv.name, c._current_priv_level.name]
                a = beh_answer(f)
            elif k == "k":
                platform, is_async = plat_of[i]
                start = op[2] if op[2] in c.privilege_levels else next(iter(c.privilege_levels), "exec")
                ch = (_ScriptedAsync if is_async else _ScriptedSync)(c, platform, start)
                real = c.channel
                c.channel = ch

                def f():
                    r = c.acquire_priv(desired_priv=op[3])
                    if inspect.iscoroutine(r):
                        import asyncio
                        asyncio.run(r)
                    return [list(ch.sent), ch.cur, c._current_priv_level.name]
                a = beh_answer(f)
                c.channel = real
            elif k == "v":
                a = beh_view(c)
            else:
                iso_apply(op, slots, plats)
                a = None
            if a is not None:
                answers.setdefault(i, []).append([k, list(op[2:]), a])
    after = class_state_snap()
    changed = sorted(k for k in set(before) | set(after) if before.get(k) != after.get(k))
    return {"answers": {str(i): v for i, v in answers.items()},
            "class_state": {k: [repr(before.get(k))[:200], repr(after.get(k))[:200]] for k in changed}}


class PristineServer:
    """a child forked before any connection exists; runs each request in a further fork of that pristine state"""

    def __init__(self):
        self.req_r, self.req_w = os.pipe()
        self.res_r, self.res_w = os.pipe()
        sys.stdout.flush()
        sys.stderr.flush()
        self.pid = os.fork()
        if self.pid == 0:
            os.close(self.req_w)
            os.close(self.res_r)
            self._serve()
        os.close(self.req_r)
        os.close(self.res_w)
        self.wf, self.rf = os.fdopen(self.req_w, "wb"), os.fdopen(self.res_r, "rb")

    def _serve(self):
        try:
            rf, wf = os.fdopen(self.req_r, "rb"), os.fdopen(self.res_w, "wb")
            while True:
                hdr = rf.read(4)
                if len(hdr) < 4:
                    break
                req = pickle.loads(rf.read(struct.unpack(">I", hdr)[0]))
                r, w = os.pipe()
                pid = os.fork()
                if pid == 0:
                    os.close(r)
                    try:
                        out = ("ok", beh_run(req))
                    except BaseException as e:  # noqa
                        out = ("err", repr(e))
                    with os.fdopen(w, "wb") as f:
                        f.write(pickle.dumps(out))
                    os._exit(0)
                os.close(w)
                with os.fdopen(r, "rb") as f:
                    data = f.read()
                os.waitpid(pid, 0)
                wf.write(struct.pack(">I", len(data)) + data)
                wf.flush()
        finally:
            os._exit(0)

    def call(self, ops):
        data = pickle.dumps(list(ops))
        self.wf.write(struct.pack(">I", len(data)) + data)
        self.wf.flush()
        hdr = self.rf.read(4)
        if len(hdr) < 4:
            raise RuntimeError("pristine server died")
        st, res = pickle.loads(self.rf.read(struct.unpack(">I", hdr)[0]))
        if st != "ok":
            raise RuntimeError(f"pristine run failed: {res}")
        return res

    def close(self):
        try:
            self.wf.close()
            self.rf.close()
            os.waitpid(self.pid, 0)
        except Exception:
            pass


def beh_eval(server, ops):
    """violations of behavioural isolation of one history: [(kind, what, details)]"""
    full = server.call(ops)
    viols = []
    for j in sorted({o[1] for o in ops if o[0] == "c"}):
        solo = server.call([o for o in ops if o[1] == j])
        fa, sa = full["answers"].get(str(j), []), solo["answers"].get(str(j), [])
        for n, (x, y) in enumerate(zip(fa, sa)):
            if x != y:
                viols.append(("behaviour", f"connection {j} answers differently when other connections are alive (operation {x[0]})",
                              {"connection": j, "answer_index": n, "operation": x[:2], "with_others": repr(x[2])[:300], "alone": repr(y[2])[:300]}))
                break
        if len(fa) != len(sa):
            viols.append(("behaviour", f"connection {j}: number of answers differs", {"connection": j}))
    for k, (b, a) in full["class_state"].items():
        viols.append(("class-state", f"class / module level mutable state {k} changed while connections were used",
                      {"attribute": k, "before": b, "after": a}))
    return viols


def shrink_beh(server, ops, kind, budget=40):
    cur = list(ops)
    i = len(cur) - 1
    while i >= 0 and budget > 0:
        trial = cur[:i] + cur[i + 1:]
        budget -= 1
        try:
            if any(k == kind for k, _, _ in beh_eval(server, trial)):
                cur = trial
        except Exception:
            pass
        i -= 1
    return cur


def gen_beh_histories(ck, tier):
    rng = ck.rng
    out = []
    specs = [(v, p, a) for p in CORE + ISO_COMMUNITY for v in ("direct", "factory") for a in (False, True) if not (v == "direct" and p not in CORE)]
    # directed: every ordered pair of platforms (one path / stack combination each, rotating), same byte-identical prompts asked of both
    plist = list(CORE + ISO_COMMUNITY)
    n = 0
    for p1 in plist:
        for p2 in plist:
            s1 = [x for x in specs if x[1] == p1][n % len([x for x in specs if x[1] == p1])]
            s2 = [x for x in specs if x[1] == p2][(n // 2) % len([x for x in specs if x[1] == p2])]
            n += 1
            h = [("c", 0, s1), ("c", 1, s2)]
            for pr in rng.sample(BEH_QUERY_PROMPTS, 4) + [BEH_PROMPTS[p1].get("configuration", "r1#"), BEH_PROMPTS[p2].get("exec", "r1#")]:
                h += [("q", 0, pr), ("q", 1, pr)]
            lv2 = list(BEH_PROMPTS[p2])
            h += [("a", 0, BEH_PROMPTS[p1][list(BEH_PROMPTS[p1])[0]], list(BEH_PROMPTS[p1])[-1] if p1 != "juniper_junos" else "configuration"),
                  ("a", 1, BEH_PROMPTS[p2][lv2[0]], lv2[1] if len(lv2) > 1 else lv2[0]),
                  ("k", 0, list(BEH_PROMPTS[p1])[0], "configuration"), ("k", 1, "configuration", lv2[0]), ("v", 0), ("v", 1)]
            out.append(h)
    # sessions: A registers, B (same platform, no session) sees the session prompt
    for p in ("arista_eos", "cisco_nxos"):
        for a1, a2 in ((False, False), (False, True), (True, True)):
            sp = "leaf1(config-s-maint1)#" if p == "arista_eos" else "leaf1(config-s)#"
            out.append([("c", 0, ("factory", p, a1)), ("c", 1, ("direct", p, a2)), ("r", 0, "maint1"), ("q", 0, sp), ("q", 1, sp),
                        ("k", 0, "privilege_exec", "maint1"), ("k", 1, "privilege_exec", "configuration"), ("q", 1, sp), ("v", 1),
                        ("c", 2, ("factory", p, a2)), ("q", 2, sp), ("a", 2, sp, "privilege_exec"), ("v", 0)])
    if tier == "quick":
        out = out[::2] + out[-6:]
    # random: 2..3 connections, interleaved mutations and queries
    for _ in range(60 if tier == "quick" else 1500):
        nconn = rng.choice([2, 2, 3])
        h, live = [], {}
        for i in range(nconn):
            live[i] = rng.choice(specs)
            h.append(("c", i, live[i]))
        for _ in range(rng.choice([6, 10, 16])):
            i = rng.randrange(nconn)
            p = live[i][1]
            r = rng.random()
            lvls = list(BEH_PROMPTS[p])
            if r < 0.35:
                h.append(("q", i, rng.choice(BEH_QUERY_PROMPTS + list(BEH_PROMPTS[p].values()))))
            elif r < 0.5:
                h.append(("a", i, rng.choice(list(BEH_PROMPTS[p].values()) + BEH_QUERY_PROMPTS[:6]), rng.choice(lvls + ["s1", "nope"])))
            elif r < 0.62:
                h.append(("k", i, rng.choice(lvls), rng.choice(lvls + ["s1"])))
            elif r < 0.7:
                h.append(("v", i))
            elif r < 0.78:
                h.append(("r", i, rng.choice(["s1", "maint1", "exec"])))
            elif r < 0.86:
                h.append(("e", i, rng.choice(lvls), rng.choice([None, "^P$", r"^r1[#>]$"]), rng.choice([None, "x", "#"])))
            elif r < 0.9:
                h.append((rng.choice(["fa", "n", "d"]), i, rng.choice(["% a", "new1", "configuration"])))
            elif r < 0.94:
                h.append((rng.choice(["t", "p", "g", "x", "fc"]), i))
            else:
                live[i] = rng.choice(specs)
                h.append(("c", i, live[i]))
        out.append(h)
    return out


def beh_phase(ck, server, histories):
    deferred = []
    for ops in histories:
        try:
            viols = beh_eval(server, ops)
        except Exception as e:
            ck.proof_broken("harness: behavioural history raised", f"{ops}: {e!r}")
            break
        nconn = len({o[1] for o in ops if o[0] == "c"})
        ck.case(("beh", repr(ops)), nontrivial=nconn >= 2 and any(o[0] in "qak" for o in ops), sample=ops_desc(ops),
                tags=("kind=behaviour", f"conns={nconn}", f"len={min(len(ops), 20)}") + tuple(sorted({"bop=" + o[0] for o in ops})))
        beh = [v for v in viols if v[0] == "behaviour"]
        if beh and not ck.violations:
            small = shrink_beh(server, ops, "behaviour")
            v2 = [v for v in beh_eval(server, small) if v[0] == "behaviour"]
            if v2:
                ops, beh = small, v2
        for kind, what, more in beh:
            ck.violation({"kind": "behaviour", **ops_desc(ops), **more}, what, matcher)
        # shared class-level state is reported after the behavioural differences it causes (a visible wrong answer is the better witness)
        for v in viols:
            if v[0] == "class-state" and v[2]["attribute"] not in {x[1] for x in deferred}:
                deferred.append((ops, v[2]["attribute"], v))
    for ops, attr, (kind, what, more) in deferred:
        if not ck.violations:
            small = shrink_beh(server, ops, "class-state")
            v2 = [v for v in beh_eval(server, small) if v[0] == "class-state" and v[2]["attribute"] == attr]
            if v2:
                ops, (kind, what, more) = small, v2[0]
        ck.violation({"kind": "behaviour", **ops_desc(ops), **more}, what, matcher)


def run(tier, seed):
    ck = Check(PID, tier, seed, level="proof")
    ck.rule = ("factory cases = (stack sync|async, platform, variant, keyword arguments): exhaustive = every factory parameter x every value of "
               "its pool (falsy values False/0/0.0/''/[]/{} and None included) x 5 core platforms x both stacks, all pairs of falsy "
               "arguments, all-falsy / all-None / all-set calls, 4 synthetic + installed community platforms x every variant x overrides of "
               "every default, every transport on both stacks, unknown / non-str platforms, empty modules, hidden package; random = "
               "subsets of 0..30 arguments with 25% falsy, 10% None. Each case: real factory vs directly constructed driver (attribute-wise), "
               "'takes effect' per argument, rejection classes; recorded (class, kwargs) vs the Lean model. Isolation histories = lists of "
               "construct / register_configuration_session / level edit / failed_when_contains edit (+ del/new level, transport_options, "
               "prompt pattern, generic mode, timeouts: oracle only) on up to 4 connections over 5 core + 2 community platforms, direct and "
               "factory, sync and async: exhaustive to length N over a 10-op alphabet, directed per platform, random to length 12. After "
               "EVERY step: module-level PRIVS/FAILED_WHEN_CONTAINS of all five platforms, SCRAPLI_PLATFORM dicts and all other "
               "connections unchanged, no mutable object shared between owners; final tables vs the Lean heap model. Non-trivial = a "
               "supplied argument beyond host / a rejection (factory), >= 2 connections and >= 1 mutation (isolation). Behavioural histories = 2-3 live "
               "connections (all platform pairs, direct / factory, sync / asyncio) with interleaved queries (_determine_current_priv, _process_acquire_priv, "
               "acquire_priv over a scripted channel, value views) and mutations, each run in a process forked from the pristine post-import state; every "
               "answer must equal the answer of the same connection run alone in another pristine fork, and no class / module level mutable container of "
               "scrapli.* may change.")
    ck.trusted = ["Lean 4.33.0 kernel; axioms of every theorem audited ⊆ {propext, Classical.choice, Quot.sound}",
                  "tools/gen/c18.py (AST -> tables; round-trip checked every run against inspect.signature / imported PRIVS via the Lean driver)",
                  "correspondence harness props/c18.py (recorder replaces the candidate classes' __init__; sys.modules injection of synthetic community platforms)"]
    ck.assumptions = ["copy.deepcopy / list.copy / dict semantics of CPython are modelled (deepcopy of a tree-shaped structure = fresh allocation of its value), not verified",
                      "Python keyword-call binding is modelled for keyword calls only (positional calls to the factory are outside the property; "
                      "note Scrapli.__new__ and AsyncScrapli.__new__ order channel_lock / channel_log_mode differently)",
                      "user-supplied mutable arguments (a list / dict / levels dict handed to two connections) are shared by Python semantics; the property speaks about "
                      "connections and platform definitions, this sharing is reported as advisory only",
                      "an unknown *variant* of a community platform raises a raw KeyError (not covered by the statement: advisory count only)",
                      "community platforms follow the documented SCRAPLI_PLATFORM structure (driver_type, defaults with the four hooks, variants)"]
    tmp = tempfile.NamedTemporaryFile(prefix="c18-", suffix=".txt", delete=False)
    tmp.write(b"Host *\n")
    tmp.close()
    try:
        try:
            translate.translate(PID)
        except Exception as e:
            ck.proof_broken("translator gen/c18.py", repr(e))
        ck.prove("ScrapliProps.C18", lemma_files=["ScrapliProps/C18Lemmas.lean", "ScrapliProps/C18HeapLemmas.lean",
                                                  "ScrapliModel/Factory.lean", "ScrapliModel/FactoryHeap.lean", "ScrapliModel/FactoryTypes.lean"])
        if tier == "thorough":
            ck.leanchecker("ScrapliProps.C18")
        setup_live()
        server = PristineServer()   # forked now: scrapli imported, no connection constructed yet
        own = VERIF / "findings" / "C18.json"
        if own.exists():   # until the lead has merged it into known_findings.json
            have = {f["id"] for f in ck.findings}
            ck.findings += [f for f in json.load(open(own)) if f["id"] not in have]
        for f in ck.findings:
            if f.get("status") == "open" and f["id"] == F27:
                w = [tuple(tuple(x) if isinstance(x, list) else x for x in o) for o in f["witness"]["ops"]]
                r = iso_eval(w, make_synthetic, probe=False, share=False)
                if any(matcher({"kind": "isolation", **ops_desc(r["ops"]), **more}) == F27 for _, _, more in r["viols"]):
                    ck.known_finding(F27, f["what"])
        corpus = json.load(open(VERIF / "corpus" / "C18" / "corpus.json"))
        fac_cases = [undescribe(c["case"], tmp.name) for c in corpus if c["kind"] == "factory"]
        iso_cases = [[tuple(tuple(x) if isinstance(x, list) else x for x in o) for o in c["ops"]] for c in corpus if c["kind"] == "isolation"]
        fac_cases += gen_factory_cases(ck, tier, tmp.name)
        iso_cases += gen_iso_histories(ck, tier)
        user_shared_mutables(ck)
        positional_order_advisory(ck)
        search = run_cases(ck, fac_cases, iso_cases, tmp.name)
        corpus_beh = [[tuple(tuple(x) if isinstance(x, list) else x for x in o) for o in c["ops"]] for c in corpus if c["kind"] == "behaviour"]
        beh_phase(ck, server, corpus_beh + gen_beh_histories(ck, tier))
        if ck.broken and not ck.violations:
            # directed search: widen generation (another PRNG stream, thorough-size random part) for a real failing input
            ck.extra["directed_search"] = "proof/correspondence broken: widened generation"
            ck.rng.seed(seed + 7919)
            more = gen_factory_cases(ck, "quick", tmp.name)[-1200:]
            run_cases(ck, more, gen_iso_histories(ck, "quick")[-250:], tmp.name)
        ck.exhaustive = True
        ck.extra["exhaustive_scope"] = ("every factory parameter x every pool value x 5 platforms x 2 stacks; all isolation histories of length <= "
                                        f"{3 if tier == 'quick' else 4} over a 10-operation alphabet")
        ck.extra["programs"] = ck.traces_validated
    finally:
        os.unlink(tmp.name)
        if "server" in locals():
            server.close()
    return ck.finish()


def replay(path):
    from vlib.common import Check as _C
    r = json.load(open(path))
    v = (r.get("violation") or {}).get("case") or {}
    setup_live()
    ck = _C(PID, "quick", 0)
    tmp = tempfile.NamedTemporaryFile(prefix="c18-", suffix=".txt", delete=False)
    tmp.write(b"Host *\n")
    tmp.close()
    try:
        lines, pending = [], []
        if v.get("kind") == "isolation" and "ops" in v:
            ops = [tuple(tuple(x) if isinstance(x, list) else x for x in o) for o in v["ops"]]
            iso_history(ck, ops, make_synthetic, lines, pending, matcher)
        elif v.get("kind") == "behaviour" and "ops" in v:
            ops = [tuple(tuple(x) if isinstance(x, list) else x for x in o) for o in v["ops"]]
            server = PristineServer()
            try:
                for kind, what, more in beh_eval(server, ops):
                    ck.violation({"kind": "behaviour", **ops_desc(ops), **more}, what, matcher)
            finally:
                server.close()
        elif v.get("kind") == "factory":
            factory_case(ck, undescribe(v, tmp.name), make_synthetic(), tmp.name, lines, pending, matcher)
        else:
            print("nothing to replay (no failing input in this file)")
            return 0
    finally:
        os.unlink(tmp.name)
    for x in ck.violations:
        print("VIOLATES:", x["what"], json.dumps(x["case"], default=str)[:600])
    print("violations:", len(ck.violations))
    return 1 if ck.violations else 0
