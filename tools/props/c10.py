"""C10 — strict host-key checking protects credentials.
Lean: ScrapliModel/HostKey.lean (+HostKeyTypes, Gen/HostKeyGen), ScrapliProps/C10.lean.
Real code, five rigs:
  A  SSHKnownHosts(file).lookup(host)           vs model `lookup`       (generated known_hosts contents)
  B  open() of Paramiko/Asyncssh/Ssh2Transport over recording library fakes (harness/libfakes10.py)
                                                vs model `openkh`       (full configuration product)
  C  SystemTransport._build_open_cmd()          vs model `sys`          (+ real `ssh -G` reading the argv)
  D  REAL paramiko / asyncssh against an in-process recording asyncssh SERVER (harness/loopback10.py)
                                                vs model `open`         (what the server was shown)
  E  defaults on real driver / factory objects  (oracle only)
  H  HISTORIES: 2-3 open() attempts on ONE transport object (with / without close() in between, known_hosts content changing
     between attempts) over the fakes (paramiko, asyncssh, ssh2 stub) and against the loopback server (paramiko, asyncssh)
                                                vs model `hist`
Oracle (independent of the model): strict on and host absent / other key => ScrapliAuthenticationFailed and the
server (or the fake library) was shown NO authentication request; argv strict."""
import asyncio, base64, hashlib, hmac as _hmac, itertools, json, os, shutil, subprocess, tempfile, time, traceback
from vlib.common import VERIF, Check, run_model
import translate

PID = "C10"
FID = "F19"
OFFERS = ("offerKey", "offerPassword")


def hx(s):
    b = s.encode() if isinstance(s, str) else s
    return b.hex() if b else "-"


def unhx(s):
    return "" if s == "-" else bytes.fromhex(s).decode()


# ------------------------------------------------------------------ known_hosts contents
def hashed_id(host, salt):
    d = _hmac.new(salt, host.encode(), hashlib.sha1).digest()
    return "|1|" + base64.b64encode(salt).decode() + "|" + base64.b64encode(d).decode()


def id_text(i):
    return i[1] if i[0] == "p" else hashed_id(i[2], i[1])


def kh_text(entries):
    """one line per entry.  Optional decoration of the RAW line: "pre" (text before the host field: leading blanks, `#`,
    `@revoked ` …), "sep" (separator between the three fields, default one blank), "post" (text after the key: a comment,
    a fourth token).  The oracle's reading of such a file is written here, independently of scrapli's regex (OpenSSH
    known_hosts format): a line whose first non-blank character is `#` or `@` contributes NOTHING ("inert"); otherwise the
    fields are separated by runs of blanks / tabs, the key is the THIRD field, the rest of the line is a comment."""
    return "".join(e.get("pre", "") + ",".join(id_text(i) for i in e["ids"]) + e.get("sep", " ") + e["kt"] + e.get("sep", " ") +
                   e["key"] + e.get("post", "") + "\n" for e in entries)


def inert(e):
    return e.get("pre", "").lstrip(" \t")[:1] in ("#", "@")


def live(entries):
    """the entries a known_hosts reader may use (the model gets exactly these)"""
    return [e for e in entries if not inert(e)]


def names(e, host):
    """independent reading of "this line is for that host": plain name equal, or |1| hash of the host"""
    return (not inert(e)) and any((i[0] == "p" and i[1] == host) or (i[0] == "h" and i[2] == host) for i in e["ids"])


def model_entries(entries, host):
    """-> (hmac table field, entries field) of the model's line protocol"""
    salts, out = [], []
    for e in live(entries):
        ids = []
        for i in e["ids"]:
            if i[0] == "p":
                ids.append("p:" + hx(i[1]))
            else:
                _, b64salt, b64hash = hashed_id(i[2], i[1]).split("|")[1:]
                ids.append(f"h:{hx(b64salt)}:{hx(b64hash)}")
                if i[1] not in salts:
                    salts.append(i[1])
        out.append("+".join(ids) + f"/{hx(e['kt'])}/{hx(e['key'])}")
    tbl = [hx(base64.b64encode(s).decode()) + ":" + hx(base64.b64encode(_hmac.new(s, host.encode(), hashlib.sha1).digest()).decode())
           for s in salts]
    return (",".join(tbl) or "."), (";".join(out) or ".")


NEAR = ("sfx", "pfx", "dom", "in", "short", "tail")
UNUSABLE = ("trunc", "mislabel", "garbage", "bogus")


def near_name(host, variant):
    """a name that is NOT the host but contains it / is contained in it (proper substring relations)"""
    return {"sfx": host + "1", "pfx": "1" + host, "dom": host + ".example.com", "in": "x" + host + "y",
            "short": host[:-1], "tail": host[1:]}[variant]


def unusable_key(variant, right, other):
    """a (key type, blob) no ssh library can load; every blob differs from the right one except `mislabel-right`"""
    wrong = "ssh-rsa" if other[0] != "ssh-rsa" else "ssh-ed25519"
    wrong_r = "ssh-rsa" if right[0] != "ssh-rsa" else "ssh-ed25519"
    n = max(8, (len(right[1]) // 2) // 4 * 4)
    return {"trunc": (right[0], right[1][:n]), "mislabel": (wrong, other[1]), "garbage": (right[0], "AAAAnotakey"),
            "bogus": ("ssh-bogus-v9", other[1]), "mislabel-right": (wrong_r, right[1])}[variant]


def structured_entries(fmt, content, host, right, other, decoy="192.0.2.1"):
    """the quantifier's named shapes: plain | comma | hashed  x
         absent | right | other | unusable:<variant> (host present, key no library can load) |
         nearmiss:<variant> (host ABSENT; a line for a name that contains / is contained in the host holds the RIGHT key).
    Decoy lines for other hosts are always there: one holding the RIGHT key, one holding an unusable key."""
    salt, salt2 = b"0123456789abcdefghij", b"jihgfedcba9876543210"
    dk = {"plain": [("p", decoy)], "comma": [("p", decoy), ("p", "192.0.2.9")], "hashed": [("h", salt2, decoy)]}[fmt]
    es = [{"ids": dk, "kt": right[0], "key": right[1]}]
    ut, uk = unusable_key("trunc", right, other)
    es.append({"ids": [("p", "192.0.2.2")], "kt": ut, "key": uk})
    kind, _, variant = content.partition(":")
    hid = {"plain": [("p", host)], "comma": [("p", "router9"), ("p", host), ("p", "192.0.2.77")], "hashed": [("h", salt, host)]}[fmt]
    if kind == "marker":
        # the host's line holds the RIGHT key but is revoked / a CA line / commented out: it must not make the key trusted
        pre = {"revoked": "@revoked ", "cert-authority": "@cert-authority ", "comment": "# ", "comment-tight": "#", "blank-comment": "  \t# ",
               "blank-revoked": " @revoked "}[variant]
        es.append({"ids": hid, "kt": right[0], "key": right[1], "pre": pre})
        return es
    if kind == "rawfmt":
        if variant == "tabs":               # right key, leading blanks, tab-separated, trailing comment: TRUSTED
            es.append({"ids": hid, "kt": right[0], "key": right[1], "pre": " \t", "sep": "\t \t", "post": "\troot@bastion  2021"})
        elif variant == "comment-is-right": # other key; the trailing comment happens to be the right key: NOT trusted
            es.append({"ids": hid, "kt": other[0], "key": other[1], "post": " " + right[1]})
        elif variant == "commented-then-other":   # the right key commented out, a live line with another key
            es.append({"ids": hid, "kt": right[0], "key": right[1], "pre": "#"})
            es.append({"ids": hid, "kt": other[0], "key": other[1], "sep": "  "})
        return es
    if kind == "nearmiss":
        nm = near_name(host, variant)
        ids = {"plain": [("p", nm)], "comma": [("p", nm), ("p", "lab-sw1")], "hashed": [("h", salt, nm), ("p", nm)]}[fmt]
        es.append({"ids": ids, "kt": right[0], "key": right[1]})
    elif kind != "absent":
        kt, key = right if kind == "right" else other if kind == "other" else unusable_key(variant, right, other)
        ids = {"plain": [("p", host)], "comma": [("p", "router9"), ("p", host), ("p", "192.0.2.77")],
               "hashed": [("h", salt, host)]}[fmt]
        es.append({"ids": ids, "kt": kt, "key": key})
    return es


MARKERS = ("revoked", "cert-authority", "comment", "comment-tight", "blank-comment", "blank-revoked")
CONTENTS_UNTRUSTED = (["absent", "other"] + [f"unusable:{v}" for v in UNUSABLE] + [f"nearmiss:{v}" for v in NEAR] +
                      [f"marker:{v}" for v in MARKERS] + ["rawfmt:comment-is-right", "rawfmt:commented-then-other"])
CONTENTS_ALL = ["right", "unusable:mislabel-right", "rawfmt:tabs"] + CONTENTS_UNTRUSTED

# names that are proper prefixes / suffixes / infixes of one another, plus unrelated ones
HOSTS = ["r1", "r2", "r10", "r11", "xr1", "r", "1", "r1.example.com", "example.com", "R1",
         "10.0.0.1", "10.0.0.11", "110.0.0.1", "0.0.0.1", "127.0.0.1", "127.0.0.11", "lab-sw1"]
SALTS = [b"A" * 20, b"B" * 20, bytes(range(20))]


def random_entries(rng, keys, host=None):
    """0-6 lines, 1-3 host fields each (plain or hashed, hashed next to its plain twin now and then); the names are drawn
    around `host`: the host itself, names containing it, names it contains, unrelated names"""
    pool = HOSTS if host is None else [host] * 3 + [near_name(host, v) for v in NEAR if near_name(host, v)] + HOSTS
    es = []
    for _ in range(rng.choice([0, 1, 2, 3, 4, 6])):
        ids = []
        for _ in range(rng.choice([1, 1, 1, 2, 3])):
            h = rng.choice(pool)
            if rng.random() < 0.35:
                ids.append(("h", rng.choice(SALTS), h))
                if rng.random() < 0.3:
                    ids.append(("p", h))
            else:
                ids.append(("p", h))
        kt, key = rng.choice(keys)
        e = {"ids": ids, "kt": kt, "key": key}
        r = rng.random()
        if r < 0.12:
            e["pre"] = rng.choice(["@revoked ", "@cert-authority ", "# ", "#", " \t#", " @revoked "])
        elif r < 0.3:
            e.update(rng.choice([{"pre": "  "}, {"sep": "\t"}, {"sep": "   "}, {"post": " a comment"}, {"post": "\t" + rng.choice(keys)[1]},
                                 {"pre": "\t", "sep": " \t", "post": "  x y z"}]))
        es.append(e)
    return es


_imp_cache = {}


def importable(kt, key):
    """can asyncssh load this known_hosts key (the model's `imp` parameter; independent of scrapli)"""
    import asyncssh
    if (kt, key) not in _imp_cache:
        try:
            asyncssh.import_public_key(f"{kt} {key}")
            _imp_cache[(kt, key)] = True
        except Exception:
            _imp_cache[(kt, key)] = False
    return _imp_cache[(kt, key)]


def unimportable_field(entries):
    bad = []
    for e in live(entries):
        if not importable(e["kt"], e["key"]) and (e["kt"], e["key"]) not in bad:
            bad.append((e["kt"], e["key"]))
    return ",".join(f"{hx(a)}:{hx(b)}" for a, b in bad) or "."


def norm_trace(evs):
    """property-relevant view of a trace: the class of a final exception matters only as
    "ScrapliAuthenticationFailed or something else" (which other class is C08's business)"""
    return [e if not e.startswith("raise:") or e == "raise:AuthenticationFailed" else "raise:Other" for e in evs]


# ------------------------------------------------------------------ system transport
def build_open_cmd(a):
    from scrapli.transport.base import BaseTransportArgs
    from scrapli.transport.plugins.system.transport import PluginTransportArgs, SystemTransport
    opts = {"open_cmd": a["user"]} if a["user"] is not None else {}
    t = SystemTransport(BaseTransportArgs(transport_options=opts, host=a["host"], port=a["port"], timeout_socket=a["ts"],
                                          timeout_transport=a["tt"], logging_uid=""),
                        PluginTransportArgs(auth_username=a["username"], auth_private_key=a["key"], auth_strict_key=a["strict"],
                                            ssh_config_file=a["cfg"], ssh_known_hosts_file=a["kh"]))
    t._build_open_cmd()
    return list(t.open_cmd)


def user_list(a):
    u = a["user"]
    return [] if u is None else ([u] if isinstance(u, str) else list(u))


def argv_oracle(a, argv):
    """independent statement on the real argv (needs no model): list of complaints"""
    bad = []
    nuser = len(user_list(a))
    own = argv[:len(argv) - nuser] if nuser else argv
    ovals = [own[i + 1] for i in range(len(own) - 1) if own[i] == "-o"]
    shk = [v for v in ovals if v.startswith("StrictHostKeyChecking=")]
    ukh = [v for v in ovals if v.startswith("UserKnownHostsFile=")]
    if a["strict"] is not False:
        if shk != ["StrictHostKeyChecking=yes"]:
            bad.append(f"strict but scrapli's own -o StrictHostKeyChecking values are {shk}")
        if "UserKnownHostsFile=/dev/null" in ukh and a["kh"] != "/dev/null":
            bad.append("strict but UserKnownHostsFile=/dev/null on the command line")
        if any(v != "UserKnownHostsFile=" + a["kh"] for v in ukh):
            bad.append(f"strict but known hosts file on the command line {ukh} is not the configured {a['kh']!r}")
    else:
        if shk != ["StrictHostKeyChecking=no"]:
            bad.append(f"explicitly non-strict but -o StrictHostKeyChecking values are {shk}")
    return bad


def ssh_G(argv):
    """what the real ssh binary understands: (stricthostkeychecking, userknownhostsfile) or None"""
    exe = shutil.which("ssh")
    if not exe:
        return None
    try:
        p = subprocess.run([exe, "-G", *argv[1:]], capture_output=True, text=True, timeout=20, stdin=subprocess.DEVNULL)
    except Exception:
        return None
    if p.returncode != 0:
        return None
    d = {}
    for line in p.stdout.splitlines():
        k, _, v = line.partition(" ")
        d.setdefault(k, v)
    return d.get("stricthostkeychecking"), d.get("userknownhostsfile")


# ------------------------------------------------------------------ misc
def matcher(case):
    """F27: asyncssh, strict, AND the user's transport_options["asyncssh"] carry `known_hosts: None` (at the attempt
    concerned).  (F19 — asyncssh, strict, host present with a different key — is fixed; its predicate is kept for
    the record: a finding that is not open attributes nothing.)"""
    if case.get("transport") == "asyncssh" and case.get("strict") is True and case.get("user_unpins") is True:
        return "F27"
    if case.get("transport") == "asyncssh" and case.get("strict") is True and case.get("content") == "other":
        return FID
    return None


def trace_oracle(strict, trusted, kex_ok, trace, key_usable=True):
    """trace: list of event strings recorded from the real code.  -> complaint or None.
    The exception CLASS is only demanded when the handshake completes and the private key (if one is
    configured) can be loaded — asyncssh loads client keys before it connects and lets its own
    KeyImportError / FileNotFoundError through; nothing is offered in that case either."""
    if not strict or trusted:
        return None
    if any(e in OFFERS for e in trace):
        return "credentials offered although the server's key is not the known one: " + ",".join(trace)
    if kex_ok and key_usable and (not trace or trace[-1] != "raise:AuthenticationFailed"):
        return "attempt did not end in ScrapliAuthenticationFailed: " + ",".join(trace)
    return None


def load_findings(ck):
    f = VERIF / "findings" / "C10.json"
    if f.exists():
        have = {x["id"] for x in ck.findings}
        ck.findings += [x for x in json.load(open(f)) if x["id"] not in have]


AUTHS = {"password": dict(hasKey=False, hasPw=True), "key": dict(hasKey=True, hasPw=False), "both": dict(hasKey=True, hasPw=True)}


def env_bits(cfg):
    return "".join("1" if cfg.get(k) else "0" for k in ("strict", "hasKey", "keyLoads", "hasPw", "hasUser", "kexOK", "accKey", "accPw", "userUnpins"))


def run(tier, seed):
    from harness import libfakes10 as LF
    from harness import loopback10 as LB
    import asyncssh
    ck = Check(PID, tier, seed, level="proof")
    ck.rule = ("configurations = strict x known_hosts content {absent, right key, other key} x format {plain, comma-listed, hashed "
               "(real HMAC-SHA1)} x auth {password, key, both} x key loadable x server accepts key/password x handshake ok x "
               "transport {paramiko, asyncssh, ssh2 over a stub library}; plus PRNG known_hosts contents (0-6 lines, 1-3 host fields each, "
               "duplicates, several keys per host); system transport: product of strict {True, False}, known-hosts {'' , magic, path, "
               "/dev/null}, config {'', magic, path}, key, user, user open_cmd args (incl. a contradicting -o). Non-trivial = strict on "
               "and the server's key is not the known one (the cases the property speaks about) or a non-default argv part; distinct "
               "by full configuration. Rigs: recording library fakes (call order), real paramiko/asyncssh against an in-process "
               "recording asyncssh server (what the server was shown), real _build_open_cmd + real `ssh -G`.")
    ck.trusted = ["Lean 4.33.0 kernel; axioms of every theorem audited ⊆ {propext, Classical.choice, Quot.sound}",
                  "tools/gen/c10.py (signature defaults, call order of each open(), -o fragments copied from the AST)",
                  "harness/libfakes10.py (recording fakes; asyncssh's own match_known_hosts evaluates what connect() is handed), "
                  "harness/loopback10.py (asyncssh server callbacks record every authentication request)",
                  "OpenSSH: the first value given for an option wins (checked each run against `ssh -G` when ssh is installed)"]
    ck.assumptions = ["PARTIAL: what paramiko / asyncssh put on the wire inside one call (auth_password, connect) is observed by the "
                      "loopback server on the explored configurations, not modelled or proved",
                      "ssh2-python is not installed: Ssh2Transport.open() is modelled by reading; its call order is executed only over a "
                      "stub `ssh2` package written from the calls scrapli makes — the real library is never run",
                      "HMAC-SHA1, base64 and `asyncssh.import_public_key` are parameters of the model (real ones in the harness); the text -> "
                      "entries step of known_hosts is not modelled: the rigs write raw lines (leading blanks, tabs, trailing comments, `#` and "
                      "`@revoked` / `@cert-authority` lines) and hand the model the entries an oracle written independently of scrapli's regex "
                      "extracts; CRLF files, wildcards / negations and [host]:port forms are outside",
                      "asyncssh: the full statement is proved under `transport_options[\"asyncssh\"]` not carrying `known_hosts: None` "
                      "(asyncssh_current_partial); outside that hypothesis it is REFUTED for the source up to 614e50e (open finding F27, "
                      "fix patch fixes/C10-asyncssh-pin-after-user-options.patch) and exercised by rigs B, D, H1",
                      "the loopback server offers password and publickey only (no keyboard-interactive)"]
    # ---- 1 translate, 2 prove
    try:
        translate.translate(PID)
    except Exception as e:
        ck.proof_broken("translator gen/c10.py", repr(e))
    ck.prove("ScrapliProps.C10", lemma_files=["ScrapliProps/C10Lemmas.lean", "ScrapliModel/HostKey.lean", "ScrapliModel/HostKeyTypes.lean"])
    if tier == "thorough":
        ck.leanchecker("ScrapliProps.C10")
    ck.extra.setdefault("rig_seconds", {})["translate+prove"] = round(time.time() - ck.t0, 1)
    load_findings(ck)
    corpus = json.load(open(VERIF / "corpus" / "C10" / "corpus.json"))
    tmp = tempfile.mkdtemp(prefix="c10-")
    nfile = itertools.count()

    def write_kh(entries):
        p = os.path.join(tmp, f"kh{next(nfile)}")
        with open(p, "w") as f:
            f.write(kh_text(entries))
        return p

    # keys for the fakes: real public keys (asyncssh must be able to load them)
    def fields(k):
        kt, b64 = k.export_public_key().decode().split()[:2]
        return kt, b64
    try:
        k_srv, k_other = fields(asyncssh.generate_private_key("ssh-ed25519")), fields(asyncssh.generate_private_key("ssh-ed25519"))
        k_other2 = fields(asyncssh.generate_private_key("ecdsa-sha2-nistp256"))
    except Exception as e:
        raise LB.RigError(f"key generation failed: {e!r}")
    keys = [k_srv, k_other, k_other2] + [unusable_key(v, k_srv, k_other) for v in UNUSABLE + ("mislabel-right",)]

    lines, checks = [], []   # model request lines; per line a closure(model reply) -> None

    def ask(line, fn):
        lines.append(line)
        checks.append(fn)

    def guarded(name, fn):
        """an exception escaping a rig because the code under test behaves differently is a broken correspondence
        (=> exit 1 after the other rigs have searched for a failing input), never a harness failure; only trouble of
        the rig itself (RigError) is exit 2"""
        t0 = time.time()
        try:
            fn()
        except LB.RigError:
            raise
        except Exception:
            ck.proof_broken(f"rig {name} raised on the code under test", traceback.format_exc())
        finally:
            ck.extra.setdefault("rig_seconds", {})[name.split(" ")[0]] = round(time.time() - t0, 1)

    # ================= A: known_hosts lookup
    from scrapli.ssh_config import SSHKnownHosts

    def norm_entries(entries):
        return [{"ids": [tuple(i) if i[0] == "p" else (i[0], bytes.fromhex(i[1]) if isinstance(i[1], str) else i[1], i[2]) for i in e["ids"]],
                 "kt": e["kt"], "key": e["key"], **{k: e[k] for k in ("pre", "sep", "post") if k in e}} for e in entries]

    def rig_A():
        lk_cases = [(c["entries"], c["host"], "corpus") for c in corpus if c.get("kind") == "lookup"]
        for h in ("r1", "127.0.0.1"):
            for fmt in ("plain", "comma", "hashed"):
                for content in CONTENTS_ALL:
                    lk_cases.append((structured_entries(fmt, content, h, k_srv, k_other), h, content.split(":")[0]))
        for _ in range(400 if tier == "quick" else 8000):
            h = ck.rng.choice(HOSTS)
            lk_cases.append((random_entries(ck.rng, keys, h if ck.rng.random() < 0.7 else None), h, "random"))
        for entries, host, kind in lk_cases:
            entries = norm_entries(entries)
            text = kh_text(entries)
            naming = [e for e in entries if names(e, host)]
            case = {"rig": "lookup", "host": host, "known_hosts": text}
            near = any(host != i[-1] and (host in i[-1] or i[-1] in host) for e in entries for i in e["ids"])
            ck.case(("lk", host, text), nontrivial=len(naming) > 0 or near,
                    tags=("A:lookup", f"A:{kind}", f"A:lines-naming-host={min(len(naming), 3)}", f"A:near-miss-name-present={near}"), sample=case)
            try:
                real = SSHKnownHosts(write_kh(entries)).lookup(host)
                got = f"{hx(real['key_type'])} {hx(real['public_key'])}" if real else "none"
            except Exception as e:
                real, got = None, f"EXC:{type(e).__name__}"
                ck.violation(case, f"SSHKnownHosts(...).lookup({host}) raised {e!r} on a well-formed known_hosts file", matcher)
            # oracle: what is returned is the key of SOME line naming the host; nothing is returned iff no line names it
            if real and not any(e["key"] == real["public_key"] for e in naming):
                ck.violation(case, f"lookup({host}) returned a key no line for that host holds: {real}", matcher)
            if real is not None and bool(real) != bool(naming):
                ck.violation(case, f"lookup({host}) found={bool(real)} but lines naming the host: {len(naming)}", matcher)
            tbl, ents = model_entries(entries, host)

            def cmp(reply, got=got, case=case):
                if reply != got:
                    ck.disagree("known_hosts lookup model vs SSHKnownHosts.lookup", case, f"impl={got} model={reply}")
                else:
                    ck.traces_validated += 1
            ask(f"lookup {hx(host)} {tbl} {ents}", cmp)
    guarded("A (known_hosts lookup)", rig_A)

    # ================= B: library fakes
    have_ssh2 = LF.ssh2_available()
    ck.extra["ssh2_stub_used"] = have_ssh2
    libs = ["paramiko", "asyncssh"] + (["ssh2"] if have_ssh2 else [])
    host = "r1"

    def fake_case(lib, cfg, entries, content, fmt, auth, tagx=()):
        kh = write_kh(entries)
        try:
            if lib == "paramiko":
                tr = LF.run_paramiko(cfg, kh, host, k_srv[1], k_srv[0])
            elif lib == "ssh2":
                tr = LF.run_ssh2(cfg, kh, host, k_srv[1])
            else:
                tr, _ = LF.run_asyncssh(cfg, kh, host, k_srv[1], k_srv[0])
        except Exception as e:   # the fakes met behaviour they cannot play: shows up as disagreement + oracle complaint
            tr = [f"harness-exception:{type(e).__name__}:{e}"[:120].replace(" ", "_").replace(",", ";")]
        naming = [e for e in entries if names(e, host)]
        trusted = any(e["key"] == k_srv[1] for e in naming)
        unus = any(not importable(e["kt"], e["key"]) for e in naming)
        case = {"rig": "fakes", "transport": lib, "strict": cfg["strict"], "content": content, "format": fmt, "auth": auth,
                "user_unpins": bool(cfg.get("userUnpins")), "cfg": {k: cfg.get(k, False) for k in LF.BITS}, "known_hosts": kh_text(entries),
                "host": host, "trace": tr}
        ck.case(("fk", lib, env_bits(cfg), kh_text(entries)), nontrivial=cfg["strict"] and not trusted,
                tags=(f"B:{lib}", f"B:strict={cfg['strict']}", f"B:content={content.split(':')[0]}", f"B:format={fmt}", f"B:auth={auth}",
                      f"B:host-line-key-unusable={unus}", f"B:user-options-known_hosts-None={bool(cfg.get('userUnpins'))}", *tagx),
                sample={k: case[k] for k in ("transport", "strict", "content", "format", "auth", "trace")})
        bad = trace_oracle(cfg["strict"], trusted, cfg["kexOK"], tr, key_usable=lib != "asyncssh" or not cfg["hasKey"] or cfg["keyLoads"])
        if bad:
            ck.violation(case, f"{lib} (library fakes): {bad}", matcher)
        tbl, ents = model_entries(entries, host)

        def cmp(reply, tr=tr, case=case):
            mt = ",".join(norm_trace([x for x in reply.split(" ")[0].split(",") if x != "."])) or "."
            got = ",".join(norm_trace(tr)) or "."
            if mt != got:
                ck.disagree(f"HostKey model vs {case['transport']} open() over library fakes", case, f"impl={got} model={mt}")
            else:
                ck.traces_validated += 1
        ask(f"openkh {lib} {env_bits(cfg)} {hx(host)} {hx(k_srv[1])} {tbl} {unimportable_field(entries)} {ents}", cmp)

    def cfg_of(strict, auth, key_loads=True, acc=(True, True), kex=True, user=True, unpin=False):
        return dict(strict=strict, keyLoads=key_loads, hasUser=user, kexOK=kex, accKey=acc[0], accPw=acc[1], userUnpins=unpin, **AUTHS[auth])

    def rig_B():
        for c in corpus:
            if c.get("kind") == "fakes":
                for lib in libs:
                    fake_case(lib, cfg_of(c["strict"], c["auth"]), structured_entries(c["format"], c["content"], host, k_srv, k_other),
                              c["content"], c["format"], c["auth"], ("B:corpus",))
        for lib in libs:
            for strict in (True, False):
                for content in CONTENTS_ALL:
                    full = tier == "thorough" or content in ("absent", "right", "other")
                    for fmt in ("plain", "comma", "hashed"):
                        es = structured_entries(fmt, content, host, k_srv, k_other if fmt != "comma" else k_other2)
                        for auth in ("password", "key", "both"):
                            for kl in ((True, False) if auth != "password" and full else (True,)):
                                for acc in (((True, True), (False, True), (False, False)) if full else ((True, True),)):
                                    fake_case(lib, cfg_of(strict, auth, kl, acc), es, content, fmt, auth)
                            if full or auth == "password":
                                fake_case(lib, cfg_of(strict, auth, kex=False), es, content, fmt, auth, ("B:handshake-fails",))
                        if full:
                            fake_case(lib, cfg_of(strict, "both", user=False, acc=(False, True)), es, content, fmt, "both", ("B:no-username",))
            # the user's transport options ask the library for `known_hosts: None`: strict checking must hold all the same
            for strict in (True, False):
                for content in CONTENTS_ALL:
                    for fmt in (("plain", "comma", "hashed") if tier == "thorough" else ("plain",)):
                        es = structured_entries(fmt, content, host, k_srv, k_other)
                        for auth in ("password", "both"):
                            fake_case(lib, cfg_of(strict, auth, unpin=True), es, content, fmt, auth)
            for _ in range(150 if tier == "quick" else 3000):
                es = random_entries(ck.rng, keys, host if ck.rng.random() < 0.8 else None)
                auth = ck.rng.choice(list(AUTHS))
                cfg = cfg_of(ck.rng.random() < 0.8, auth, ck.rng.random() < 0.8, ck.rng.choice([(True, True), (False, True), (False, False)]),
                             ck.rng.random() < 0.9, unpin=ck.rng.random() < 0.2)
                nm = [e["key"] == k_srv[1] for e in es if names(e, host)]
                content = "absent" if not nm else "right" if all(nm) else "other" if not any(nm) else "mixed"
                fake_case(lib, cfg, es, content, "random", auth, ("B:random-known_hosts",))
        # what strict mode hands to connect() (non-default port too); nothing when not strict
        es = structured_entries("plain", "right", host, k_srv, k_other)
        _, kw = LF.run_asyncssh(cfg_of(True, "password"), write_kh(es), host, k_srv[1], k_srv[0], port=2222)
        ck.extra["asyncssh_connect_known_hosts_when_strict"] = "expected key handed over" if kw.get("known_hosts") is not None else "None"
        _, kw2 = LF.run_asyncssh(cfg_of(False, "password"), write_kh(es), host, k_srv[1], k_srv[0])
        if kw2.get("known_hosts") is not None:
            ck.notes.append("asyncssh: known_hosts handed to connect() even when not strict")
    guarded("B (library fakes)", rig_B)

    # ================= H1: HISTORIES over the library fakes — several open() attempts on ONE transport object
    H_CONTENTS = ["absent", "right", "other", "unusable:trunc", "nearmiss:sfx"]

    def bits11(cfg):
        return "".join("1" if cfg.get(k) else "0" for k in ("strict", "found", "equal", "importable", "hasKey", "keyLoads", "hasPw", "hasUser",
                                                              "kexOK", "accKey", "accPw", "userUnpins"))

    def abstract(es, h, right_b64, cfg):
        nm = [e for e in es if names(e, h)]
        he = nm[-1] if nm else None
        return dict(cfg, found=he is not None, equal=he is not None and he["key"] == right_b64,
                    importable=he is not None and importable(he["kt"], he["key"]))

    def fake_history(lib, steps, auth, strict=True, tagx=()):
        """steps: [(content, fmt, close_before, acc, kexOK[, new transport object[, user options carry known_hosts None]])]"""
        steps = [tuple(st) + (False, False)[len(st) - 5:] for st in steps]
        atts, metas = [], []
        for content, fmt, close, acc, kex, new, unpin in steps:
            es = structured_entries(fmt, content, host, k_srv, k_other)
            cfg = cfg_of(strict, auth, acc=acc, kex=kex, unpin=unpin)
            atts.append({"cfg": cfg, "close": close, "text": kh_text(es), "new": new})
            metas.append((es, cfg))
        kh = write_kh([])
        try:
            if lib == "paramiko":
                res = LF.history_paramiko(atts, kh, host, k_srv[1], k_srv[0])
            elif lib == "ssh2":
                res = LF.history_ssh2(atts, kh, host, k_srv[1])
            else:
                res = LF.history_asyncssh(atts, kh, host, k_srv[1], k_srv[0])
        except Exception as e:
            res = [([f"harness-exception:{type(e).__name__}:{e}"[:120].replace(" ", "_").replace(",", ";")], False)] * len(atts)
        case = {"rig": "fakes-history", "transport": lib, "strict": strict, "auth": auth,
                "attempts": [{"content": c, "format": f, "close_before": cl, "server_accepts": list(acc), "handshake_ok": kx,
                              "new_transport_object": nw, "user_unpins": up} for c, f, cl, acc, kx, nw, up in steps],
                "traces": [tr for tr, _ in res]}
        nt = False
        for i, ((es, cfg), (tr, _)) in enumerate(zip(metas, res)):
            trusted = any(e["key"] == k_srv[1] for e in es if names(e, host))
            nt = nt or (strict and not trusted and i > 0)
            bad = trace_oracle(strict, trusted, cfg["kexOK"], [x for x in tr if not x.startswith("close-raised")],
                               key_usable=lib != "asyncssh" or not cfg["hasKey"] or cfg["keyLoads"])
            if bad:
                ck.violation({**case, "attempt": i + 1, "content": steps[i][0], "user_unpins": steps[i][6]},
                             f"{lib} (library fakes), attempt {i + 1} of a history in one process "
                             f"({'a new transport object on the same known_hosts path' if steps[i][5] else 'the same transport object'}): {bad}", matcher)
        ck.case(("fh", lib, auth, strict, tuple(steps)), nontrivial=nt,
                tags=(f"H1:{lib}", f"H1:attempts={len(steps)}", "H1:close-between=" + "".join(str(int(x[2])) for x in steps[1:]),
                      "H1:new-object=" + "".join(str(int(x[5])) for x in steps[1:]), "H1:" + "→".join(x[0].split(":")[0] for x in steps), *tagx),
                sample={k: case[k] for k in ("transport", "auth", "attempts", "traces")})
        line = f"hist {lib} " + ";".join(f"{int(at['close'] or at['new'])}:{bits11(abstract(es, host, k_srv[1], cfg))}" for at, (es, cfg) in zip(atts, metas))

        def cmp(reply, res=res, case=case):
            parts = reply.split("|")
            mts = [",".join(norm_trace([x for x in pt.split("/")[0].split(",") if x != "."])) or "." for pt in parts]
            got = [",".join(norm_trace(tr)) or "." for tr, _ in res]
            if mts != got:
                ck.disagree(f"HostKey model vs {case['transport']} open() HISTORY over library fakes", case, f"impl={got} model={mts}")
            else:
                ck.traces_validated += 1
                left_m = [pt.split("/")[-1] == "1" for pt in parts]
                if left_m != [bool(x) for _, x in res]:
                    ck.extra["advisory_session_left_behind_differs"] = ck.extra.get("advisory_session_left_behind_differs", 0) + 1
        ask(line, cmp)

    def rig_H1():
        OK = (True, True)
        for lib in libs:
            for c in corpus:
                if c.get("kind") == "history":
                    fake_history(lib, [(x["content"], x.get("format", "plain"), x["close_before"], OK, True) for x in c["attempts"]],
                                 c["auth"], tagx=("H1:corpus",))
            for c1 in H_CONTENTS:
                for c2 in H_CONTENTS:
                    for close in (False, True):
                        for auth in ("password", "key", "both"):
                            fake_history(lib, [(c1, "plain", False, OK, True), (c2, "plain", close, OK, True)], auth)
                        fake_history(lib, [(c1, "hashed", False, OK, False), (c2, "comma", close, OK, True)], "password", tagx=("H1:first-handshake-fails",))
                        fake_history(lib, [(c1, "comma", False, (False, False), True), (c2, "hashed", close, OK, True)], "both", tagx=("H1:first-login-refused",))
            n3 = 150 if tier == "quick" else None
            all3 = [(a1, a2, a3, x2, x3) for a1 in H_CONTENTS for a2 in H_CONTENTS for a3 in H_CONTENTS for x2 in (False, True) for x3 in (False, True)]
            pick = all3 if n3 is None else ck.rng.sample(all3, n3)
            for a1, a2, a3, x2, x3 in pick:
                fake_history(lib, [(a1, "plain", False, OK, True), (a2, ck.rng.choice(["plain", "comma", "hashed"]), x2, OK, ck.rng.random() < 0.9),
                                   (a3, "plain", x3, ck.rng.choice([OK, (False, True), (False, False)]), True)], ck.rng.choice(list(AUTHS)))
            fake_history(lib, [("right", "plain", False, OK, True), ("other", "plain", False, OK, True)], "password", strict=False, tagx=("H1:non-strict",))
            # the known_hosts FILE is edited between two connections of one process: same object, and a NEW object on the same path
            for c1 in H_CONTENTS + ["marker:revoked"]:
                for c2 in H_CONTENTS + ["marker:revoked"]:
                    fake_history(lib, [(c1, "plain", False, OK, True), (c2, "plain", False, OK, True, True)], "password", tagx=("H1:file-edited-new-object",))
            fake_history(lib, [("right", "hashed", False, OK, True), ("right", "hashed", True, OK, True), ("other", "hashed", False, OK, True, True)], "both",
                         tagx=("H1:file-edited-new-object",))
            # the user's options ask for known_hosts None at some attempt
            for c1, c2 in (("right", "other"), ("other", "other"), ("absent", "other"), ("other", "right")):
                for close in (False, True):
                    fake_history(lib, [(c1, "plain", False, OK, True), (c2, "plain", close, OK, True, False, True)], "password", tagx=("H1:user-unpins",))
    guarded("H1 (histories over library fakes)", rig_H1)

    # ================= C: system transport
    def rig_C():
        from scrapli.transport.plugins.system.transport import SystemTransport
        MK, MC = SystemTransport.SSH_SYSTEM_KNOWN_HOSTS_FILE_MAGIC_STRING, SystemTransport.SSH_SYSTEM_CONFIG_MAGIC_STRING
        sys_cases = [dict(c["args"]) for c in corpus if c.get("kind") == "sys"]
        khs = ["", MK, "/home/u/.ssh/known_hosts", "/dev/null", "kh with blank"]
        cfgs = ["", MC, "/etc/ssh/ssh_config"]
        users = [None, [], ["-o", "StrictHostKeyChecking=no"], "-v", ["-o", "UserKnownHostsFile=/dev/null", "-o", "StrictHostKeyChecking=no"]]
        for strict in (True, False):
            for kh in khs:
                for cf in cfgs:
                    for key in ("", "/k/id_rsa"):
                        for un in ("", "bob"):
                            for u in users:
                                sys_cases.append(dict(host="r1", port=22, ts=15, tt=30, username=un, key=key, strict=strict, cfg=cf, kh=kh, user=u))
        for _ in range(200 if tier == "quick" else 4000):
            sys_cases.append(dict(host=ck.rng.choice(HOSTS), port=ck.rng.choice([22, 2222, 830, 65535]), ts=ck.rng.choice([0, 1, 15, 120]),
                                  tt=ck.rng.choice([0, 30, 600]), username=ck.rng.choice(["", "bob", "StrictHostKeyChecking=no"]),
                                  key=ck.rng.choice(["", "/k/id", "UserKnownHostsFile=/dev/null"]), strict=ck.rng.random() < 0.7,
                                  cfg=ck.rng.choice(cfgs), kh=ck.rng.choice(khs), user=ck.rng.choice(users)))
        adv_sys = [dict(host="r1", port=22, ts=15, tt=30, username="bob", key="", strict=v, cfg="", kh="", user=None) for v in (None, 0, 1, "")]
        try:
            when = [l for l in open(VERIF / "lean/ScrapliModel/Gen/HostKeyGen.lean") if l.startswith("def sysNonStrictWhen")][0].split('"')[1]
        except Exception:
            when = "isFalse"
        nG = 0
        G_budget = 60 if tier == "quick" else 600
        ck.extra["ssh_G_checked"] = 0
        for i, a in enumerate(sys_cases + adv_sys):
            indom = i < len(sys_cases)
            try:
                argv = build_open_cmd(a)
            except Exception as e:
                if indom:
                    ck.violation({"rig": "system", "args": a}, f"_build_open_cmd raised {e!r}", matcher)
                continue
            case = {"rig": "system", "args": a, "argv": argv}
            if indom:
                ck.case(("sys", json.dumps(a, sort_keys=True, default=str)), nontrivial=a["strict"] is not False,
                        tags=("C:system", f"C:strict={a['strict']}", "C:kh=" + ("empty" if a["kh"] == "" else "magic" if a["kh"] == MK else "devnull" if a["kh"] == "/dev/null" else "path"),
                              "C:user-args=" + ("none" if not user_list(a) else "contradicting" if "StrictHostKeyChecking=no" in user_list(a) else "other")),
                        sample={"args": a, "argv": argv})
                for bad in argv_oracle(a, argv):
                    ck.violation(case, "system transport: " + bad, matcher)
                if nG < G_budget and (i % 7 == 0 or "StrictHostKeyChecking=no" in user_list(a)):
                    g = ssh_G(argv)
                    if g is not None:
                        nG += 1
                        want = "false" if a["strict"] is False else "true"
                        if g[0] not in (want, "yes" if want == "true" else "no"):
                            ck.violation({**case, "ssh_G": g}, f"the real ssh binary reads stricthostkeychecking={g[0]} from this argv (strict={a['strict']})", matcher)
                        if (a["strict"] is not False and g[1] == "/dev/null" and a["kh"] != "/dev/null"
                                and "UserKnownHostsFile=/dev/null" not in user_list(a)):
                            ck.violation({**case, "ssh_G": g}, "the real ssh binary uses /dev/null as known hosts file although strict", matcher)
            off = (a["strict"] is False) if when == "isFalse" else (not a["strict"])
            ul = ",".join(hx(x) for x in user_list(a)) or "."

            def cmp(reply, argv=argv, case=case, indom=indom, a=a):
                margv = [unhx(x) for x in reply.split(" ")[0].split(",")]
                if margv != argv:
                    if indom:
                        ck.disagree("HostKey model buildOpenCmd vs SystemTransport._build_open_cmd", case, f"impl={argv} model={margv}")
                    else:
                        ck.extra["advisory_nonbool_strict_disagreements"] = ck.extra.get("advisory_nonbool_strict_disagreements", 0) + 1
                elif indom:
                    ck.traces_validated += 1
            ask(f"sys {hx(a['host'])} {a['port']} {int(a['ts'])} {int(a['tt'])} {hx(a['key'])} {hx(a['username'])} {int(off)} {hx(a['kh'])} {hx(a['cfg'])} {ul}", cmp)
        ck.extra["ssh_G_checked"] = nG
        ck.extra["advisory_nonbool_strict_cases"] = len(adv_sys)
    guarded("C (system argv)", rig_C)

    # ================= E: defaults on real objects
    guarded("E (defaults)", lambda: default_cases(ck))

    # ================= D: real libraries against the recording loopback server
    rig = LB.Rig().start()
    try:
        def rig_D():
            rig_cases = []
            for c in corpus:
                if c.get("kind") == "loopback":
                    rig_cases.append((c["transport"], c["strict"], c["content"], c["format"], c["auth"], "rsa"))
            for tr in ("paramiko", "asyncssh"):
                for content in CONTENTS_UNTRUSTED:
                    simple = content in ("absent", "other")
                    for fmt in ("plain", "comma", "hashed"):
                        for auth in (("password", "key", "both") if simple or tier == "thorough" or (fmt == "plain" and content.startswith("unusable")) else ("password",)):
                            rig_cases.append((tr, True, content, fmt, auth, "rsa"))
                rig_cases += [(tr, True, "other", "plain", "password", "ed25519"), (tr, True, "unusable:mislabel", "hashed", "both", "ed25519"),
                              (tr, True, "right", "plain", "password", "rsa"), (tr, True, "right", "hashed", "key", "rsa"),
                              (tr, True, "unusable:mislabel-right", "plain", "password", "rsa"),
                              (tr, False, "other", "comma", "password", "rsa"), (tr, False, "absent", "plain", "both", "rsa"),
                              (tr, False, "unusable:garbage", "plain", "password", "rsa")]
                if tier == "thorough":
                    for strict in (True, False):
                        for content in CONTENTS_ALL:
                            for fmt in ("plain", "comma", "hashed"):
                                for auth in (("password", "key", "both") if content in ("absent", "right", "other") else ("password",)):
                                    rig_cases.append((tr, strict, content, fmt, auth, "rsa" if fmt != "comma" else "ed25519"))
                # the user's transport options carry `known_hosts: None`
                for content in ("other", "absent", "unusable:trunc", "marker:revoked", "nearmiss:sfx", "right"):
                    for auth in (("password", "key") if content == "other" else ("password",)):
                        rig_cases.append((tr, True, content, "plain", auth, "rsa", True))
                rig_cases.append((tr, False, "other", "plain", "password", "rsa", True))
            rig_cases = [rc if len(rc) == 7 else rc + (False,) for rc in rig_cases]
            seen_keys = set()
            results = []

            def host_entry(rc):
                tr, strict, content, fmt, auth, ok, unpin = rc
                es = structured_entries(fmt, content, LB.HOST, rig.right, rig.other if ok == "rsa" else rig.other_ed)
                nm = [e for e in es if names(e, LB.HOST)]
                return es, (nm[-1] if nm else None)

            async def drive():
                loop = asyncio.get_running_loop()
                for rc in rig_cases:
                    if rc in seen_keys:
                        continue
                    seen_keys.add(rc)
                    tr, strict, content, fmt, auth, ok, unpin = rc
                    es, he = host_entry(rc)
                    trusted = he is not None and he["key"] == rig.right[1]
                    kh = rig.write(kh_text(es))
                    for attempt in (0, 1, 2):
                        t0 = time.time()
                        if tr == "paramiko":
                            out, seen = await loop.run_in_executor(None, rig.run_paramiko, auth, strict, kh, unpin)
                        else:
                            out, seen = await rig.run_asyncssh(auth, strict, kh, unpin)
                        expect_ok = (not strict) or content == "right"
                        if expect_ok and out != "ok" and attempt == 0:
                            continue   # one retry for accept cases (machine load)
                        if strict and not trusted and not seen and out == "ScrapliConnectionNotOpened" and attempt < 2:
                            # the TCP connection was lost during key exchange before the client reached its verdict (both ends refuse
                            # at the same time; seen on a loaded machine, stress seed 107): not a verdict about the key -- try again;
                            # a wrong error class that is what the code DOES persists over the three attempts and is reported
                            ck.extra["loopback_reject_cases_retried_after_connection_loss"] = ck.extra.get("loopback_reject_cases_retried_after_connection_loss", 0) + 1
                            continue
                        if expect_ok and out != "ok" and time.time() - t0 > 8:
                            raise LB.RigError(f"loopback connection timed out under load: {rc} -> {out}")
                        break
                    results.append((rc, out, seen, kh_text(es), he, trusted))
            asyncio.run(drive())
            for rc, out, seen, text, he, trusted in results:
                tr, strict, content, fmt, auth, ok, unpin = rc
                case = {"rig": "loopback", "transport": tr, "strict": strict, "content": content, "format": fmt, "auth": auth,
                        "user_unpins": unpin, "other_key_type": ok, "outcome": out, "server_saw": [k for k, _ in seen], "known_hosts": text, "host": LB.HOST}
                ck.case(("lb",) + rc, nontrivial=strict and not trusted,
                        tags=(f"D:{tr}", f"D:strict={strict}", f"D:content={content.split(':')[0]}", f"D:format={fmt}", f"D:auth={auth}",
                              f"D:user-options-known_hosts-None={unpin}"),
                        sample={k: v for k, v in case.items() if k != "known_hosts"})
                if strict and not trusted:
                    if seen:
                        ck.violation(case, f"REAL {tr} against the recording server: strict, known_hosts content '{content}', yet the server was "
                                           f"shown {[k for k, _ in seen]} before the client gave up ({out})", matcher)
                    elif out != "ScrapliAuthenticationFailed":
                        ck.violation(case, f"REAL {tr}: strict, content '{content}': ended in {out}, not ScrapliAuthenticationFailed", matcher)
                cfg = dict(strict=strict, found=he is not None, equal=trusted, importable=he is not None and importable(he["kt"], he["key"]),
                           keyLoads=True, hasUser=True, kexOK=True, accKey=True, accPw=True, userUnpins=unpin, **AUTHS[auth])
                b = bits11(cfg)

                def cmp(reply, case=case, out=out, seen=seen):
                    evs = reply.split(" ")[0].split(",")
                    m_out = "ok" if evs[-1] == "openSession" else "ScrapliAuthenticationFailed" if evs[-1] == "raise:AuthenticationFailed" else "other"
                    m_off = any(e in OFFERS for e in evs)
                    r_out = out if out in ("ok", "ScrapliAuthenticationFailed") else "other"
                    if (m_out, m_off) != (r_out, bool(seen)):
                        ck.disagree(f"HostKey model vs REAL {case['transport']} against the loopback server", case,
                                    f"impl=(outcome {out}, server saw auth {bool(seen)}) model=({m_out}, {m_off}) trace={reply}")
                    else:
                        ck.traces_validated += 1
                ask(f"open {tr} {b}", cmp)
        guarded("D (loopback server)", rig_D)
        # ================= H2: HISTORIES against the recording server — REAL libraries, ONE transport object
        def rig_H2():
            hs = [(c["transport"], c["auth"], [(x["content"], x["close_before"], x.get("new_transport_object", False)) for x in c["attempts"]])
                  for c in corpus if c.get("kind") == "history" and c.get("transport") in ("paramiko", "asyncssh")]
            cont = ["absent", "right", "other", "unusable:trunc"]
            for c1 in cont:
                for c2 in cont:
                    for close in (False, True):
                        hs.append(("asyncssh", "password", [(c1, False), (c2, close)]))
                        if close or tier == "thorough":
                            hs.append(("paramiko", "password", [(c1, False), (c2, close)]))
            # a retry WITHOUT close() on real paramiko costs a banner time-out (4 s) on a tree that starts a second handshake
            hs += [("paramiko", "password", [("absent", False), ("absent", False)]), ("paramiko", "both", [("other", False), ("right", False)]),
                   ("paramiko", "key", [("other", False), ("other", True), ("right", True)]),
                   ("asyncssh", "both", [("other", False), ("absent", False), ("right", True)]),
                   ("asyncssh", "key", [("right", False), ("other", False), ("other", True)])]
            # the known_hosts FILE is edited between two connections of one process, the second on a NEW transport object (same path)
            for c1 in cont + ["marker:revoked"]:
                for c2 in cont + ["marker:revoked"]:
                    if c1 != c2 or tier == "thorough":
                        hs.append(("asyncssh", "password", [(c1, False), (c2, False, True)]))
                        hs.append(("paramiko", "password", [(c1, False), (c2, False, True)]))
            hs = [(tr, auth, [tuple(st) + (False,) * (3 - len(st)) for st in steps]) for tr, auth, steps in hs]
            done = set()
            results = []

            async def drive():
                loop = asyncio.get_running_loop()
                for tr, auth, steps in hs:
                    k = (tr, auth, tuple(steps))
                    if k in done:
                        continue
                    done.add(k)
                    ess = [structured_entries("plain", c, LB.HOST, rig.right, rig.other) for c, _, _ in steps]
                    atts = [{"close": cl, "text": kh_text(es), "new": nw} for es, (_, cl, nw) in zip(ess, steps)]
                    kh = rig.write("")
                    if tr == "paramiko":
                        res = await loop.run_in_executor(None, rig.history_paramiko, auth, True, kh, atts)
                    else:
                        res = await rig.history_asyncssh(auth, True, kh, atts)
                    results.append((tr, auth, steps, ess, res))
            asyncio.run(drive())
            for tr, auth, steps, ess, res in results:
                case = {"rig": "loopback-history", "transport": tr, "strict": True, "auth": auth,
                        "attempts": [{"content": c, "format": "plain", "close_before": cl, "new_transport_object": nw} for c, cl, nw in steps],
                        "outcomes": [o for o, _ in res], "server_saw": [[k for k, _ in sn] for _, sn in res]}
                nt = False
                cfgs = []
                for i, (es, (out, seen)) in enumerate(zip(ess, res)):
                    trusted = any(e["key"] == rig.right[1] for e in es if names(e, LB.HOST))
                    nt = nt or (not trusted and i > 0)
                    retry_same_socket = i > 0 and not steps[i][1] and not steps[i][2]
                    if not trusted:
                        if seen:
                            ck.violation({**case, "attempt": i + 1, "content": steps[i][0]},
                                         f"REAL {tr} against the recording server, attempt {i + 1} of a history in one process "
                                         f"({'new transport object, same known_hosts path' if steps[i][2] else 'same transport object'}): strict, known_hosts content "
                                         f"'{steps[i][0]}' at that attempt, yet the server was shown {[k for k, _ in seen]} ({out})", matcher)
                        elif out != "ScrapliAuthenticationFailed" and not (retry_same_socket and out == "ScrapliConnectionNotOpened"):
                            ck.violation({**case, "attempt": i + 1, "content": steps[i][0]},
                                         f"REAL {tr}, attempt {i + 1}: strict, content '{steps[i][0]}': ended in {out}, not ScrapliAuthenticationFailed", matcher)
                    # a handshake that did not complete (second handshake on a used socket) is a fact of the environment
                    cfgs.append(abstract(es, LB.HOST, rig.right[1], dict(strict=True, keyLoads=True, hasUser=True, accKey=True, accPw=True,
                                                                         kexOK=out != "ScrapliConnectionNotOpened", **AUTHS[auth])))
                ck.case(("lh", tr, auth, tuple(steps)), nontrivial=nt,
                        tags=(f"H2:{tr}", f"H2:attempts={len(steps)}", "H2:close-between=" + "".join(str(int(c)) for _, c, _ in steps[1:]),
                              "H2:new-object=" + "".join(str(int(n)) for _, _, n in steps[1:]),
                              "H2:" + "→".join(c.split(":")[0] for c, _, _ in steps)), sample=case)

                def cmp(reply, case=case, res=res):
                    ok = True
                    for pt, (out, seen) in zip(reply.split("|"), res):
                        evs = pt.split("/")[0].split(",")
                        m_out = "ok" if evs[-1] == "openSession" else "ScrapliAuthenticationFailed" if evs[-1] == "raise:AuthenticationFailed" else "other"
                        r_out = out if out in ("ok", "ScrapliAuthenticationFailed") else "other"
                        ok = ok and (m_out, any(e in OFFERS for e in evs)) == (r_out, bool(seen))
                    if not ok:
                        ck.disagree(f"HostKey model vs REAL {case['transport']} HISTORY against the loopback server", case, f"model={reply}")
                    else:
                        ck.traces_validated += 1
                ask(f"hist {tr} " + ";".join(f"{int(cl or nw)}:{bits11(c)}" for (_, cl, nw), c in zip(steps, cfgs)), cmp)
        guarded("H2 (histories against the loopback server)", rig_H2)
        # ---- OPEN known findings: replay the stored witness on the real code
        f27 = next((f for f in ck.findings if f["id"] == "F27" and f.get("status") == "open"), None)
        if f27:
            w = f27["witness"]
            es = structured_entries(w["format"], w["content"], LB.HOST, rig.right, rig.other)
            out, seen = asyncio.run(rig.run_asyncssh(w["auth"], w["strict"], rig.write(kh_text(es)), True))
            if seen:
                ck.known_finding("F27", f27["what"])
            ck.extra["F27_witness_server_saw"] = [k for k, _ in seen]
        f19 = next((f for f in ck.findings if f["id"] == FID and f.get("status") == "open"), None)
        if f19:
            w = f19["witness"]
            es = structured_entries(w["format"], w["content"], LB.HOST, rig.right, rig.other)
            out, seen = asyncio.run(rig.run_asyncssh(w["auth"], w["strict"], rig.write(kh_text(es))))
            if seen:
                ck.known_finding(FID, f19["what"])
            ck.extra["F19_witness_server_saw"] = [k for k, _ in seen]
    finally:
        rig.stop()
        shutil.rmtree(rig.tmp, ignore_errors=True)

    # ================= model
    ask("order", lambda reply: ck.extra.__setitem__("open_call_order_from_source", reply))
    t_model = time.time()
    try:
        mout = run_model("C10", lines)
        for fn, reply in zip(checks, mout):
            fn(reply)
    except Exception as e:
        ck.proof_broken("model driver Drv/C10.lean", repr(e))
    ck.extra["rig_seconds"]["model"] = round(time.time() - t_model, 1)
    shutil.rmtree(tmp, ignore_errors=True)
    ck.exhaustive = True
    ck.extra["exhaustive_scope"] = ("library fakes: the whole product strict x content x format x auth x key-loadable x server-accepts x "
                                    "handshake for each transport; loopback: every strict-and-untrusted combination content x format x auth "
                                    "per transport; system: the whole product of the listed argument values")
    return ck.finish()


def default_cases(ck):
    """E: on real objects — omitting auth_strict_key gives True all the way into the transport's arguments;
    an explicit False arrives as False; a non-bool is refused"""
    from scrapli import AsyncScrapli, Scrapli
    from scrapli.driver import AsyncDriver, AsyncGenericDriver, Driver, GenericDriver
    from scrapli.driver.core import (AsyncEOSDriver, AsyncIOSXEDriver, AsyncIOSXRDriver, AsyncJunosDriver, AsyncNXOSDriver,
                                     EOSDriver, IOSXEDriver, IOSXRDriver, JunosDriver, NXOSDriver)
    from scrapli.exceptions import ScrapliTypeError
    sync = [Driver, GenericDriver, EOSDriver, IOSXEDriver, IOSXRDriver, JunosDriver, NXOSDriver]
    asy = [AsyncDriver, AsyncGenericDriver, AsyncEOSDriver, AsyncIOSXEDriver, AsyncIOSXRDriver, AsyncJunosDriver, AsyncNXOSDriver]
    plats = ["cisco_iosxe", "cisco_nxos", "cisco_iosxr", "arista_eos", "juniper_junos"]
    makers = []
    for cls in sync:
        for tr in ("system", "paramiko"):
            makers.append((f"{cls.__name__}/{tr}", lambda kw, cls=cls, tr=tr: cls(host="r1", transport=tr, **kw)))
    for cls in asy:
        makers.append((f"{cls.__name__}/asyncssh", lambda kw, cls=cls: cls(host="r1", transport="asyncssh", **kw)))
    for p in plats:
        makers.append((f"Scrapli({p})/system", lambda kw, p=p: Scrapli(platform=p, host="r1", **kw)))
        makers.append((f"Scrapli({p})/paramiko", lambda kw, p=p: Scrapli(platform=p, host="r1", transport="paramiko", **kw)))
        makers.append((f"AsyncScrapli({p})/asyncssh", lambda kw, p=p: AsyncScrapli(platform=p, host="r1", transport="asyncssh", **kw)))
    for name, mk in makers:
        for given in ("omitted", True, False):
            kw = {} if given == "omitted" else {"auth_strict_key": given}
            want = True if given == "omitted" else given
            case = {"rig": "defaults", "entry": name, "given": given}
            ck.case(("df", name, given), nontrivial=given == "omitted", tags=("E:defaults", f"E:given={given}"), sample=case)
            try:
                conn = mk(kw)
                got = (conn.auth_strict_key, conn.transport.plugin_transport_args.auth_strict_key)
            except Exception as e:
                ck.violation(case, f"constructing {name} raised {e!r}", matcher)
                continue
            if got != (want, want) or any(type(g) is not bool for g in got):
                ck.violation({**case, "got": got}, f"{name}: auth_strict_key {given} arrives as {got} (driver, transport args), want {want}", matcher)
            if "system" in name:
                conn.transport._build_open_cmd()
                ok = "StrictHostKeyChecking=yes" in conn.transport.open_cmd
                if ok != want:
                    ck.violation({**case, "argv": conn.transport.open_cmd}, f"{name}: argv strictness {ok} for auth_strict_key {given}", matcher)
        for bad in (None, 0, 1, "False"):
            case = {"rig": "defaults", "entry": name, "given": repr(bad)}
            ck.case(("df", name, repr(bad)), nontrivial=False, tags=("E:non-bool-refused",))
            try:
                mk({"auth_strict_key": bad})
                if bad is None and name.startswith(("Scrapli", "AsyncScrapli")):
                    continue   # the factory documents None as "not given"
                ck.violation(case, f"{name}: non-bool auth_strict_key={bad!r} accepted", matcher)
            except ScrapliTypeError:
                pass
            except Exception as e:
                ck.violation(case, f"{name}: non-bool auth_strict_key={bad!r} raised {e!r} instead of ScrapliTypeError", matcher)


def replay(path):
    """re-run the stored failing case on the real code; exit 1 while it still fails"""
    from harness import libfakes10 as LF
    from harness import loopback10 as LB
    import asyncssh
    r = json.load(open(path))
    v = (r.get("violation") or {}).get("case") or r.get("witness") or {}
    rigk = v.get("rig", "loopback")
    if rigk == "system":
        argv = build_open_cmd(v["args"])
        bad = argv_oracle(v["args"], argv)
        print("argv", argv, "\ncomplaints", bad)
        return 1 if bad else 0
    if rigk == "loopback":
        rig = LB.Rig().start()
        try:
            es = structured_entries(v["format"], v["content"], LB.HOST, rig.right, rig.other if v.get("other_key_type", "rsa") == "rsa" else rig.other_ed)
            kh = rig.write(kh_text(es))
            trusted = any(e["key"] == rig.right[1] for e in es if names(e, LB.HOST))
            if v["transport"] == "paramiko":
                out, seen = rig.run_paramiko(v["auth"], v["strict"], kh, bool(v.get("user_unpins")))
            else:
                out, seen = asyncio.run(rig.run_asyncssh(v["auth"], v["strict"], kh, bool(v.get("user_unpins"))))
        finally:
            rig.stop()
        print("known_hosts:\n" + kh_text(es) + "outcome", out, "; server saw", seen)
        bad = v["strict"] and not trusted and (bool(seen) or out != "ScrapliAuthenticationFailed")
        return 1 if bad else 0
    if rigk == "fakes":
        kt, b64 = asyncssh.generate_private_key("ssh-ed25519").export_public_key().decode().split()[:2]
        ot = tuple(asyncssh.generate_private_key("ssh-ed25519").export_public_key().decode().split()[:2])
        if v["format"] == "random":
            print("random known_hosts content of the failing run (keys were generated at run time):\n" + v.get("known_hosts", ""))
            fmt, content = "plain", {"mixed": "right"}.get(v["content"], v["content"])
        else:
            fmt, content = v["format"], v["content"]
        es = structured_entries(fmt, content, "r1", (kt, b64), ot)
        p = tempfile.mktemp(prefix="c10-kh")
        open(p, "w").write(kh_text(es))
        cfg = dict(v["cfg"])
        if v["transport"] == "paramiko":
            tr = LF.run_paramiko(cfg, p, "r1", b64, kt)
        elif v["transport"] == "ssh2":
            LF.ssh2_available()
            tr = LF.run_ssh2(cfg, p, "r1", b64)
        else:
            tr, _ = LF.run_asyncssh(cfg, p, "r1", b64, kt)
        os.unlink(p)
        trusted = any(e["key"] == b64 for e in es if names(e, "r1"))
        bad = trace_oracle(cfg["strict"], trusted, cfg["kexOK"], tr,
                           key_usable=v["transport"] != "asyncssh" or not cfg["hasKey"] or cfg["keyLoads"])
        print("known_hosts:\n" + kh_text(es) + "trace", tr, "\ncomplaint", bad)
        return 1 if bad else 0
    if rigk in ("fakes-history", "loopback-history"):
        steps = v["attempts"]
        if rigk == "fakes-history":
            right = tuple(asyncssh.generate_private_key("ssh-ed25519").export_public_key().decode().split()[:2])
            other = tuple(asyncssh.generate_private_key("ssh-ed25519").export_public_key().decode().split()[:2])
            atts, trusted = [], []
            for x in steps:
                es = structured_entries(x.get("format", "plain"), x["content"], "r1", right, other)
                acc = x.get("server_accepts", [True, True])
                cfg = dict(strict=v["strict"], keyLoads=True, hasUser=True, kexOK=x.get("handshake_ok", True), accKey=acc[0], accPw=acc[1],
                           userUnpins=bool(x.get("user_unpins")), **AUTHS[v["auth"]])
                atts.append({"cfg": cfg, "close": x["close_before"], "text": kh_text(es), "new": bool(x.get("new_transport_object"))})
                trusted.append(any(e["key"] == right[1] for e in es if names(e, "r1")))
            p = tempfile.mktemp(prefix="c10-kh")
            open(p, "w").write("")
            if v["transport"] == "paramiko":
                res = LF.history_paramiko(atts, p, "r1", right[1], right[0])
            elif v["transport"] == "ssh2":
                LF.ssh2_available()
                res = LF.history_ssh2(atts, p, "r1", right[1])
            else:
                res = LF.history_asyncssh(atts, p, "r1", right[1], right[0])
            os.unlink(p)
            rc = 0
            for i, (at, tr, (trace, _)) in enumerate(zip(atts, trusted, res)):
                bad = trace_oracle(at["cfg"]["strict"], tr, at["cfg"]["kexOK"], trace,
                                   key_usable=v["transport"] != "asyncssh" or not at["cfg"]["hasKey"] or at["cfg"]["keyLoads"])
                print(f"attempt {i + 1} ({steps[i]['content']}, close before: {steps[i]['close_before']}):", trace, "| complaint:", bad)
                rc = rc or (1 if bad else 0)
            return rc
        rig = LB.Rig().start()
        try:
            ess = [structured_entries("plain", x["content"], LB.HOST, rig.right, rig.other) for x in steps]
            atts = [{"close": x["close_before"], "text": kh_text(es), "new": bool(x.get("new_transport_object"))} for x, es in zip(steps, ess)]
            kh = rig.write("")
            if v["transport"] == "paramiko":
                res = rig.history_paramiko(v["auth"], True, kh, atts)
            else:
                res = asyncio.run(rig.history_asyncssh(v["auth"], True, kh, atts))
            rc = 0
            for i, (es, (out, seen)) in enumerate(zip(ess, res)):
                trusted = any(e["key"] == rig.right[1] for e in es if names(e, LB.HOST))
                retry = i > 0 and not steps[i]["close_before"] and not steps[i].get("new_transport_object")
                bad = (not trusted) and (bool(seen) or (out != "ScrapliAuthenticationFailed" and not (retry and out == "ScrapliConnectionNotOpened")))
                print(f"attempt {i + 1} ({steps[i]['content']}, close before: {steps[i]['close_before']}): outcome {out}; server saw {seen}; violation: {bad}")
                rc = rc or (1 if bad else 0)
        finally:
            rig.stop()
        return rc
    if rigk == "lookup":
        from scrapli.ssh_config import SSHKnownHosts
        p = tempfile.mktemp(prefix="c10-kh")
        open(p, "w").write(v["known_hosts"])
        try:
            real = SSHKnownHosts(p).lookup(v["host"])
        except Exception as e:
            print("lookup raised", repr(e))
            os.unlink(p)
            return 1
        os.unlink(p)
        naming = []
        for line in v["known_hosts"].splitlines():
            ids, kt, key = line.split()
            for i in ids.split(","):
                if i == v["host"] or (i.startswith("|1|") and hashed_id(v["host"], base64.b64decode(i.split("|")[2])) == i):
                    naming.append(key)
        print("lookup ->", real, "; keys of lines naming the host:", naming)
        bad = (bool(real) != bool(naming)) or (real and real["public_key"] not in naming)
        return 1 if bad else 0
    if rigk == "defaults":
        ck = Check(PID, "quick", 0)
        default_cases(ck)
        hits = [x for x in ck.violations if x["case"].get("entry") == v.get("entry")]
        for x in hits[:5]:
            print(x["what"])
        return 1 if hits else 0
    print("cannot replay", rigk)
    return 2
