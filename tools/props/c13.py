"""C13 — the device receives exactly the lines given, and failures stop the run.

Lean: ScrapliModel/Send.lean (+ SendFault = the failing channel, SendTypes, Gen/SendConsts), ScrapliProps/C13.lean
(+ C13Lemmas, C13FaultLemmas), Drv/C13.lean.
Real code: the platform drivers (sync and asyncio) over the causal simulated device (tools/harness).
Per case: run the real driver, run the Lean model on the same inputs (navigation lines and channel results are
an oracle tape taken from the real run; everything else the model computes itself), compare the
property-relevant observables (correspondence) and evaluate the property itself in Python (oracle)."""
import asyncio, itertools, json, os, tempfile
from vlib.common import Check, VERIF, hexl, hexs, run_model, unhex
import translate

PID = "C13"
SHORT = {"cisco_iosxe": "iosxe", "cisco_iosxr": "iosxr", "cisco_nxos": "nxos", "arista_eos": "eos", "juniper_junos": "junos",
         "generic": "none"}
NET_PLATFORMS = ["cisco_iosxe", "cisco_iosxr", "cisco_nxos", "arista_eos", "juniper_junos"]

# ---------- the oracle's own tables (written from vendor behaviour / the property text, NOT from scrapli)
ABORT_SPEC = {"cisco_iosxe": [], "cisco_iosxr": ["abort"], "cisco_nxos": ["abort"], "arista_eos": ["abort"],
              "juniper_junos": ["rollback 0", "exit"]}
SESSION_ONLY_ABORT = {"cisco_nxos", "arista_eos"}
CONFIG_LEVELS = {"cisco_iosxe": ["", "configuration"], "cisco_iosxr": ["", "configuration", "configuration_exclusive"],
                 "cisco_nxos": ["", "configuration", "@session"], "arista_eos": ["", "configuration", "@session"],
                 "juniper_junos": ["", "configuration", "configuration_exclusive", "configuration_private"]}
NAVSET = {"cisco_iosxe": {"enable", "disable", "configure terminal", "end", "tclsh", "tclquit"},
          "cisco_iosxr": {"configure terminal", "configure exclusive", "end"},
          "cisco_nxos": {"enable", "disable", "configure terminal", "end", "tclsh", "tclquit"},
          "arista_eos": {"enable", "disable", "configure terminal", "end"},
          "juniper_junos": {"configure", "configure exclusive", "configure private", "exit configuration-mode", "start shell", "exit"}}
MODE_CHANGING = {"end", "exit", "abort", "commit", "disable", "enable", "configure terminal", "configure", "configure exclusive",
                 "configure private", "exit configuration-mode", "tclsh", "tclquit", "start shell", "start shell user root"}
FINDING_LEVELS = ("configuration_exclusive", "configuration_private")
CFG_OPS = ("cfgs", "cfg", "cfgsfile")
LIST_OPS = ("cmds", "cfgs", "gcmds")
TEXT_OPS = ("cfg", "cfgsfile", "cmdsfile", "gfile")


def hx(s):
    return hexs(s.encode("utf-8"))


def hxl(l):
    return hexl([s.encode("utf-8") for s in l])


# ---------- injected channel failures: kind -> (transport side, offset within the two writes / two reads of the
# failing send_input call, action, model point, model exception class)   [Lean: SendFault.lean Point / FKind]
FAULT_KINDS = {"silent": ("w", 2, "silent", "rl", "timeout"),            # the return of call k never reaches the device
               "timeout": ("r", 2, "timeout", "ar", "timeout"),          # read to the prompt of call k: ScrapliTimeout
               "conn-before": ("w", 1, "conn", "bw", "conn"),            # write of line k: ScrapliConnectionError
               "timeout-echo": ("r", 1, "timeout", "al", "timeout"),     # echo read of line k: ScrapliTimeout
               "conn-return": ("w", 2, "conn", "al", "conn"),            # write of the return: ScrapliConnectionError
               "conn-read": ("r", 2, "conn", "ar", "conn")}              # read to the prompt: ScrapliConnectionError
EXC_OF = {"timeout": "ScrapliTimeout", "conn": "ScrapliConnectionError"}


def _install_fault(t, case):
    from harness.simtransport import FaultPlan
    from scrapli.exceptions import ScrapliConnectionError, ScrapliTimeout
    k = case["fault"]["at_line"]
    side, off, act = FAULT_KINDS[case["fault"]["kind"]][:3]
    action = "silent" if act == "silent" else ScrapliTimeout("injected timeout") if act == "timeout" else \
        ScrapliConnectionError("injected connection error")
    if side == "w":
        t.faults.append(FaultPlan(at_write=t.nwrites + 2 * k + off, action=action))
    else:
        t.faults.append(FaultPlan(at_read=t.nreads + 2 * k + off, action=action))


# ---------- running the real code
async def _aw(x):
    if asyncio.iscoroutine(x):
        return await x
    return x


def dev_text(case, line):
    """what the simulated device prints for `line` (device truth)"""
    from harness.simdevice import PLATFORMS
    cmd = line.strip()
    if cmd and cmd in case["fail"]:
        plat = case["platform"] if case["platform"] in PLATFORMS else "cisco_iosxe"
        return PLATFORMS[plat]()["fail"]
    return case["outputs"].get(line) or ""


def expected_lines(case):
    """the lines the caller handed over (independent reading: CPython's own splitlines for text sources)"""
    if case["op"] in LIST_OPS:
        return list(case["lines"])
    if case["op"] == "cmd":
        return [case["text"]]
    return case["text"].splitlines()


def _wrap_acquire(conn, dev, t, spans, is_async, after=None):
    orig = conn.acquire_priv
    pending = [after]

    def begin(p):
        return {"target": p, "belief": conn._current_priv_level.name, "mode": dev.mode_name(), "s": len(dev.exec_log), "ok": False}

    def end(rec):
        rec["e"] = len(dev.exec_log)
        spans.append(rec)
        if pending[0] is not None and rec["ok"]:     # channel failure counted from the end of the navigation
            fn, pending[0] = pending[0], None
            fn()

    if is_async:
        async def w(desired_priv):
            rec = begin(desired_priv)
            try:
                await orig(desired_priv)
                rec["ok"] = True
            finally:
                end(rec)
    else:
        def w(desired_priv):
            rec = begin(desired_priv)
            try:
                orig(desired_priv)
                rec["ok"] = True
            finally:
                end(rec)
    conn.acquire_priv = w


def sub_case(case, stp, j):
    """the j-th follow-up operation of an operation history as a case of its own (same connection, same device)"""
    sub = {"id": f"{case.get('id')}+{j}", "platform": case["platform"], "stack": case["stack"], "op": stp["op"], "stop": stp.get("stop", False),
           "eager": False, "eager_input": False, "fwc": None, "fail": list(case["fail"]), "outputs": case["outputs"], "session": case.get("session"),
           "ret": case.get("ret", "\n"), "warm": False, "priv": stp.get("priv", case.get("priv", "")) if stp["op"] in CFG_OPS else "",
           "ctor_fwc": case.get("ctor_fwc"), "followup": True}
    if stp["op"] in LIST_OPS:
        sub["lines"] = list(stp["lines"])
    else:
        sub["text"] = stp["text"]
    return finish_case(sub)


async def _call_sub(cn, sub):
    kw = {}
    if sub["op"] != "cmd":
        kw.update(stop_on_failed=sub["stop"], eager=False)
    if sub["op"] in CFG_OPS and sub.get("priv"):
        kw["privilege_level"] = sub["priv"]
    if sub["op"] == "cmds":
        return await _aw(cn.send_commands(list(sub["lines"]), **kw))
    if sub["op"] == "cmd":
        return await _aw(cn.send_command(sub["text"], **kw))
    if sub["op"] == "cfgs":
        return await _aw(cn.send_configs(list(sub["lines"]), **kw))
    if sub["op"] == "cfg":
        return await _aw(cn.send_config(sub["text"], **kw))
    raise ValueError(sub["op"])


def _res_fields(op, res):
    if res is None:
        return {"resps": [], "multi_failed": None, "merged": None}
    if op == "cmd":
        return {"resps": [(res.channel_input, res.result, bool(res.failed))], "multi_failed": None, "merged": None}
    if op == "cfg":
        return {"resps": None, "multi_failed": None, "merged": (res.result, bool(res.failed), res.channel_input)}
    return {"resps": [(r.channel_input, r.result, bool(r.failed)) for r in res], "multi_failed": bool(res.failed), "merged": None}


async def run_real(case, tmpdir):
    """-> observation dict"""
    from harness.simdevice import CliDevice
    from harness.simtransport import SimStall, make_conn
    plat, stack = case["platform"], case["stack"]
    is_async = stack == "async"
    devplat = plat if plat != "generic" else "cisco_iosxe"
    outs = case["outputs"]
    dev = CliDevice(devplat, outputs=lambda mode, line: outs.get(line), fail_lines=set(case["fail"]))
    kw = {}
    if case.get("ret", "\n") != "\n":
        kw["comms_return_char"] = case["ret"]
    if case.get("ctor_fwc") is not None and plat != "generic":
        kw["failed_when_contains"] = list(case["ctor_fwc"])
    if case.get("decoy") and plat != "generic":
        # another connection of the same platform whose marker list is mutated in place: must not leak into ours
        dconn, _ = make_conn(plat, CliDevice(devplat), stack=stack)
        dconn.failed_when_contains.append(DECOY_MARKER)
    conn, t = make_conn(plat, dev, stack=stack, **kw)
    obs = {"exc": None, "stall": False}
    spans = []
    try:
        await _aw(conn.open())
        if case.get("session"):
            conn.register_configuration_session(case["session"])
        late_fault = bool(case.get("fault")) and not case.get("warm") and plat != "generic"
        if plat != "generic":
            _wrap_acquire(conn, dev, t, spans, is_async, after=(lambda: _install_fault(t, case)) if late_fault else None)
        priv = case.get("priv", "")
        if case.get("warm") and plat != "generic":
            tgt = (priv or "configuration") if case["op"] in CFG_OPS else conn.default_desired_privilege_level
            await _aw(conn.acquire_priv(tgt))
        if case.get("generic_mode") and plat != "generic":
            conn._generic_driver_mode = True
        del spans[:]
        n0, w0 = len(dev.exec_log), len(t.writes())
        if case.get("fault") and not late_fault:
            _install_fault(t, case)
        obs.update(generic="1" if case.get("generic_mode") and plat != "generic" else "0",
                   belief0=conn._current_priv_level.name if plat != "generic" else "", mode0=dev.mode_name(),
                   levels=[(n, p.pattern) for n, p in conn.privilege_levels.items()] if plat != "generic" else [],
                   markers=list(conn.failed_when_contains) if plat != "generic" else [],
                   dpriv=conn.default_desired_privilege_level if plat != "generic" else "")
        kwargs = {}
        # the caller's containers: ONE list object (and one marker-list object) is handed to every call of the case
        passed_lines = list(case["lines"]) if case["op"] in LIST_OPS else None
        passed_fwc = list(case["fwc"]) if isinstance(case["fwc"], list) else None
        if case["fwc"] is not None:
            kwargs["failed_when_contains"] = case["fwc"] if isinstance(case["fwc"], str) else passed_fwc
        op = case["op"]
        if op != "cmd":
            kwargs.update(stop_on_failed=case["stop"], eager=case["eager"])
        if case.get("eager_input"):
            kwargs["eager_input"] = True
        if op in CFG_OPS and priv:
            kwargs["privilege_level"] = priv
        path = None
        if op in ("cfgsfile", "cmdsfile", "gfile"):
            path = os.path.join(tmpdir, f"c13-{case.get('id', 0)}.txt")
            with open(path, "wb") as f:
                f.write(case["text"].encode("utf-8"))
        res = None

        async def call(cn):
            if op in ("cmds", "gcmds"):
                return await _aw(cn.send_commands(passed_lines, **kwargs))
            if op == "cmd":
                return await _aw(cn.send_command(case["text"], **kwargs))
            if op in ("cmdsfile", "gfile"):
                return await _aw(cn.send_commands_from_file(path, **kwargs))
            if op == "cfgs":
                return await _aw(cn.send_configs(passed_lines, **kwargs))
            if op == "cfg":
                return await _aw(cn.send_config(case["text"], **kwargs))
            if op == "cfgsfile":
                return await _aw(cn.send_configs_from_file(path, **kwargs))
            raise ValueError(op)

        def containers():
            return {"lines": None if passed_lines is None else list(passed_lines), "fwc": None if passed_fwc is None else list(passed_fwc)}

        try:
            res = await call(conn)
        except SimStall:
            obs["stall"] = True
        except Exception as e:  # noqa
            obs["exc"] = type(e).__name__
            obs["exc_repr"] = repr(e)[:200]
        obs["containers_after"] = containers()
        obs["alive"] = bool(t.isalive())
        first = {"wire": t.writes()[w0:], "belief1": conn._current_priv_level.name if plat != "generic" else "", "mode1": dev.mode_name()}
        n1 = len(dev.exec_log)
        spans_first = list(spans)
        # history: the SAME objects handed to further calls — same connection, a new one, a new one of the other stack
        obs["repeats"] = []
        if not obs["stall"] and not case.get("fault") and not case.get("generic_mode"):
            for how in case.get("repeat", []):
                rec = {"how": how, "exc": None}
                try:
                    if how == "same":
                        cn2, dev2, sp2 = conn, dev, spans
                    else:
                        st2 = stack if how == "new" else ("async" if stack == "sync" else "sync")
                        dev2 = CliDevice(devplat, outputs=lambda mode, line: outs.get(line), fail_lines=set(case["fail"]))
                        cn2, t2 = make_conn(plat, dev2, stack=st2, **kw)
                        await _aw(cn2.open())
                        if case.get("session"):
                            cn2.register_configuration_session(case["session"])
                        sp2 = []
                        if plat != "generic":
                            _wrap_acquire(cn2, dev2, t2, sp2, st2 == "async")
                    del sp2[:]
                    m0 = len(dev2.exec_log)
                    try:
                        r2 = await call(cn2)
                        rec["flags"] = [bool(r2.failed)] if not hasattr(r2, "data") else [bool(x.failed) for x in r2]
                    except SimStall:
                        rec["exc"] = "stall"
                    except Exception as e:  # noqa
                        rec["exc"] = type(e).__name__
                    inside = set()
                    for sp in sp2:
                        inside.update(range(sp["s"], sp["e"]))
                    rec["nonnav"] = [l for i, (_, l) in enumerate(dev2.exec_log[m0:], start=m0) if i not in inside]
                except Exception as e:  # noqa
                    rec["exc"] = "HARNESS:" + repr(e)[:120]
                rec["containers_after"] = containers()
                obs["repeats"].append(rec)
        # operation history: further operations on the SAME connection right after this one (no reconnect, nothing in between):
        # each is observed like a first call (exec log with modes and acquire_priv spans, wire, responses, belief/mode around it)
        obs["then"] = []
        if plat != "generic" and not obs["stall"] and not case.get("fault") and not case.get("generic_mode"):
            for j, stp in enumerate(case.get("then", []), start=2):
                sub = sub_case(case, stp, j)
                rec = {"exc": None, "stall": False, "generic": "0", "belief0": conn._current_priv_level.name, "mode0": dev.mode_name(),
                       "levels": obs["levels"], "markers": obs["markers"], "dpriv": obs["dpriv"], "repeats": [], "file_steps": []}
                del spans[:]
                m0, wb = len(dev.exec_log), len(t.writes())
                r2 = None
                try:
                    r2 = await _call_sub(conn, sub)
                except SimStall:
                    rec["stall"] = True
                except Exception as e:  # noqa
                    rec["exc"] = type(e).__name__
                    rec["exc_repr"] = repr(e)[:200]
                newl = dev.exec_log[m0:]
                ins = [False] * len(newl)
                for sp in spans:
                    for i in range(sp["s"] - m0, sp["e"] - m0):
                        if 0 <= i < len(newl):
                            ins[i] = True
                rec["log"] = [(ins[i], m, l) for i, (m, l) in enumerate(newl)]
                rec["wire"] = t.writes()[wb:]
                rec["spans"] = [{"target": sp["target"], "belief": sp["belief"], "mode": sp["mode"], "ok": sp["ok"],
                                 "lines": [l for _, l in dev.exec_log[sp["s"]:sp["e"]]]} for sp in spans]
                rec["belief1"], rec["mode1"] = conn._current_priv_level.name, dev.mode_name()
                rec["moves"] = _moves(dev, case.get("session"))
                rec.update(_res_fields(sub["op"], r2))
                obs["then"].append((sub, rec))
                if rec["stall"]:
                    break
        # file history: the SAME path used again after its content changed (rewritten / appended / truncated / replaced by
        # rename), on this connection or another one (other stack too), mixed with in-memory calls
        obs["file_steps"] = []
        if path and not obs["stall"] and not case.get("fault") and not case.get("generic_mode"):
            cur_text = case["text"]
            for stp in case.get("file_steps", []):
                rec = {"how": stp["how"], "change": stp.get("change"), "inmem": stp.get("inmem"), "exc": None, "resps": None}
                try:
                    ch = stp.get("change")
                    if ch == "rewrite":
                        with open(path, "wb") as f:
                            f.write(stp["text"].encode("utf-8"))
                        cur_text = stp["text"]
                    elif ch == "append":
                        with open(path, "ab") as f:
                            f.write(stp["text"].encode("utf-8"))
                        cur_text = cur_text + stp["text"]
                    elif ch == "truncate":
                        cur_text = cur_text[:stp["keep"]]
                        os.truncate(path, len(cur_text.encode("utf-8")))
                    elif ch == "rename":
                        with open(path + ".new", "wb") as f:
                            f.write(stp["text"].encode("utf-8"))
                        os.replace(path + ".new", path)
                        cur_text = stp["text"]
                    rec["text"] = cur_text
                    if stp["how"] == "same":
                        cn2, dev2, sp2 = conn, dev, spans
                    else:
                        st2 = stack if stp["how"] == "new" else ("async" if stack == "sync" else "sync")
                        dev2 = CliDevice(devplat, outputs=lambda mode, line: outs.get(line), fail_lines=set(case["fail"]))
                        cn2, t2 = make_conn(plat, dev2, stack=st2, **kw)
                        await _aw(cn2.open())
                        if case.get("session"):
                            cn2.register_configuration_session(case["session"])
                        sp2 = []
                        if plat != "generic":
                            _wrap_acquire(cn2, dev2, t2, sp2, st2 == "async")
                    del sp2[:]
                    m0 = len(dev2.exec_log)
                    try:
                        if stp.get("inmem") is not None:
                            fn = cn2.send_configs if op == "cfgsfile" else cn2.send_commands
                            r2 = await _aw(fn(list(stp["inmem"]), **kwargs))
                        else:
                            r2 = await call(cn2)
                        rec["resps"] = [(x.channel_input, x.result, bool(x.failed)) for x in r2]
                    except SimStall:
                        rec["exc"] = "stall"
                    except Exception as e:  # noqa
                        rec["exc"] = type(e).__name__
                    inside = set()
                    for sp in sp2:
                        inside.update(range(sp["s"], sp["e"]))
                    rec["nonnav"] = [l for i, (_, l) in enumerate(dev2.exec_log[m0:], start=m0) if i not in inside]
                except Exception as e:  # noqa
                    rec["exc"] = "HARNESS:" + repr(e)[:120]
                obs["file_steps"].append(rec)
        if path:
            for pth in (path, path + ".new"):
                try:
                    os.unlink(pth)
                except OSError:
                    pass
        spans[:] = spans_first
        new = dev.exec_log[n0:n1]
        in_span = [False] * len(new)
        for sp in spans:
            for i in range(sp["s"] - n0, sp["e"] - n0):
                if 0 <= i < len(new):
                    in_span[i] = True
        obs["log"] = [(in_span[i], m, l) for i, (m, l) in enumerate(new)]
        obs["wire"] = first["wire"]
        obs["spans"] = [{"target": sp["target"], "belief": sp["belief"], "mode": sp["mode"], "ok": sp["ok"],
                         "lines": [l for _, l in dev.exec_log[sp["s"]:sp["e"]]]} for sp in spans]
        obs["belief1"], obs["mode1"] = first["belief1"], first["mode1"]
        obs["moves"] = _moves(dev, case.get("session"))
        if res is None:
            obs["resps"], obs["multi_failed"], obs["merged"] = [], None, None
        elif op in ("cmd",):
            obs["resps"] = [(res.channel_input, res.result, bool(res.failed))]
            obs["multi_failed"], obs["merged"] = None, None
        elif op == "cfg":
            obs["resps"] = None      # the elements are not returned by send_config
            obs["multi_failed"] = None
            obs["merged"] = (res.result, bool(res.failed), res.channel_input)
        else:
            obs["resps"] = [(r.channel_input, r.result, bool(r.failed)) for r in res]
            obs["multi_failed"] = bool(res.failed)
            obs["merged"] = None
    except SimStall:
        obs["stall"] = True
    except Exception as e:  # harness / open trouble
        obs["exc"] = "HARNESS:" + repr(e)[:200]
    return obs


def _moves(dev, session):
    out = []
    for (m, cmd), mv in dev.moves.items():
        out.append((m, cmd, mv.to))
    if session and dev.sessions:
        out.append(("privilege_exec", f"configure session {session}", session))
        for c in ("end", "abort", "commit", "exit"):
            out.append((session, c, "privilege_exec"))
    return out


# ---------- the model
def model_request(case, obs, out_table):
    plat = SHORT[case["platform"]]
    op = case["op"]
    fwc = case["fwc"]
    fw = "N" if fwc is None else ("S" + hx(fwc) if isinstance(fwc, str) else "L" + hxl(fwc))
    arg = hxl(case["lines"]) if op in LIST_OPS else hx(case["text"])
    outs = []
    for (m, l), o in out_table.items():
        outs += [m.encode(), l.encode(), o]
    moves = []
    for m, c, to in obs["moves"]:
        moves += [m, c, to]
    navs = "|".join(f"{hx(s['target'])};{hx(s['belief'])};{hx(s['mode'])};{1 if s['ok'] else 0};{hxl(s['lines'])}"
                    for s in obs["spans"]) or "."
    lv = []
    for n, p in obs["levels"]:
        lv += [n, p]
    return " ".join([op, plat, case["stack"], hx(case.get("ret", "\n")), hxl(obs["markers"]), hx(obs["dpriv"]), hxl(lv), obs.get("generic", "0"),
                     hx(obs["belief0"]), hx(obs["mode0"]), fw, "1" if case["stop"] else "0", hx(case.get("priv", "")),
                     "1" if case["eager"] else "0", arg, hexl(outs), hxl(moves), navs])


def parse_reply(line):
    f = line.split(" ")
    if len(f) != 7:
        return None
    err, log, wire, resps, belief, mode, merged = f
    def s(h):
        return unhex(h).decode("utf-8")
    lg = [] if log == "." else [(e.split(":")[0], s(e.split(":")[1]), s(e.split(":")[2])) for e in log.split(",")]
    rs = [] if resps == "." else [(x.split(":")[0] == "1", s(x.split(":")[1])) for x in resps.split(",")]
    mg = None if merged == "-" else (merged.split(":")[0] == "1", s(merged.split(":")[1]))
    return {"err": err, "log": lg, "wire": unhex(wire), "resps": rs, "belief": s(belief), "mode": s(mode), "merged": mg}


def parse_fault_reply(line):
    f = line.split(" ")
    if len(f) != 6:
        return None
    outcome, log, wire, belief, mode, usable = f
    def s(h):
        return unhex(h).decode("utf-8")
    lg = [] if log == "." else [(e.split(":")[0], s(e.split(":")[1]), s(e.split(":")[2])) for e in log.split(",")]
    return {"outcome": outcome, "log": lg, "wire": unhex(wire), "belief": s(belief), "mode": s(mode), "usable": usable == "1"}


def out_table_for(case, obs, twin_results=None):
    """Env.out = what the channel returned for (mode, line): taken from the real responses (oracle tape).
    For send_config (elements not returned) from the device truth (normal mode) or the twin run."""
    tbl = {}
    users = [(m, l) for sp, m, l in obs["log"] if not sp]
    rs = obs["resps"]
    if rs is None:
        rs = twin_results
    if rs:
        for (m, l), r in zip(users, rs):
            tbl[(m, l)] = r[1].encode("utf-8")
    return tbl


# ---------- the oracle (never consults the model)
DECOY_MARKER = "ok"
_SRC_DEFAULTS = {}


def source_default_markers(platform):
    """the platform's FAILED_WHEN_CONTAINS literal read from the SOURCE (AST), not from any live object"""
    if platform not in _SRC_DEFAULTS:
        from gen.c13 import fwc_list
        _SRC_DEFAULTS[platform] = list(fwc_list(platform))
    return list(_SRC_DEFAULTS[platform])


def markers_in_effect(case, obs):
    """per-call value, else the value given at construction, else the platform's source default — never the
    connection object's own (possibly shared or mutated) list"""
    f = case["fwc"]
    if f is None:
        if case["platform"] == "generic":
            return []
        if case.get("ctor_fwc") is not None:
            return list(case["ctor_fwc"])
        return source_default_markers(case["platform"])
    return [f] if isinstance(f, str) else list(f)


def expected_calls(case):
    """the send_input calls a run WITHOUT channel failure makes according to the property text: the user lines up to and
    including the first failing one with stop_on_failed (else all), then the vendor's abort lines when a configuration
    run with stop_on_failed had a failing line (EOS / NX-OS: only inside a registered session)"""
    fail = set(case["fail"])
    sent = []
    for l in expected_lines(case):
        sent.append(l)
        if case["stop"] and l.strip() in fail:
            break
    calls = [("u", l) for l in sent]
    if case["op"] in CFG_OPS and case["stop"] and any(l.strip() in fail for l in sent):
        ab = ABORT_SPEC.get(case["platform"], [])
        if case["platform"] in SESSION_ONLY_ABORT and not case.get("session"):
            ab = []
        calls += [("a", l) for l in ab]
    return calls


def oracle_fault(case, obs):
    """channel failure while send_input call k (a user line, or an abort line) is in progress: the error surfaces in its
    class, the calls before k were each written once in order, of call k exactly what had been written before the
    failure, nothing after it (no later line, no abort line, no extra return), navigation only before the first line"""
    calls, k = expected_calls(case), case["fault"]["at_line"]
    if "log" not in obs:         # the run never got to the operation (open / warm-up did not complete)
        return [("stall", "driver waits for bytes the device never sends")] if obs.get("stall") else [("harness", str(obs.get("exc")))]
    if k >= len(calls):          # never reached: the run must be the ordinary one
        c2 = {x: y for x, y in case.items() if x != "fault"}
        return oracle_core(c2, obs)
    v = []
    _side, _off, _act, pt, fk = FAULT_KINDS[case["fault"]["kind"]]
    ret = case.get("ret", "\n").encode()
    seen_user = False
    for sp, _, l in obs["log"]:
        if not sp:
            seen_user = True
        elif seen_user or case.get("warm"):
            v.append(("fault-nav", f"navigation during a failing run {obs['log']!r}"))
            break
    got = [l for sp, _, l in obs["log"] if not sp]
    want = [l for _, l in calls[:k]] + ([calls[k][1]] if pt == "ar" else [])
    if got != want:
        v.append(("fault-log", f"device executed {got!r} after a channel failure ({case['fault']['kind']}) at call {k}, want {want!r}"))
    line = calls[k][1].encode()
    tail = {"bw": b"", "al": line, "ar": line + ret, "rl": line + ret}[pt]
    want_wire = b"".join(l.encode() + ret for sp, _, l in obs["log"] if sp) + b"".join(l.encode() + ret for _, l in calls[:k]) + tail
    if obs["wire"] != want_wire:
        v.append(("fault-wire", f"bytes written {obs['wire'][-60:]!r} after a channel failure ({case['fault']['kind']}) at call {k}; "
                  f"want exactly the calls before it and the part of it already written {want_wire[-60:]!r}"))
    if case["fault"]["kind"] == "silent":
        if not obs["stall"]:
            v.append(("fault-outcome", f"device went silent at call {k} but the call returned / raised {obs.get('exc')}"))
    elif obs.get("exc") != EXC_OF[fk]:
        v.append(("fault-outcome", f"injected {EXC_OF[fk]} at call {k} surfaced as {obs.get('exc')} {obs.get('exc_repr')}"))
    return v


def oracle_history(case, obs):
    """(i) the caller's containers (the list of lines, a per-call marker list) are the caller's: unchanged after
    every call; (ii) handing the same objects to further calls — same connection, another one, the other stack —
    delivers exactly the same lines (and flags) every time"""
    v = []
    want = {"lines": list(case["lines"]) if case["op"] in LIST_OPS else None, "fwc": list(case["fwc"]) if isinstance(case["fwc"], list) else None}
    if obs.get("containers_after") is not None and obs["containers_after"] != want:
        v.append(("caller-container-mutated", f"after the call the caller's objects are {_short(obs['containers_after'])}, were {_short(want)}"))
    first = [l for sp, _, l in obs.get("log", []) if not sp]
    for j, r in enumerate(obs.get("repeats", []), start=2):
        if (r["exc"] or "").startswith("HARNESS"):
            continue
        if r["containers_after"] != want and not v:
            v.append(("caller-container-mutated", f"after call {j} ({r['how']} connection) the caller's objects are {_short(r['containers_after'])}, were {_short(want)}"))
        if obs["exc"] is None and (r["exc"] is not None or r.get("nonnav") != first):
            v.append(("repeat-delivery", f"call {j} with the same list object ({r['how']} connection): device executed {_short(r.get('nonnav'))} / {r['exc']}, "
                      f"call 1 executed {_short(first)}"))
            break
    return v


def oracle_file_history(case, obs):
    """every later call with the same path: the device receives exactly the lines the file holds AT THE TIME OF THAT CALL
    (in-memory steps: the list given), in order, and the responses report them"""
    v = []
    plat, op = case["platform"], case["op"]
    marks = markers_in_effect(case, obs)
    for j, r in enumerate(obs.get("file_steps", []), start=2):
        if (r["exc"] or "").startswith("HARNESS"):
            continue
        lines = list(r["inmem"]) if r.get("inmem") is not None else r["text"].splitlines()
        what = f"call {j} ({r['how']} connection, " + ("in-memory list" if r.get("inmem") is not None else f"same path after {r['change'] or 'no change'}") + ")"
        if not lines:
            if r["nonnav"]:
                v.append(("file-history", f"{what}: file is empty but the device executed {_short(r['nonnav'])}"))
            continue
        if r["exc"]:
            v.append(("file-history", f"{what}: raised {r['exc']}; lines {_short(lines)}"))
            break
        pre = []
        for l in lines:
            pre.append(l)
            if case["stop"] and marks and any(mk in dev_text(case, l) for mk in marks):
                break
        failed = bool(marks) and any(any(mk in dev_text(case, l) for mk in marks) for l in pre)
        aborts = []
        if op in CFG_OPS and case["stop"] and failed:
            if plat not in SESSION_ONLY_ABORT or (case.get("session") and case.get("priv") == case["session"]):
                aborts = list(ABORT_SPEC.get(plat, []))
        if r["nonnav"] != pre + aborts:
            v.append(("file-history", f"{what}: device executed {_short(r['nonnav'])}; the source holds {_short(lines)} (want {_short(pre + aborts)})"))
            break
        if [x[0] for x in r["resps"]] != pre:
            v.append(("file-history", f"{what}: responses report {_short([x[0] for x in r['resps']])}; lines sent {_short(pre)}"))
            break
    return v


def _short(x):
    t = repr(x)
    return t if len(t) < 240 else t[:240] + "…"


def oracle(case, obs):
    """-> list of (kind, detail) violations of the property on the real observables"""
    v = oracle_core(case, obs)
    if not case.get("fault") and "log" in obs and not obs["stall"]:
        v += oracle_history(case, obs)
        v += oracle_file_history(case, obs)
        # operation history: every follow-up operation on the same connection is judged exactly like a first call
        for j, (sub, rec) in enumerate(obs.get("then", []), start=2):
            if not in_domain(sub):
                break
            for kind, detail in oracle_core(sub, rec):
                v.append((kind, f"call {j} of a history on one connection ({sub['op']} {_short(expected_lines(sub))} priv={sub.get('priv')!r} right after "
                                f"{case['op']} {_short(expected_lines(case))}; driver believed {rec['belief0']!r}, device was in {rec['mode0']!r}): {detail}"))
            if v:
                break
    return v


def oracle_core(case, obs):
    v = []
    plat, op = case["platform"], case["op"]
    lines = expected_lines(case)
    ret = case.get("ret", "\n")
    normal = not case["eager"] and not case.get("eager_input")
    marks = markers_in_effect(case, obs)
    if case.get("fault"):
        return oracle_fault(case, obs)
    if obs["stall"]:
        return [("stall", "driver waits for bytes the device never sends")]
    if obs["exc"] and obs["exc"].startswith("HARNESS"):
        return [("harness", obs["exc"])]
    nonnav = [(m, l) for sp, m, l in obs["log"] if not sp]
    nav = [(m, l) for sp, m, l in obs["log"] if sp]
    # wire: every executed line followed by exactly one return, nothing else
    want_wire = b"".join(l.encode("utf-8") + ret.encode() for _, _, l in obs["log"])
    if obs["wire"] != want_wire:
        v.append(("wire", f"bytes written {obs['wire'][:80]!r} != each executed line + one return {want_wire[:80]!r}"))
    # navigation vocabulary
    if plat != "generic":
        for m, l in nav:
            if l != "" and l not in NAVSET[plat] and not l.startswith("configure session "):
                v.append(("nav-vocabulary", f"line {l!r} written by acquire_priv is not a navigation command"))
    # generic_driver_mode: config operations are refused before anything is written; commands go out without navigation
    if case.get("generic_mode") and plat != "generic":
        if op in CFG_OPS:
            if obs["exc"] != "ScrapliPrivilegeError" or obs["log"]:
                v.append(("generic-mode", f"send_config(s) in generic_driver_mode: outcome {obs['exc']}, lines written {obs['log']!r}"))
            return v
        if nav:
            v.append(("generic-mode", f"navigation {nav!r} in generic_driver_mode"))
    # empty list: nothing but navigation
    if not lines:
        if nonnav:
            v.append(("empty-list", f"lines {nonnav!r} written for an empty list"))
        return v
    if obs["exc"] == "ScrapliPrivilegeError" and case.get("priv") and case["priv"] not in [n for n, _ in obs["levels"]]:
        if obs["log"]:
            v.append(("unknown-level", f"unknown privilege level but lines written: {obs['log']!r}"))
        return v
    if obs["exc"]:
        v.append(("exception", f"{obs.get('exc_repr')}"))
        return v
    # responses
    rs = obs["resps"]
    if rs is not None:
        r = len(rs)
        if r < 1 or r > len(lines) or [x[0] for x in rs] != lines[:r]:
            v.append(("responses", f"responses for {[x[0] for x in rs]!r}, lines {lines!r}"))
        if r < len(lines) and not (case["stop"] and rs and rs[-1][2]):
            v.append(("stopped-without-failure", f"{r} of {len(lines)} lines answered but no stop_on_failed failure"))
        if case["stop"] and any(x[2] for x in rs[:-1]):
            v.append(("continued-after-failure", f"flags {[x[2] for x in rs]} with stop_on_failed"))
        for ci, res, fl in rs:
            want = bool(marks) and any(mk in res for mk in marks)
            if fl != want:
                v.append(("failed-flag", f"line {ci!r}: failed={fl} but markers {marks!r} in result {res[:60]!r} is {want}"))
        if obs["multi_failed"] is not None and obs["multi_failed"] != any(x[2] for x in rs):
            v.append(("multi-failed", f"MultiResponse.failed={obs['multi_failed']} flags={[x[2] for x in rs]}"))
        if normal:
            for ci, res, fl in rs:
                truth = bool(marks) and any(mk in dev_text(case, ci) for mk in marks)
                if fl != truth:
                    v.append(("failed-vs-device", f"line {ci[:40]!r}: failed={fl} but markers {marks!r} in the device's output {dev_text(case, ci)[:60]!r} is {truth}"))
                if res != dev_text(case, ci):
                    case["_result_differs"] = True      # C01's business (e.g. the Junos "[edit]" banner line); advisory
        n_sent = r
        any_failed = any(x[2] for x in rs)
    else:
        n_sent = None
        any_failed = obs["merged"][1] if obs["merged"] else False
    # expected prefix from the device truth (normal mode)
    if normal:
        pre = []
        for l in lines:
            pre.append(l)
            if case["stop"] and marks and any(mk in dev_text(case, l) for mk in marks):
                break
        truth_failed = bool(marks) and any(any(mk in dev_text(case, l) for mk in marks) for l in pre)
        if n_sent is not None and n_sent != len(pre):
            v.append(("prefix", f"{n_sent} lines answered, device truth says {len(pre)}"))
        n_sent = len(pre)
        if obs["merged"] is not None:
            if obs["merged"][1] != truth_failed or obs["merged"][2] != case["text"]:
                v.append(("merged", f"send_config failed/input {obs['merged'][1:]!r} != any failed line in the device's output ({truth_failed}) / the given string"))
        any_failed = truth_failed
    # delivery: non-navigation lines == user prefix ++ abort lines
    aborts = []
    if op in CFG_OPS and case["stop"] and any_failed:
        if plat not in SESSION_ONLY_ABORT or (case.get("session") and case.get("priv") == case["session"]):
            aborts = list(ABORT_SPEC.get(plat, []))
    got = [l for _, l in nonnav]
    if n_sent is None:
        # eager send_config: the elements are not visible; the log must be a prefix (+ aborts)
        if not any(got == lines[:k] + aborts for k in range(1, len(lines) + 1)):
            v.append(("delivery", f"device executed {got[:8]!r}…; not a non-empty prefix of {lines[:8]!r}… + abort {aborts!r}"))
        users = nonnav[:len(got) - len(aborts)] if aborts and got[-len(aborts):] == aborts else nonnav
    else:
        if got != lines[:n_sent] + aborts:
            v.append(("delivery", f"device executed {got[:8]!r}…; want {(lines[:n_sent] + aborts)[:8]!r}… (n={n_sent}, abort={aborts!r})"))
        users = nonnav[:n_sent]
    # navigation only before the user lines (when already at the level: none at all); abort in the failing session
    idx_first_user = next((i for i, e in enumerate(obs["log"]) if not e[0]), None)
    if idx_first_user is not None:
        later_nav = [e for e in obs["log"][idx_first_user:] if e[0]]
        if later_nav:
            v.append(("abort-mode" if aborts else "nav-interleaved", f"navigation {[(m, l) for _, m, l in later_nav]!r} after the first user line"))
    if case.get("warm") and nav and not any(k == "abort-mode" for k, _ in v):
        v.append(("nav-when-at-level", f"navigation {nav!r} although the driver was at the level"))
    if plat != "generic" and not case.get("generic_mode") and obs.get("mode0") is not None:
        addressed = (case.get("priv") or "configuration") if op in CFG_OPS else obs.get("dpriv")
        wrong = [(m, l) for m, l in users if m != addressed]
        if wrong and addressed:
            v.append(("user-mode", f"lines {wrong[:4]!r} were executed in a mode other than the one they were addressed to ({addressed!r}); "
                      f"device was in {obs['mode0']!r} and the driver believed {obs.get('belief0')!r} when the call started"))
        if addressed and obs["mode0"] == addressed and any(l != "" for _, l in nav) and not any(k == "abort-mode" for k, _ in v):
            v.append(("nav-not-needed", f"navigation {nav!r} although the device already was in {addressed!r}"))
    if users:
        um = {m for m, _ in users}
        if len(um) > 1:
            v.append(("user-modes", f"user lines executed in several modes {sorted(um)}"))
        if aborts:
            am = [m for m, _ in nonnav[len(users):]]
            # every abort line but the last must run in the session of the user lines; "exit" follows "rollback 0" there
            if any(m not in um for m in am) and not any(k == "abort-mode" for k, _ in v):
                v.append(("abort-mode", f"abort lines ran in modes {am} but the failing lines ran in {sorted(um)}"))
    return v


def matcher(case):
    """F7: Junos ∧ stop_on_failed ∧ a failing line ∧ privilege_level ∈ {configuration_exclusive, configuration_private},
    and only for the abort-mode kind of violation"""
    if (case.get("platform") == "juniper_junos" and case.get("stop") and case.get("op") in CFG_OPS
            and case.get("priv") in FINDING_LEVELS and case.get("has_failure") and case.get("kind") == "abort-mode"):
        return "F7"
    return None


# ---------- generators
WORDS = ["interface Gi1", "description x y", "no shutdown", "a", "show version", "set system host-name r2", "ip route 0.0.0.0/0 1.1.1.1",
         "b", "vlan 10", "name % Invalid input detected", "description syntax error", "snmp-server community ^[a$ ro", "100% (done)"]
UNI = ["é", "дa", "日本語", "x\u00a0y", "ä ö ü", "😀 ok"]
SEPS = ["\x0b", "\x0c", "\x1c", "\x1d", "\x1e", "\x85", "\u2028", "\u2029"]
OUTS = [None, None, None, "ok", "line one\nline two", "Building configuration", "ERR-7 rejected", "warning: é", "x" * 1200, "% Invalid input detected at '^' marker.",
        "syntax error."]


def gen_line(rng, allow_seps):
    k = rng.random()
    if k < 0.35:
        return rng.choice(WORDS)
    if k < 0.45:
        return ""
    if k < 0.55:
        return rng.choice([" x", "x  ", "  ", "\tx", " a  b "])
    if k < 0.65:
        return rng.choice(UNI)
    if k < 0.72 and allow_seps:
        return "a" + rng.choice(SEPS) + "b"
    if k < 0.80:
        n = rng.choice([998, 999, 1000, 1001, 1002, 1500, 2400])
        return ("w " + "x" * n)[:n]
    if k < 0.9:
        return rng.choice(["bad", "bad line", "nope"])
    return "c%d" % rng.randrange(50)


STEP_LINES = ["interface Gi2", "description second", "no shutdown", "vlan 20", "name b", "bad", "show clock", "set system x", "ip route 10.0.0.0/8 2.2.2.2", "z"]


def gen_file_steps(rng, text):
    """1..2 further uses of the same path with the content changed in between (or an in-memory call in between)"""
    steps = []
    cur = text
    for _ in range(rng.choice([1, 1, 2])):
        how = rng.choice(["same", "same", "new", "other"])
        k = rng.random()
        new_lines = [rng.choice(STEP_LINES) for _ in range(rng.choice([1, 2, 3]))]
        if k < 0.15:
            steps.append({"how": how, "inmem": new_lines})
            continue
        if k < 0.45:
            st = {"how": how, "change": "rewrite", "text": "\n".join(new_lines) + rng.choice(["", "\n"])}
            cur = st["text"]
        elif k < 0.65:
            st = {"how": how, "change": "append", "text": ("" if cur.endswith("\n") or not cur else "\n") + "\n".join(new_lines) + "\n"}
            cur = cur + st["text"]
        elif k < 0.8:
            keep = rng.randint(0, max(len(cur) - 1, 0))
            st = {"how": how, "change": "truncate", "keep": keep}
            cur = cur[:keep]
        else:
            st = {"how": how, "change": "rename", "text": "\n".join(new_lines) + "\n"}
            cur = st["text"]
        steps.append(st)
    return steps


def gen_case(rng, idn, stack=None, platform=None):
    plat = platform or rng.choice(NET_PLATFORMS + ["generic"])
    stack = stack or rng.choice(["sync", "async"])
    if plat == "generic":
        op = rng.choice(["gcmds", "gcmds", "gfile"])
    else:
        op = rng.choice(["cfgs", "cfgs", "cfgs", "cfg", "cfgsfile", "cmds", "cmdsfile", "cmd"])
    n = rng.choice([1, 1, 2, 2, 3, 3, 4, 5, 8])
    in_memory = op in LIST_OPS
    lines = [gen_line(rng, in_memory) for _ in range(n)]
    case = {"id": idn, "platform": plat, "stack": stack, "op": op, "stop": rng.random() < 0.6, "eager": False, "eager_input": False,
            "fwc": None, "fail": [], "outputs": {}, "priv": "", "session": None, "ret": "\n", "warm": rng.random() < 0.4}
    r = rng.random()
    if r < 0.15 and op != "cmd":
        case["eager"] = True
    elif r < 0.25:
        case["eager_input"] = True
    if rng.random() < 0.08:
        case["ret"] = "\r\n"
    # text sources: join with assorted boundaries (the lines themselves then come from splitlines)
    if not in_memory:
        if op == "cmd":
            case["text"] = lines[0]
        else:
            seps = ["\n"] * 6 + ["\r\n", "\r", "\x0b", "\x0c", "\x1c", "\x1d", "\x1e", "\x85", "\u2028", "\u2029"]
            txt = ""
            for l in lines:
                txt += l + rng.choice(seps)
            if rng.random() < 0.3:
                txt = txt[:-1] if txt and txt[-1] != "\n" else txt.rstrip("\n")
            if rng.random() < 0.1:
                txt += "\n\n"
            case["text"] = txt
    else:
        case["lines"] = lines
    eff = expected_lines(case)
    # failing positions
    cand = [l for l in eff if l.strip() and l.strip() not in MODE_CHANGING]
    nf = rng.choice([0, 0, 1, 1, 1, 2])
    for l in rng.sample(cand, min(nf, len(cand))):
        case["fail"].append(l.strip())
    for l in eff:
        if rng.random() < 0.4 and l not in case["outputs"]:
            o = rng.choice(OUTS)
            if o:
                case["outputs"][l] = o
    # marker sets
    m = rng.random()
    if m < 0.5:
        case["fwc"] = None
    elif m < 0.65:
        case["fwc"] = rng.choice(["ERR-7", "rejected", "% Invalid", "syntax", "é"])
    elif m < 0.85:
        case["fwc"] = rng.choice([["ERR-7", "nothing"], ["zzz"], ["% Invalid input", "syntax error", "% Invalid command"], ["ok", "ERR-7"]])
    elif m < 0.93:
        case["fwc"] = []
    else:
        case["fwc"] = None
        if plat != "generic":
            case["ctor_fwc"] = rng.choice([["ERR-7"], ["% Invalid", "syntax error", "ERR-7"]])
    if op in CFG_OPS:
        lv = rng.choice(CONFIG_LEVELS[plat])
        if lv == "@session":
            case["session"] = rng.choice(["s1", "my-session", "sess_long_name"])
            lv = case["session"]
        case["priv"] = lv
    if plat != "generic":
        g = rng.random()
        if g < 0.04:
            case["generic_mode"] = True
        elif g < 0.10:
            case["decoy"] = True
    if op in ("cfgsfile", "cmdsfile", "gfile") and not case["eager"] and not case["eager_input"] and not case.get("generic_mode") and rng.random() < 0.6:
        case["file_steps"] = gen_file_steps(rng, case["text"])
    if plat != "generic" and not case.get("generic_mode") and not case["eager"] and not case["eager_input"] and rng.random() < 0.2:
        th = []
        for _ in range(rng.choice([1, 1, 2])):
            o2 = rng.choice(["cfgs", "cfgs", "cfg", "cmds"])
            ls2 = [rng.choice(["m0", "m1", " x y ", "é"] + case["fail"][:1]) for _ in range(rng.choice([1, 2, 3]))]
            stp = {"op": o2, "stop": rng.random() < 0.6}
            if o2 in LIST_OPS:
                stp["lines"] = ls2
            else:
                stp["text"] = "\n".join(ls2)
            if o2 in CFG_OPS and rng.random() < 0.3 and not case.get("session"):
                stp["priv"] = rng.choice([x for x in CONFIG_LEVELS[plat] if x != "@session"])
            th.append(stp)
        case["then"] = th
    if not case.get("generic_mode") and rng.random() < 0.25:
        case["repeat"] = rng.choice([["same"], ["new"], ["other"], ["same", "same"], ["new", "other"], ["same", "other", "same"]])
    return finish_case(case)


def finish_case(case):
    eff = expected_lines(case)
    case["mode_changing"] = any(l.strip() in MODE_CHANGING or l.strip().startswith("configure session") for l in eff)
    case["bad_chars"] = any(any(c in l for c in "\n\r\x1b\x08") for l in eff) if case["op"] in LIST_OPS or case["op"] == "cmd" else False
    return case


def small_scope_cases(tier, start_id):
    """every list of length 1..N over a 4-line alphabet x stop_on_failed x every platform / configuration level"""
    alpha = ["a", "", "bad", " x y "]
    nmax = 2 if tier == "quick" else 3
    out = []
    idn = start_id
    for plat in NET_PLATFORMS:
        for lv in CONFIG_LEVELS[plat]:
            for n in range(1, nmax + 1):
                for lines in itertools.product(alpha, repeat=n):
                    for stop in (False, True):
                        for stack in (("sync", "async") if n <= 2 else ("sync",)):
                            c = {"id": idn, "platform": plat, "stack": stack, "op": "cfgs", "lines": list(lines), "stop": stop, "eager": False,
                                 "eager_input": False, "fwc": None, "fail": ["bad"], "outputs": {}, "priv": lv, "session": None, "ret": "\n",
                                 "warm": False, "small": True}
                            if lv == "@session":
                                c["session"], c["priv"] = "s1", "s1"
                            out.append(finish_case(c))
                            idn += 1
    return out


def special_cases(start_id):
    """empty list / empty string (advisory IndexError), unknown level, one-line forms"""
    out = []
    idn = start_id
    for plat in NET_PLATFORMS:
        for stack in ("sync", "async"):
            for op, extra in (("cfgs", {"lines": []}), ("cmds", {"lines": []}), ("cfg", {"text": ""}), ("cfgsfile", {"text": ""}),
                              ("cfg", {"text": "\n"}), ("cfgs", {"lines": ["a"], "priv": "no_such_level"})):
                c = {"id": idn, "platform": plat, "stack": stack, "op": op, "stop": True, "eager": False, "eager_input": False, "fwc": None,
                     "fail": [], "outputs": {}, "priv": "", "session": None, "ret": "\n", "warm": False}
                c.update(extra)
                out.append(finish_case(c))
                idn += 1
    return out


def extra_special_cases(start_id):
    """generic_driver_mode branches, marker isolation between connections, channel failures at line k"""
    out = []
    idn = start_id
    base = {"eager": False, "eager_input": False, "fwc": None, "fail": [], "outputs": {}, "priv": "", "session": None, "ret": "\n", "warm": False}
    for plat in NET_PLATFORMS:
        for stack in ("sync", "async"):
            for op, extra in (("cmds", {"lines": ["show a", "bad", "show c"], "fail": ["bad"], "stop": True}),
                              ("cmd", {"text": "show a", "stop": False}),
                              ("cmdsfile", {"text": "show a\nshow b\n", "stop": False}),
                              ("cfgs", {"lines": ["a", "b"], "stop": True}),
                              ("cfg", {"text": "a\nb", "stop": False}),
                              ("cfgsfile", {"text": "a\n", "stop": False}),
                              ("cmds", {"lines": [], "stop": False})):
                c = {**base, "id": idn, "platform": plat, "stack": stack, "op": op, "generic_mode": True}
                c.update(extra)
                out.append(finish_case(c))
                idn += 1
            # one list object (and one marker-list object) handed to several calls
            for op, extra in (("cmds", {"lines": ["l0", "l1", "l2", "l3"]}), ("cfgs", {"lines": ["l0", "bad", "l2", "l3"], "fail": ["bad"]}),
                              ("cfgs", {"lines": ["l0", "l1", "q"], "fwc": ["nothing", "ERR-7"], "outputs": {"q": "ERR-7 rejected"}}),
                              ("cfg", {"text": "l0\nl1\nl2", "fwc": ["zzz"]})):
                for rp in (["same", "same"], ["new", "other"]):
                    for stop in (False, True):
                        c = {**base, "id": idn, "platform": plat, "stack": stack, "op": op, "stop": stop, "repeat": rp}
                        c.update(extra)
                        out.append(finish_case(c))
                        idn += 1
            # decoy connection whose marker list is mutated in place
            out.append(finish_case({**base, "id": idn, "platform": plat, "stack": stack, "op": "cfgs", "lines": ["a", "b", "c"], "stop": True,
                                    "outputs": {"a": "ok", "b": "all ok here"}, "decoy": True}))
            idn += 1
            # channel failures (warm, normal mode, non-empty lines so that every line costs two writes and two reads)
            for op in ("cfgs", "cmds"):
                for kind in sorted(FAULT_KINDS):
                    for k in (0, 1, 2):
                        lv = CONFIG_LEVELS[plat][-1] if op == "cfgs" else ""
                        c = {**base, "id": idn, "platform": plat, "stack": stack, "op": op, "lines": ["l0", "bad", "l2"], "fail": ["bad"], "stop": k != 1,
                             "warm": True, "priv": lv, "fault": {"kind": kind, "at_line": k}}
                        if lv == "@session":
                            c["session"], c["priv"] = "s1", "s1"
                        if k == 2:
                            c["fail"] = []      # otherwise the run stops before line 2
                        out.append(finish_case(c))
                        idn += 1
            # channel failure inside _abort_config (call 2 / 3 = the abort lines after ["l0", "bad"]; IOS-XE has none: never
            # reached), cold start (navigation first, failure counted from its end), and a failure scheduled behind the stop
            lvl = CONFIG_LEVELS[plat][-1]
            for kind in sorted(FAULT_KINDS):
                for k, lines, warm, op in ((2, ["l0", "bad"], True, "cfgs"), (3, ["l0", "bad"], True, "cfgs"), (0, ["l0", "l1"], False, "cfgs"),
                                           (1, ["l0", "bad", "l2"], False, "cfgs"), (2, ["l0", "bad", "l2"], True, "cmds"),
                                           (1, ["l0", "l1"], True, "cfg"), (1, ["l0", "l1"], True, "cfgsfile")):
                    c = {**base, "id": idn, "platform": plat, "stack": stack, "op": op, "fail": ["bad"], "stop": True, "warm": warm,
                         "priv": lvl if op in CFG_OPS else "", "fault": {"kind": kind, "at_line": k}}
                    if op in LIST_OPS:
                        c["lines"] = lines
                    else:
                        c["text"] = "\n".join(lines) + ("\n" if op == "cfgsfile" else "")
                    if c["priv"] == "@session":
                        c["session"], c["priv"] = "s1", "s1"
                    out.append(finish_case(c))
                    idn += 1
    # operation histories on ONE connection: a failed / aborted configuration call directly followed by 1-2 further operations
    for plat in NET_PLATFORMS:
        for stack in ("sync", "async"):
            for lv in CONFIG_LEVELS[plat]:
                sess = "s1" if lv == "@session" else None
                lvl = "s1" if sess else lv
                others = [x for x in CONFIG_LEVELS[plat] if x not in (lv, "@session")]
                firsts = [("cfgs", {"lines": ["l0", "bad", "l2"]}, True), ("cfg", {"text": "l0\nbad"}, True), ("cfgs", {"lines": ["l0", "bad"]}, False),
                          ("cfgs", {"lines": ["l0", "l1"]}, True)]
                thens = [[{"op": "cfgs", "lines": ["m0", "m1"], "stop": True}],
                         [{"op": "cfgs", "lines": ["m0", "bad", "m2"], "stop": True}, {"op": "cfgs", "lines": ["n0"], "stop": False}],
                         [{"op": "cfg", "text": "m0\nm1", "stop": True}, {"op": "cmds", "lines": ["show x", "show y"], "stop": False}],
                         [{"op": "cmds", "lines": ["show x"], "stop": False}, {"op": "cfgs", "lines": ["m0", "bad"], "stop": True}],
                         [{"op": "cfgs", "lines": ["m0", "m1"], "stop": True, "priv": others[0]}, {"op": "cfgs", "lines": ["n0", "bad"], "stop": True}]]
                for fop, fextra, fstop in firsts:
                    for th in thens:
                        c = {**base, "id": idn, "platform": plat, "stack": stack, "op": fop, "fail": ["bad"], "stop": fstop, "priv": lvl, "session": sess,
                             "then": th}
                        c.update(fextra)
                        out.append(finish_case(c))
                        idn += 1
    # file histories: the same path used again after rewrite / append / truncate / rename, same / new / other-stack connection
    for plat in NET_PLATFORMS + ["generic"]:
        for stack in ("sync", "async"):
            for fop in (("gfile",) if plat == "generic" else ("cfgsfile", "cmdsfile")):
                for how in ("same", "new", "other"):
                    variants = [[{"how": how, "change": "rewrite", "text": "m0\nm1\nm2\n"}],
                                [{"how": how, "change": "append", "text": "m0\nbad\nm2\n"}],
                                [{"how": how, "change": "truncate", "keep": 5}],
                                [{"how": how, "change": "rename", "text": "r0\n"}, {"how": "same", "change": "rewrite", "text": "r1\nr2"}],
                                [{"how": how, "inmem": ["i0", "i1"]}, {"how": how, "change": "rewrite", "text": "m0\n"}]]
                    for vi, fs in enumerate(variants):
                        out.append(finish_case({**base, "id": idn, "platform": plat, "stack": stack, "op": fop, "text": "l0\nl1\nl2\n", "fail": ["bad"],
                                                "stop": vi % 2 == 1, "file_steps": fs}))
                        idn += 1
    for stack in ("sync", "async"):
        for rp in (["same", "same"], ["new", "other"]):
            out.append(finish_case({**base, "id": idn, "platform": "generic", "stack": stack, "op": "gcmds", "lines": ["l0", "l1", "l2"], "stop": False, "repeat": rp}))
            idn += 1
    return out


def unit_requests(rng, n):
    """pure-function correspondences: splitlines / file reading / record_response on arbitrary strings / bytes"""
    reqs = []
    alpha = ["a", "b", " ", "\n", "\r", "\r\n", "\x0b", "\x0c", "\x1c", "\x1d", "\x1e", "\x85", "\u2028", "\u2029", "é", "\x1f", "\t", "\x00", "\x1b"]
    for k in range(4):   # exhaustive up to length 3 over the boundary alphabet
        for tup in itertools.product(["a", "\n", "\r", "\x85", "\u2028", "\x1c"], repeat=k):
            reqs.append(("split", "".join(tup)))
    for _ in range(n):
        s = "".join(rng.choice(alpha) for _ in range(rng.randint(0, 12)))
        reqs.append((rng.choice(["split", "fsplit"]), s))
    for _ in range(n):
        b = bytes(rng.choice([0x61, 0x25, 0x20, 0xe9, 0xc3, 0xa9, 0xff, 0x80, 0xe2, 0x82, 0xac, 0xed, 0xa0, 0xf0, 0x9f, 0x98, 0x80, 0x0a])
                  for _ in range(rng.randint(0, 10)))
        f = rng.choice([None, "%", "é", "", ["a%", "€"], [], ["ÿ"], "\xe9", ["a", ""]])
        reqs.append(("failed", f, b))
    return reqs


def run_unit(reqs, tmpdir):
    """-> (model lines, real values)"""
    from scrapli.driver.generic.base_driver import BaseGenericDriver
    from scrapli.response import Response
    lines, real = [], []
    for i, r in enumerate(reqs):
        if r[0] == "split":
            lines.append(f"split {hx(r[1])}")
            real.append(hxl(r[1].splitlines()))
        elif r[0] == "fsplit":
            p = os.path.join(tmpdir, f"u{i}.txt")
            with open(p, "wb") as f:
                f.write(r[1].encode("utf-8"))
            real.append(hxl(BaseGenericDriver._pre_send_from_file(file=p, caller="send_commands_from_file")))
            os.unlink(p)
            lines.append(f"fsplit {hx(r[1])}")
        else:
            f = r[1]
            fw = "N" if f is None else ("S" + hx(f) if isinstance(f, str) else "L" + hxl(f))
            lines.append(f"failed {fw} {hexs(r[2])}")
            resp = Response("h", "x", failed_when_contains=f if not isinstance(f, list) else list(f))
            resp.record_response(r[2])
            real.append(f"{1 if resp.failed else 0} {hx(resp.result)}")
    return lines, real


# ---------- the check
def load_corpus():
    p = VERIF / "corpus" / PID / "corpus.json"
    return [finish_case(dict(c)) for c in json.load(open(p))] if p.exists() else []


async def _run_all(cases, tmpdir):
    out = []
    for c in cases:
        out.append(await run_real(c, tmpdir))
    return out


def twin_of(case):
    """send_config(s) -> the send_configs(splitlines(s)) run it must equal"""
    t = dict(case)
    t["op"], t["lines"] = "cfgs", case["text"].splitlines()
    t.pop("text", None)
    t["id"] = f"{case.get('id')}t"
    return finish_case(t)


def in_domain(case):
    """domain of the ORACLE (the property's quantifier)"""
    return not case["mode_changing"] and not case["bad_chars"]


def model_domain(case):
    """domain in which model and code must agree (gating): everything the model can express — also lines the device
    interprets as mode changes; not lines with \\n / \\r / ESC / BS (the device splits or never echoes them) and
    injected channel failures go to the failing-channel model (SendFault.lean) in evaluate()"""
    return not case["bad_chars"] and not case.get("fault")


def evaluate(ck, cases, tmpdir, count=True):
    """run real + model on `cases`; oracle + correspondence.  returns number of oracle violations recorded"""
    twins = {i: twin_of(c) for i, c in enumerate(cases) if c["op"] == "cfg" and c.get("text")}
    allc = list(cases) + [twins[i] for i in sorted(twins)]
    obs = asyncio.run(_run_all(allc, tmpdir))
    tw_obs = {i: obs[len(cases) + k] for k, i in enumerate(sorted(twins))}
    # model
    reqs, idx = [], []
    for i, (c, o) in enumerate(zip(allc, obs)):
        if c.get("fault") and "log" in o and not (o["exc"] or "").startswith("HARNESS") and not c["bad_chars"] \
                and (not o["stall"] or c["fault"]["kind"] == "silent"):
            # the failing channel of SendFault.lean: Env.out = the device's own text for the lines it executed
            tbl = {(m, l): dev_text(c, l).encode("utf-8") for sp, m, l in o["log"] if not sp}
            fk = FAULT_KINDS[c["fault"]["kind"]]
            reqs.append(f"F {fk[3]} {fk[4]} {c['fault']['at_line']} " + model_request(c, o, tbl))
            idx.append(i)
            continue
        if o["stall"] or (o["exc"] or "").startswith("HARNESS") or "log" not in o or c.get("fault"):
            continue
        tw = tw_obs.get(i) if i < len(cases) else None
        tbl = out_table_for(c, o, tw["resps"] if tw and tw.get("resps") else None)
        reqs.append(model_request(c, o, tbl))
        idx.append(i)
    try:
        mout = run_model(PID, reqs) if reqs else []
    except Exception as e:
        ck.proof_broken("model driver Drv/C13.lean", repr(e))
        mout = None
    model = {}
    if mout is not None:
        for i, ml in zip(idx, mout):
            model[i] = parse_fault_reply(ml) if allc[i].get("fault") else parse_reply(ml)
    nviol = 0
    for i, (c, o) in enumerate(zip(cases, obs)):
        dom = in_domain(c)
        mdom = model_domain(c)
        nl = len(expected_lines(c))
        has_failure = bool(o.get("resps") and any(x[2] for x in o["resps"])) or bool(o.get("merged") and o["merged"][1])
        sample = {k: c.get(k) for k in ("platform", "stack", "op", "priv", "stop", "eager", "eager_input", "fwc", "fail")}
        sample["lines"] = [l[:30] for l in expected_lines(c)[:6]]
        if count and dom:
            ck.case((c["platform"], c["stack"], c["op"], tuple(expected_lines(c)), c["stop"], c["eager"], c.get("eager_input"), str(c["fwc"]),
                     tuple(c["fail"]), c.get("priv"), c.get("warm"), c.get("ret"), tuple(sorted(c["outputs"].items())), tuple(c.get("repeat", ())), json.dumps(c.get("file_steps", []), sort_keys=True),
                     json.dumps(c.get("then", []), sort_keys=True)),
                    nontrivial=nl >= 2 and (has_failure or c["eager"] or c["op"] in TEXT_OPS),
                    sample=sample,
                    tags=(f"platform={c['platform']}", f"stack={c['stack']}", f"op={c['op']}", f"n={min(nl, 6)}", f"stop={c['stop']}",
                          "mode=" + ("eager" if c["eager"] else "eager_input" if c.get("eager_input") else "normal"),
                          "markers=" + ("default" if c["fwc"] is None and not c.get("ctor_fwc") else "ctor" if c["fwc"] is None else
                                        "str" if isinstance(c["fwc"], str) else "empty-list" if not c["fwc"] else "list"),
                          f"level={c.get('priv') or 'default'}" if c["op"] in CFG_OPS else "level=n/a",
                          "failure=" + ("none" if not has_failure else "yes"), f"warm={bool(c.get('warm'))}",
                          "long-line" if any(len(l) > 990 for l in expected_lines(c)) else "short-lines",
                          "generic_driver_mode" if c.get("generic_mode") else "priv-mode",
                          "history=" + ("+".join(c["repeat"]) if c.get("repeat") else "single-call"),
                          "file-history=" + ("+".join((x.get("change") or "inmem") + "@" + x["how"] for x in c["file_steps"]) if c.get("file_steps") else "none"),
                          ("channel-failure=" + c["fault"]["kind"]) if c.get("fault") else "channel-ok",
                          "op-history=" + ("+".join(x["op"] for x in c["then"]) if c.get("then") else "none")))
        elif count:
            ck.extra["advisory_out_of_domain_cases"] = ck.extra.get("advisory_out_of_domain_cases", 0) + 1
        # oracle
        if dom:
            vs = oracle(c, o)
            if i in twins and not vs:
                t = tw_obs[i]
                if [(m, l) for _, m, l in o["log"]] != [(m, l) for _, m, l in t["log"]] or o["wire"] != t["wire"] or \
                        (o["merged"] and t.get("resps") is not None and
                         (o["merged"][0] != "\n".join(x[1] for x in t["resps"]) or o["merged"][1] != any(x[2] for x in t["resps"]))):
                    vs.append(("send_config-vs-send_configs", f"send_config log {o['log'][:6]!r} / merged {o['merged']!r} differs from send_configs(splitlines) "
                               f"{t['log'][:6]!r} / {t.get('resps')!r}"))
            if c.pop("_result_differs", False):
                ck.extra["advisory_result_differs_from_device_text"] = ck.extra.get("advisory_result_differs_from_device_text", 0) + 1
            if o.get("exc") == "IndexError" and nl == 0:
                ck.extra["advisory_empty_list_raw_IndexError"] = ck.extra.get("advisory_empty_list_raw_IndexError", 0) + 1
            for kind, detail in vs:
                if kind == "harness":
                    ck.extra["harness_trouble"] = ck.extra.get("harness_trouble", 0) + 1
                    continue
                vc = dict(c)
                vc.update(kind=kind, has_failure=has_failure or kind == "abort-mode", detail=detail,
                          device_log=[(m, l[:60]) for _, m, l in o.get("log", [])][:30])
                if ck.violation(vc, f"{kind}: {detail}", matcher):
                    nviol += 1
        # correspondence
        mr = model.get(i)
        if mout is None or mr is None and i not in idx:
            continue
        if mr is None:
            if (mdom or c.get("fault")) and i in idx:
                ck.disagree("Send model vs drivers", c, "model driver replied bad-op")
            continue
        if c.get("fault"):
            real_out = "timeout" if o["stall"] else "ok" if not o["exc"] else {"ScrapliTimeout": "timeout", "ScrapliConnectionError": "conn",
                                                                         "IndexError": "index"}.get(o["exc"], o["exc"])
            diffs = []
            if mr["outcome"] != real_out:
                diffs.append(f"outcome class impl={real_out} model={mr['outcome']}")
            rl = [("n" if sp else "x", m, l) for sp, m, l in o["log"]]
            ml = [("n" if og == "n" else "x", m, l) for og, m, l in mr["log"]]
            if rl != ml:
                diffs.append(f"device log impl={[(a, b, c_[:20]) for a, b, c_ in rl][:12]} model={[(a, b, c_[:20]) for a, b, c_ in ml][:12]}")
            if o["wire"] != mr["wire"]:
                diffs.append(f"write log impl={o['wire'][-40:]!r} model={mr['wire'][-40:]!r}")
            if c["platform"] != "generic" and (o["belief1"], o["mode1"]) != (mr["belief"], mr["mode"]):
                diffs.append(f"belief/mode after impl={(o['belief1'], o['mode1'])} model={(mr['belief'], mr['mode'])}")
            if c["fault"]["kind"] != "silent" and real_out in ("timeout", "conn") and o.get("alive") != mr["usable"]:
                diffs.append(f"connection usable afterwards impl={o.get('alive')} model={mr['usable']}")
            if diffs:
                ck.disagree("SendFault model vs drivers (failing channel)", {k: v for k, v in c.items() if k != "outputs"}, "; ".join(diffs))
            else:
                ck.traces_validated += 1
                ck.extra["failing_channel_model_agrees"] = ck.extra.get("failing_channel_model_agrees", 0) + 1
            continue
        real_err = "ok" if not o["exc"] else "index" if o["exc"] == "IndexError" else \
            ("nav" if any(not s["ok"] for s in o["spans"]) else "priv") if o["exc"] == "ScrapliPrivilegeError" else o["exc"]
        diffs = []
        if mr["err"] != real_err:
            diffs.append(f"outcome impl={real_err} model={mr['err']}")
        rl = [("n" if sp else "x", m, l) for sp, m, l in o["log"]]
        ml = [("n" if og == "n" else "x", m, l) for og, m, l in mr["log"]]
        if rl != ml:
            diffs.append(f"device log impl={[(a, b, c_[:20]) for a, b, c_ in rl][:12]} model={[(a, b, c_[:20]) for a, b, c_ in ml][:12]}")
        if o["wire"] != mr["wire"]:
            diffs.append("wire bytes differ")
        if o["resps"] is not None and [(x[2], x[1]) for x in o["resps"]] != mr["resps"]:
            diffs.append(f"responses impl={[(x[2], x[1][:20]) for x in o['resps']]} model={[(a, b[:20]) for a, b in mr['resps']]}")
        if o["merged"] is not None and (o["merged"][1], o["merged"][0]) != (mr["merged"] or (None, None)):
            diffs.append(f"merged impl={o['merged'][:2]!r} model={mr['merged']!r}")
        if c["platform"] != "generic" and (o["belief1"], o["mode1"]) != (mr["belief"], mr["mode"]):
            diffs.append(f"belief/mode after impl={(o['belief1'], o['mode1'])} model={(mr['belief'], mr['mode'])}")
        if diffs:
            if mdom:
                ck.disagree("Send model vs drivers", {k: v for k, v in c.items() if k != "outputs"}, "; ".join(diffs))
            else:
                ck.extra["advisory_out_of_domain_disagreements"] = ck.extra.get("advisory_out_of_domain_disagreements", 0) + 1
        elif mdom:
            ck.traces_validated += 1
            if not dom:
                ck.extra["mode_changing_lines_model_agrees"] = ck.extra.get("mode_changing_lines_model_agrees", 0) + 1
    # operation histories: the follow-up calls replayed through the Lean driver with the MODEL's belief carried from call to call
    # (device mode, navigation tape and channel results of each call come from the real run as for a first call)
    if mout is not None:
        carried = {i: model[i]["belief"] for i, c in enumerate(cases) if c.get("then") and model.get(i) and "belief" in model[i]
                   and not c.get("fault") and model_domain(c)}
        for d in range(3):
            batch = []
            for i, bel in carried.items():
                th = obs[i].get("then", [])
                if d < len(th):
                    sub, rec = th[d]
                    if rec["stall"] or not model_domain(sub):
                        continue
                    tbl = out_table_for(sub, rec) if rec.get("resps") else {(m, l): dev_text(sub, l).encode("utf-8") for sp, m, l in rec["log"] if not sp}
                    batch.append((i, sub, rec, model_request(sub, {**rec, "belief0": bel}, tbl)))
            if not batch:
                break
            try:
                rep = run_model(PID, [b[3] for b in batch])
            except Exception as e:
                ck.proof_broken("model driver Drv/C13.lean (histories)", repr(e))
                break
            carried = {}
            for (i, sub, rec, _), line in zip(batch, rep):
                mr = parse_reply(line)
                if mr is None:
                    ck.disagree("Send model vs drivers (operation history)", {k: v for k, v in sub.items() if k != "outputs"}, "model driver replied bad-op")
                    continue
                real_err = "ok" if not rec["exc"] else "index" if rec["exc"] == "IndexError" else \
                    ("nav" if any(not sp["ok"] for sp in rec["spans"]) else "priv") if rec["exc"] == "ScrapliPrivilegeError" else rec["exc"]
                diffs = []
                if mr["err"] != real_err:
                    diffs.append(f"outcome impl={real_err} model={mr['err']}")
                rl = [("n" if sp else "x", m, l) for sp, m, l in rec["log"]]
                ml = [("n" if og == "n" else "x", m, l) for og, m, l in mr["log"]]
                if rl != ml:
                    diffs.append(f"device log impl={rl[:12]} model={ml[:12]}")
                if rec["wire"] != mr["wire"]:
                    diffs.append("wire bytes differ")
                if rec["resps"] is not None and [(x[2], x[1]) for x in rec["resps"]] != mr["resps"]:
                    diffs.append("responses differ")
                if (rec["belief1"], rec["mode1"]) != (mr["belief"], mr["mode"]):
                    diffs.append(f"belief/mode after impl={(rec['belief1'], rec['mode1'])} model={(mr['belief'], mr['mode'])}")
                if diffs:
                    ck.disagree("Send model vs drivers (operation history)",
                                {"first": {k: v for k, v in cases[i].items() if k != "outputs"}, "call": d + 2,
                                 "sub": {k: v for k, v in sub.items() if k != "outputs"}}, "; ".join(diffs))
                else:
                    ck.traces_validated += 1
                    ck.extra["operation_history_calls_model_agrees"] = ck.extra.get("operation_history_calls_model_agrees", 0) + 1
                    carried[i] = mr["belief"]
    # the Lean device's line discipline vs the Python device on the same write logs
    dev_cases = [o for c, o in zip(cases, obs) if in_domain(c) and "log" in o and not o["stall"] and c.get("ret", "\n") in ("\n", "\r\n")][:1500]
    if dev_cases and mout is not None:
        try:
            dm = run_model(PID, [f"dev {hexs(o['wire'])}" for o in dev_cases])
            for o, a in zip(dev_cases, dm):
                want = hexl([l.encode("utf-8") for _, _, l in o["log"]])
                if a != want:
                    ck.disagree("Lean devLines vs simulated device", {"wire": hexs(o["wire"])[:400]}, f"device={want[:200]} model={a[:200]}")
                else:
                    ck.traces_validated += 1
        except Exception as e:
            ck.proof_broken("model driver Drv/C13.lean (dev)", repr(e))
    return nviol, obs


def replay_witness(ck, tmpdir):
    """replay the stored F7 witness on the real code; KNOWN-FINDING line while it still fails"""
    for f in ck.findings:
        if f.get("status") != "open" or f.get("property") != PID:
            continue
        failing = []
        for w in f["witness"]["cases"]:
            c = finish_case(dict(w))
            o = asyncio.run(run_real(c, tmpdir))
            kinds = [k for k, _ in oracle(c, o)]
            if "abort-mode" in kinds:
                failing.append(c["priv"] + "/" + c["stack"])
        if failing:
            ck.known_finding(f["id"], f["what"] + f" [witness still fails: {', '.join(failing)}]")
        ck.extra["finding_" + f["id"] + "_witness_fails"] = bool(failing)


def run(tier, seed):
    ck = Check(PID, tier, seed, level="proof")
    ck.rule = ("case = platform (5 + GenericDriver) x sync/asyncio x operation (send_command(s), send_config(s), *_from_file) x list of lines "
               "(plain, empty, leading/trailing blanks, UTF-8, unicode line separators inside in-memory lines, 998..2400-byte lines, lines that "
               "contain marker text) x failing positions x marker set (driver default, constructor override, per-call str / list / empty list) x "
               "stop_on_failed x normal / eager / eager_input x return char x configuration level incl. registered EOS/NX-OS sessions x "
               "driver already at the level or not x histories handing ONE list object to 2-4 calls (same connection, new connection, other stack) x file histories (the same path used 2-3 times with the content rewritten / appended / truncated / replaced by rename in between, same or other connection, mixed with in-memory calls) x operation histories (1-2 further send_configs / send_config / send_commands calls on the same connection directly after the first, each judged like a first call incl. the mode its lines ran in). Small scope exhaustive: every list of length <= N over a 4-line alphabet x stop x every "
               "platform level. Non-trivial = >= 2 lines and (a failure, eager, or a text/file source); distinct by all parameters. "
               "Oracle: device exec_log outside acquire_priv spans == expected prefix (+ vendor abort lines), bytes written == each executed "
               "line + one return, flags vs markers in the device's own output, abort lines' modes, caller's containers unchanged after every call, "
               "repeated calls with the same objects deliver the same lines; never consults the model.")
    ck.trusted = ["Lean 4.33.0 kernel; axioms of every theorem audited ⊆ {propext, Classical.choice, Quot.sound}",
                  "tools/gen/c13.py (marker lists, abort plans from the AST of every _abort_config, defaults of the public signatures, CPython separator set)",
                  "tools/harness simdevice/simtransport (causal device: echo, output, prompt, mode table) and the acquire_priv span recorder in props/c13.py",
                  "the oracle's hand-written vendor tables (abort lines, navigation vocabulary) in props/c13.py"]
    ck.assumptions = ["the channel returns what the device printed (that is C01; here Env.out is taken from the real responses)",
                      "privilege navigation is abstract (any lines, any outcome); its correctness is C03/C04",
                      "lines that the device itself interprets as mode changes (end, exit, …) and lines containing \\n, \\r, ESC, BS are outside the "
                      "property's domain: model/code agreement only (advisory)",
                      "eager: results are whatever was read; only the device log, the wire and flag/result consistency are judged",
                      "channel failures: ONE failing send_input call of a user or abort line (four points, ScrapliTimeout / ScrapliConnectionError) is in the "
                      "Lean model (SendFault.lean, theorems fault_*) and tied on injected faults; failures inside acquire_priv navigation and "
                      "several failures in one run are not modelled; eager / eager_input runs are not fault-injected"]
    tmpdir = tempfile.mkdtemp(prefix="c13-")
    fixed_tree = None
    try:
        res = translate.translate(PID)
        gen = (VERIF / "lean" / "ScrapliModel" / "Gen" / "SendConsts.lean").read_text()
        fixed_tree = ".default" not in [l for l in gen.splitlines() if l.startswith("def abortJunosSync")][0]
        ck.extra["junos_abort_passes_level"] = fixed_tree
    except Exception as e:
        ck.proof_broken("translator gen/c13.py", repr(e))
    ck.prove("ScrapliProps.C13", lemma_files=["ScrapliProps/C13Lemmas.lean", "ScrapliProps/C13FaultLemmas.lean", "ScrapliModel/Send.lean",
                                              "ScrapliModel/SendFault.lean", "ScrapliModel/SendTypes.lean"])
    if tier == "thorough":
        ck.leanchecker("ScrapliProps.C13")
    # findings: own file until merged by the lead
    fpath = VERIF / "findings" / f"{PID}.json"
    if fpath.exists():
        own = json.load(open(fpath))
        ck.findings = [f for f in ck.findings if f["id"] not in {x["id"] for x in own}] + own   # own file is the newer record
    replay_witness(ck, tmpdir)
    # cases
    cases = load_corpus()
    cases += special_cases(10_000)
    cases += extra_special_cases(15_000)
    cases += small_scope_cases(tier, 20_000)
    nrand = 1200 if tier == "quick" else 20000
    for k in range(nrand):
        cases.append(gen_case(ck.rng, 100_000 + k))
    # advisory stream: lines the device interprets itself
    for k in range(60 if tier == "quick" else 600):
        c = gen_case(ck.rng, 900_000 + k, platform=ck.rng.choice(NET_PLATFORMS))
        if c["op"] in LIST_OPS:
            c["lines"][ck.rng.randrange(len(c["lines"]))] = ck.rng.choice(["end", "exit", "abort"])
            cases.append(finish_case(c))
    nviol, _ = evaluate(ck, cases, tmpdir)
    # pure-function correspondences
    ureqs = unit_requests(ck.rng, 300 if tier == "quick" else 4000)
    ulines, ureal = run_unit(ureqs, tmpdir)
    try:
        umodel = run_model(PID, ulines)
        for rq, a, b in zip(ureqs, umodel, ureal):
            if a != b:
                ck.disagree("splitlines / file reading / record_response", {"request": repr(rq)}, f"impl={b} model={a}")
            else:
                ck.traces_validated += 1
    except Exception as e:
        ck.proof_broken("model driver Drv/C13.lean (unit)", repr(e))
    # widen around a disagreement / broken proof before reporting it without a failing input
    if ck.broken and not ck.violations:
        extra = [gen_case(ck.rng, 500_000 + k) for k in range(3000 if tier == "quick" else 10000)]
        ck2_before = len(ck.violations)
        evaluate(ck, extra, tmpdir, count=False)
        ck.extra["widened_search_cases"] = len(extra)
        ck.extra["widened_search_found"] = len(ck.violations) - ck2_before
    ck.exhaustive = True
    ck.extra["exhaustive_scope"] = ("every list of length <= %d over {a, '', bad, ' x y '} x stop_on_failed x every platform configuration level "
                                    "(sync; asyncio up to length 2)" % (2 if tier == "quick" else 3))
    ck.extra["tree"] = "fixed (Junos abort passes the level)" if fixed_tree else "unfixed (Junos abort without level: finding F7)"
    try:
        os.rmdir(tmpdir)
    except OSError:
        pass
    return ck.finish()


def replay(path):
    r = json.load(open(path))
    v = r.get("violation", {}).get("case") or (r.get("no_longer_checks") or [{}])[0].get("case") or {}
    if not v:
        print("nothing to replay")
        return 0
    c = finish_case({k: v[k] for k in v if k not in ("kind", "detail", "device_log", "has_failure")})
    c.setdefault("outputs", {})
    tmpdir = tempfile.mkdtemp(prefix="c13-")
    o = asyncio.run(run_real(c, tmpdir))
    vs = oracle(c, o)
    print("case   ", {k: c[k] for k in c if k != "outputs"})
    print("log    ", o.get("log"))
    print("resps  ", o.get("resps"), o.get("merged"), o.get("exc"))
    print("oracle ", vs)
    # violations that fall under an open finding's predicate are expected while the finding is open
    from vlib.common import load_findings
    fnd = load_findings(PID)
    fpath = VERIF / "findings" / f"{PID}.json"
    if fpath.exists():
        own = json.load(open(fpath))
        fnd = [f for f in fnd if f["id"] not in {x["id"] for x in own}] + own
    open_ids = {f["id"] for f in fnd if f.get("status") == "open"}
    has_failure = bool(o.get("resps") and any(x[2] for x in o["resps"])) or bool(o.get("merged") and o["merged"][1])
    new = [(k, d) for k, d in vs if matcher({**c, "kind": k, "has_failure": has_failure or k == "abort-mode"}) not in open_ids]
    if vs and not new:
        print("all attributed to open findings", sorted(open_ids))
    return 1 if new else 0
