"""C03 — commands and configs are only ever sent at the right privilege level.
Lean: ScrapliModel/Priv/*.lean, ScrapliProps/C03.lean.  Real code: the five platform drivers, sync and asyncio, driven through
whole operation histories over the causal simulated device; observable = the device's execution log."""
import asyncio, itertools, json, os, subprocess, sys

from vlib.common import VERIF, Check, run_model
import translate
from props import c04 as base

PID = "C03"
FINDINGS = VERIF / "findings" / "C03.json"
CORPUS = VERIF / "corpus" / "C03" / "corpus.json"
SESS = {"arista_eos": ["sessA", "other-b"], "cisco_nxos": ["sessA", "sessB"]}
FAIL = ["badline"]


# ---------- operation alphabets
def config_levels(platform, sessions):
    names = [r[0] for r in base.ctx(platform)["rows"]]
    return [""] + [n for n in names if n.startswith("configuration_")] + list(sessions)


def alphabet(platform, full):
    """operations over which histories are enumerated; `full`: every level for every level-taking operation"""
    c = base.ctx(platform)
    names = [r[0] for r in c["rows"]]
    sess = SESS.get(platform, [])
    ops = [("c", "show a")]
    cl = config_levels(platform, sess[:1] if not full else sess)
    if full:
        ops += [("C", False, ["show a", "show b"]), ("C", True, ["show a", "badline", "show b"])]
        for lv in cl:
            ops += [("G", False, lv, ["cfg a"]), ("G", True, lv, ["cfg a", "badline", "cfg b"]), ("G", False, lv, ["badline", "cfg b"]),
                    ("g1", False, lv, ["cfg a", "cfg b"])]
        ops += [("A", n) for n in names + sess]
        ops += [("I", lv, ["int a"]) for lv in [""] + names + sess]
        ops += [("R", s) for s in sess]
    else:
        for lv in cl:
            ops.append(("G", False, lv, ["cfg a"]))
        ops.append(("G", True, cl[-1], ["cfg a", "badline", "cfg b"]))
        ops.append(("A", names[-1]))
        ops.append(("I", cl[-1] or "configuration", ["int a"]))
        ops += [("R", s) for s in sess[:1]]
    ops += [("g", True), ("g", False)]
    return ops


def mk(platform, login, ops, blocked=(), dpw=None, sec="", pwl=3, names=None):
    host, user = names or base.rot_names(platform)
    return dict(platform=platform, login=login, ops=[list(o) for o in ops], blocked=[[list(k), v] for k, v in blocked], dpw=dpw, sec=sec,
                pwl=pwl, fail=FAIL, host=host, user=user)


# ---------- oracle (independent of the model): every user line in the level its operation named; belief sound after every op
def op_user_lines(op):
    k = op[0]
    if k == "c":
        return [op[1]]
    if k == "C":
        return list(op[2])
    if k in ("G", "g1"):
        return list(op[3])
    if k == "I":
        return list(op[2])
    return []


def oracle(case, obs):
    rows = base.case_rows(case)
    key = {r[0]: r[5] for r in rows}
    default = base.desired_of(case)      # the level commands must run in under THIS configuration
    base_names = [r[0] for r in base.ctx(case["platform"])["rows"]]
    cooperative = not case["blocked"] and case["dpw"] is None
    registered = []
    out = []
    generic = False
    prev = {"mode": case["login"], "rounds": 0, "loglen": 0, "belief": "DUMMY"}
    tainted = False      # an earlier get_prompt round met the finding's predicate and the belief has been wrong since
    bt = base.Belief()   # the narrow predicate: only an unknown belief that the code documents is the known finding
    cmds = {r[2] for r in rows if r[1]} | {r[3] for r in rows if r[1]}
    for i, (op, rec) in enumerate(zip(case["ops"], obs["recs"])):
        op = tuple(op)
        seg = obs["log"][prev["loglen"]:rec["loglen"]]
        probes = obs["probe"][prev["rounds"]:rec["rounds"]]
        hz = bt.hazard(probes, key, obs.get("levels"))
        bt.after(op, rec)
        tainted = tainted or hz
        flags = {"hazard": tainted, "overlap": bt.overlap}
        k = op[0]
        if k in ("O", "X"):
            # the platform's on_open / on_close hook ran: its lines belong at the default desired level
            out += base.hook_line_violations(f"op {i} {'open()' if k == 'O' else 'close()'}: ", seg, cmds, case["sec"], default, flags)
        asked = None
        if k in ("c", "C"):
            asked = None if generic else default
        elif k in ("G", "g1"):
            asked = op[2] or "configuration"
            if generic and (rec["out"] != "priv" or seg):
                out.append((f"op {i} {op}: send_config(s) in generic-driver mode must be refused without touching the device: {rec['out']}, {seg}", flags))
        elif k == "I":
            asked = op[1] or (None if generic else default)
        elif k == "g":
            generic = bool(op[1])
        injected = bool(rec.get("injected"))     # this operation was abandoned by the injected fault: its own outcome is not judged
        if (rec["out"] in ("LOOP", "FUEL") or rec["out"].startswith("EXC:")) and not injected:
            out.append((f"op {i} {op}: ended with {rec['out']}", flags))
        # a cooperative device never makes a valid request fail: the lines have to reach it (in the level named)
        known = base_names + registered
        wants = {"A": op[1] if k == "A" else None, "G": asked, "g1": asked, "I": asked, "c": asked, "C": asked, "O": default, "X": default}.get(k)
        refused_by_design = k in ("G", "g1") and generic
        if cooperative and rec["out"] == "priv" and not refused_by_design and not injected and (wants is None or wants in known):
            out.append((f"op {i} {op}: ScrapliPrivilegeError although the device cooperates and the level {wants!r} exists", flags))
        if k == "R" and rec["out"] == "ok":
            registered = registered + [op[1]]
        ulines = set(op_user_lines(op))
        if asked is not None:
            for (m, l) in seg:
                if l in ulines and m != asked:
                    out.append((f"op {i} {op}: user line {l!r} was executed in level {m!r}, the operation named {asked!r}", flags))
                    break
        # (after close() the device session is over — the hook's last line may well have moved the device, e.g. `exit` typed in a
        # configuration level when that is the desired level; the next open() starts a new session and reads the prompt first)
        if k != "X" and rec["belief"] != "DUMMY" and rec["belief"] != rec["mode"]:
            out.append((f"op {i} {op}: afterwards the driver believes {rec['belief']!r} but the device is in {rec['mode']!r}", flags))
        else:
            tainted = False     # belief is sound (or unknown) again
        prev = rec
    if any(not by_design for by_design in obs["stalls"]):
        out.append(("the driver waited for output although the device had answered with a prompt", {}))
    return out


def matcher(case):
    f = case.get("flags") or {}
    if f.get("hazard") and f.get("overlap"):
        return "F24"
    if f.get("hazard"):
        return "F11"
    return None


# ---------- generation
def login_levels(platform):
    return [r[0] for r in base.ctx(platform)["rows"]]


def gen_cases(ck, tier):
    from gen import privgen
    rng = ck.rng
    cases = []
    if CORPUS.exists():
        cases += [dict(c["case"]) for c in json.load(open(CORPUS))]
    for p in privgen.PLATFORMS:
        c = base.ctx(p)
        small, full = alphabet(p, False), alphabet(p, True)
        logins = login_levels(p)
        tr = base.transitions(list(c["rows"]) + base.session_rows(p, SESS.get(p, [])))
        # exhaustive: reduced alphabet, every login level (quick: length <= 3 from the default login, <= 2 elsewhere)
        for login in logins:
            nmax = (3 if login == c["default"] else 2) if tier == "quick" else (4 if login == c["default"] else 3)
            for n in range(1, nmax + 1):
                for h in itertools.product(small, repeat=n):
                    if tier == "quick" and n == 3 and len(small) > 8 and rng.random() < 0.5:
                        continue
                    cases.append(mk(p, login, h))
        # exhaustive over the full alphabet: length <= 2 (quick) / 3 (thorough) from the default login
        for n in range(1, (2 if tier == "quick" else 3) + 1):
            for h in itertools.product(full, repeat=n):
                if tier == "quick" and n == 2 and rng.random() < 0.6:
                    continue
                cases.append(mk(p, c["default"], h))
        # PRNG histories up to length 12 over the full alphabet, refusing devices and passwords included
        for _ in range(120 if tier == "quick" else 4000):
            n = rng.choice([3, 4, 5, 6, 8, 12])
            h = [rng.choice(full) for _ in range(n)]
            k = rng.choice([0, 0, 0, 1, 2])
            blocked = [((m, cmd), rng.choice(["refuse", "ignore"])) for m, cmd in rng.sample(tr, min(k, len(tr)))]
            dpw, sec, pwl = rng.choice(base.PW_VARIANTS + [(None, "", 3)] * 4)
            cases.append(mk(p, rng.choice(logins), h, blocked, dpw, sec, pwl, names=base.rand_names(rng, p)))
    for p in privgen.PLATFORMS:
        cases += list(fault_histories(rng, p, 260 if tier == "quick" else None))
    for p in privgen.PLATFORMS:
        cases += list(lifecycle_histories(rng, p, 3 if tier == "quick" else 4))
        cases += list(lifecycle_histories(rng, p, 0, budget=80 if tier == "quick" else 2000))
    for p, sets in SESSION_NAME_SETS.items():
        for names in sets:
            cases += list(session_histories(rng, p, names, 4 if tier == "quick" else 5))
            cases += list(session_histories(rng, p, names, 0, budget=150 if tier == "quick" else 2000))
    for p in privgen.PLATFORMS:
        cases += list(desired_histories(rng, p, tier))
    return cases


SESSION_NAME_SETS = {"cisco_nxos": [("sessA", "sessB")],
                     "arista_eos": [("sessA", "other-b"), ("sessionA1", "sessionA2"),
                                    # prefix- and case-related names: different pattern text, same prompts (outside the model's domain)
                                    ("abc", "abcd"), ("sess", "SESS")]}


def session_histories(rng, platform, names, nmax, budget=None):
    """register / configure / register / configure ...: prompts are classified between registrations (sessions that share their
    prompt pattern or not); all histories to length nmax, or a PRNG sample over more operations and every login level"""
    c = base.ctx(platform)
    alpha = ([("R", n) for n in names] + [("G", False, n, ["cfg a"]) for n in names] + [("c", "show a"), ("A", c["default"])])
    if budget is None:
        for n in range(2, nmax + 1):
            for h in itertools.product(alpha, repeat=n):
                if any(o[0] == "R" for o in h) and any(o[0] == "G" for o in h):
                    yield mk(platform, c["default"], h)
    else:
        more = alpha + [("A", n) for n in names] + [("I", n, ["int a"]) for n in names] + [("G", True, names[0], ["cfg a", "badline"]),
                                                                                          ("g", True), ("g", False)]
        for _ in range(budget):
            yield mk(platform, rng.choice(login_levels(platform)), [rng.choice(more) for _ in range(rng.choice([3, 4, 5, 6, 8]))],
                     names=base.rand_names(rng, platform))


def fault_histories(rng, platform, budget=None):
    """an operation is abandoned INSIDE one of its privilege changes while the connection stays usable (timeout with
    NO_TERMINATE_ON_TIMEOUT, cancelled asyncio task, injected exception; before the write / line typed but not entered / entered and
    completed by the device, its answer kept or lost); what follows must still run in the right level.
    [optional first operation; the operation hit by the fault at its first or second hop; one or two follow-ups]"""
    c = base.ctx(platform)
    names = [r[0] for r in c["rows"]]
    cl = config_levels(platform, [])
    movers = [("G", False, lv, ["cfg a"]) for lv in cl] + [("A", n) for n in names if n != c["default"]] + [("I", cl[-1] or "configuration", ["int a"])]
    follow = [[("c", "show a")], [("G", False, cl[-1], ["cfg b"])], [("C", False, ["show a", "show b"]), ("G", False, "", ["cfg b"])],
              [("A", names[-1]), ("c", "show a")]]
    firsts = [[], [("c", "show a")]]
    combos = [(f0, m, fo, fv, hop) for f0 in firsts for m in movers for fo in follow for fv in base.fault_variants() for hop in (1, 2)]
    if budget is not None:
        combos = [rng.choice(combos) for _ in range(budget)]
    for f0, m, fo, fv, hop in combos:
        yield dict(mk(platform, c["default"], f0 + [m] + fo), fault=dict(fv, k=hop))


def lifecycle_histories(rng, platform, nmax, budget=None):
    """one driver object through open / operations / close / open again ... with the platform's REAL on_open / on_close hooks; the
    device starts every session at its login level while the object keeps what it remembered (belief, generic mode, sessions)"""
    c = base.ctx(platform)
    names = [r[0] for r in c["rows"]]
    logins = [n for n in names if base.unambiguous(c["rows"], n)]
    cl = config_levels(platform, [])
    alpha = [("c", "show a"), ("G", False, cl[-1], ["cfg a"]), ("A", names[-1]), "XO"]
    more = alpha + [("G", True, cl[0], ["cfg a", "badline"]), ("I", cl[-1] or "configuration", ["int a"]), ("g", True), ("g", False),
                    ("C", False, ["show a", "show b"])] + [("A", n) for n in names]

    def expand(h):
        ops = [("O",)]
        for t in h:
            ops += [("X",), ("O",)] if t == "XO" else [t]
        return ops
    if budget is None:
        for login in logins:
            for n in range(1, nmax + 1):
                for h in itertools.product(alpha, repeat=n):
                    if "XO" in h:
                        yield dict(mk(platform, login, expand(h)), hooks=True)
    else:
        tr = base.transitions(c["rows"])
        for _ in range(budget):
            h = [rng.choice(more + ["XO", "XO"]) for _ in range(rng.choice([2, 3, 4, 6, 8]))]
            k = rng.choice([0, 0, 0, 1])
            blocked = [((m, cmd), rng.choice(["refuse", "ignore"])) for m, cmd in rng.sample(tr, min(k, len(tr)))]
            dpw, sec, pwl = rng.choice(base.PW_VARIANTS + [(None, "", 3)] * 4)
            yield dict(mk(platform, rng.choice(logins), expand(h), blocked, dpw, sec, pwl, names=base.rand_names(rng, platform)), hooks=True)


def desired_histories(rng, platform, tier):
    """the SAME families on drivers constructed with every legal non-default `default_desired_privilege_level` (each level name of
    the platform's table — a public constructor argument, inside the property's "all configurations"): what send_command(s), the
    default send_interactive and the on_open / on_close hooks must run in is THAT level.
      (a) abort paths, exhaustively: [nothing | a command | generic mode on, off] ; [register] ; send_configs(stop_on_failed, failing
          line) at every configuration level incl. a registered session ; every follow-up of `follow`
      (b) all histories over the reduced alphabet to length 2 (thorough 3; quick: a sample of length 3), login = platform default and
          the desired level itself
      (c) re-opened connections with the real hooks, abandoned privilege changes, interleaved session registrations, PRNG histories
          over the full alphabet with refusing devices and passwords from every login level"""
    c = base.ctx(platform)
    sess = SESS.get(platform, [])
    small, full = alphabet(platform, False), alphabet(platform, True)
    logins = login_levels(platform)
    tr = base.transitions(list(c["rows"]) + base.session_rows(platform, sess))
    quick = tier == "quick"

    def put(case, d):
        return dict(case, desired=d)
    for d in base.desired_levels(platform):
        # (a)
        firsts = [[], [("c", "show a")], [("g", True), ("g", False)]]
        follow = [[("c", "show a")], [("C", False, ["show a", "show b"])], [("I", "", ["int a"])], [("G", False, "", ["cfg b"]), ("c", "show a")],
                  [("g", True), ("g", False), ("c", "show a")], [("A", d), ("c", "show a")]]
        for lv in config_levels(platform, sess[:1]):
            reg = [("R", lv)] if lv in sess else []
            for f0 in firsts:
                for fo in follow:
                    for lines in (["cfg a", "badline", "cfg b"], ["badline"]):
                        yield put(mk(platform, c["default"], f0 + reg + [("G", True, lv, lines)] + fo), d)
        # (b)
        for login in dict.fromkeys([c["default"], d]):
            for n in (1, 2, 3):
                for h in itertools.product(small, repeat=n):
                    if n == 3 and (login != c["default"] or (quick and rng.random() < 0.9)):
                        continue
                    yield put(mk(platform, login, h), d)
        # (c)
        for cs in lifecycle_histories(rng, platform, 2 if quick else 3):
            yield put(cs, d)
        for cs in lifecycle_histories(rng, platform, 0, budget=12 if quick else 300):
            yield put(cs, d)
        for cs in fault_histories(rng, platform, 20 if quick else 400):
            yield put(cs, d)
        for names in SESSION_NAME_SETS.get(platform, [])[:2]:
            for cs in session_histories(rng, platform, names, 0, budget=15 if quick else 300):
                yield put(cs, d)
        for _ in range(30 if quick else 800):
            h = [rng.choice(full) for _ in range(rng.choice([3, 4, 5, 6, 8, 12]))]
            k = rng.choice([0, 0, 0, 1, 2])
            blocked = [((m, cmd), rng.choice(["refuse", "ignore"])) for m, cmd in rng.sample(tr, min(k, len(tr)))]
            dpw, sec, pwl = rng.choice(base.PW_VARIANTS + [(None, "", 3)] * 4)
            yield put(mk(platform, rng.choice(logins), h, blocked, dpw, sec, pwl, names=base.rand_names(rng, platform)), d)


def run_sync(case):
    return base.run_sync(case)


def load_findings(ck):
    if FINDINGS.exists():
        mine = json.load(open(FINDINGS))      # this property's findings file is authoritative for its ids (status open / fixed)
        ids = {f["id"] for f in mine}
        ck.findings = [f for f in ck.findings if f["id"] not in ids] + mine


def replay_findings(ck):
    for f in ck.findings:
        if f.get("status") != "open" or f.get("property") != PID:
            continue
        for case in f["witness"]["cases"]:
            try:
                v = oracle(case, run_sync(case))
            except Exception as e:  # noqa: BLE001
                ck.notes.append(f"witness of {f['id']} could not be replayed: {e!r}")
                continue
            if any(matcher(dict(case, flags=fl)) == f["id"] for _, fl in v):
                ck.known_finding(f["id"], f["what"])
                break


def compare(obs, mrecs, mlog):
    return base.compare(obs, mrecs, mlog)


def model_ulog_check(case, mrecs, mulog, obs):
    """the model's ghost user-line log must be the device log restricted to user lines (ties the ghost to the observable)"""
    ulines = set()
    for op in case["ops"]:
        ulines.update(op_user_lines(tuple(op)))
    if case.get("hooks"):       # the hooks' send_command / send_input lines are recorded by the model like command lines
        for hk in (base.ctx(case["platform"])["hooks"] or {}).values():
            ulines.update(s[1] for s in hk[0] + hk[1] if s[0] in ("command", "input"))
    real = [(m, l) for m, l in obs["log"] if l in ulines]
    mod = [(act, ln) for _, act, ln, _ in mulog]
    return None if real == mod else f"ghost user-line log: device={real} model={mod}"


def child_main():
    import random
    from vlib import common
    common.use_repo()
    from gen import privgen
    from harness.privdevice import decode_reply
    rng = random.Random(int(os.environ.get("VERIF_SEED", "0")) + 104729)
    cases = []
    for p in privgen.PLATFORMS:
        full = alphabet(p, True)
        for _ in range(250):
            cases.append(mk(p, rng.choice(login_levels(p)), [rng.choice(full) for _ in range(rng.choice([2, 3, 4, 6]))],
                            names=base.rand_names(rng, p)))
    obs_l, reqs, orders = [], [], set()
    for c in cases:
        o = run_sync(c)
        obs_l.append(o)
        reqs.append(base.request(c, o))
        orders.add(json.dumps(o["snaps"]))
    mout = run_model("C03", reqs)
    findings = json.load(open(FINDINGS)) if FINDINGS.exists() else []
    open_ids = {f["id"] for f in findings if f.get("status") == "open"}
    res = dict(cases=len(cases), orders_seen=len(orders), violations=0, disagreements=0, agree=0, violation_cases=[], disagreement_cases=[])
    for c, o, ml in zip(cases, obs_l, mout):
        mrecs, mlog, mulog = decode_reply(ml)
        d = compare(o, mrecs, mlog) or model_ulog_check(c, mrecs, mulog, o)
        if d:
            res["disagreements"] += 1
            res["disagreement_cases"].append({"case": c, "detail": d})
        else:
            res["agree"] += 1
        for what, fl in oracle(c, o):
            if matcher(dict(c, flags=fl)) in open_ids:
                continue
            res["violations"] += 1
            res["violation_cases"].append({"case": c, "what": what, "flags": fl})
    res["violation_cases"] = res["violation_cases"][:5]
    res["disagreement_cases"] = res["disagreement_cases"][:5]
    print(json.dumps(res))


def hashseed_runs(ck, seeds):
    for hs in seeds:
        env = dict(os.environ, PYTHONHASHSEED=str(hs), VERIF_SEED=str(ck.seed))
        code = f"import sys; sys.path.insert(0, {str(VERIF / 'tools')!r}); import props.c03 as m; m.child_main()"
        p = subprocess.run([sys.executable, "-c", code], env=env, capture_output=True, text=True, timeout=1800, cwd=str(VERIF / "tools"))
        try:
            r = json.loads(p.stdout.strip().splitlines()[-1])
        except Exception:  # noqa: BLE001
            ck.notes.append(f"PYTHONHASHSEED={hs} child failed: {p.stderr[-300:]}")
            continue
        ck.extra.setdefault("hashseed_runs", []).append({"PYTHONHASHSEED": hs, **{k: r[k] for k in ("cases", "orders_seen", "violations", "disagreements")}})
        for v in r["violation_cases"][:3]:
            ck.violation(dict(v["case"], flags=v["flags"], PYTHONHASHSEED=hs), v["what"], matcher)
        for d in r["disagreement_cases"][:3]:
            ck.disagree(f"Priv model vs real driver (PYTHONHASHSEED={hs})", d["case"], d["detail"])
        ck.traces_validated += r["agree"]


def run(tier, seed):
    from harness.privdevice import decode_reply
    ck = Check(PID, tier, seed, level="proof")
    ck.rule = ("case = (platform, login level, history of operations, device: blocked transitions / secondary password). Operations: "
               "send_command, send_commands (with failing line + stop_on_failed), send_configs / send_config at every configuration "
               "level (plain, failing line with and without stop_on_failed => platform abort), acquire_priv to every level, "
               "send_interactive at every level, register_configuration_session (EOS / NX-OS), generic-driver mode on / off. "
               "Exhaustive: all histories over a reduced alphabet (~8-11 ops) to length 3 (quick; 4 thorough) from the default login and "
               "2 (3) from every other login level; all histories over the FULL alphabet (18-34 ops) to length 2 (3 thorough); PRNG "
               "histories to length 12 with refusing devices and passwords. The same families (abort paths exhaustively, reduced alphabet "
               "to length 2/3, re-opened connections, abandoned privilege changes, sessions, PRNG) on drivers constructed with EVERY "
               "non-default default_desired_privilege_level of the platform table. Every history runs on the REAL driver (sync; every 4th "
               "also asyncio) and on the Lean model; non-trivial = at least two operations of which one sends user lines; distinct "
               "by the whole case. Oracle (independent Python): every (mode, user line) of the device log carries the level the "
               "calling operation named (commands / hook lines: the desired level of THAT driver); belief after every operation is unknown or the device's true level; configs are refused "
               "in generic mode.")
    ck.trusted = ["Lean 4.33.0 kernel; axioms of every theorem audited ⊆ {propext, Classical.choice, Quot.sound}",
                  "tools/gen/privgen.py (tables, defaults, abort shapes, session template copied from the live source)",
                  "tools/harness/simdevice.py + privdevice.py: the causal device (vendor behaviour written by hand, independent of PRIVS)",
                  "correspondence harness props/c03.py"]
    ck.assumptions = ["the device's mode changes only on the driver's own lines: user lines are not mode-changing commands (the property's assumption)",
                      "device assumption: the prompt shown in a level is matched by exactly the levels of its share group (C05)",
                      "send_interactive events are (line, '') pairs (each waits for any CLI prompt)",
                      "timeouts are emulated (no wall clock)"]
    try:
        translate.translate(PID)
    except Exception as e:  # noqa: BLE001
        ck.proof_broken("translator gen/privgen.py", repr(e))
    ck.prove("ScrapliProps.C03", lemma_files=["ScrapliProps/C03Lemmas.lean", "ScrapliProps/C04.lean", "ScrapliProps/C04Lemmas.lean",
                                               "ScrapliProps/C04Loop.lean", "ScrapliProps/C04Reach.lean", "ScrapliModel/Priv/Table.lean",
                                               "ScrapliModel/Priv/Device.lean", "ScrapliModel/Priv/Driver.lean", "ScrapliModel/Priv/Cache.lean"])
    if tier == "thorough":
        ck.leanchecker("ScrapliProps.C03")
    load_findings(ck)
    replay_findings(ck)
    cases = gen_cases(ck, tier)
    obs_s, reqs = [], []
    for c in cases:
        o = run_sync(c)
        obs_s.append(o)
        reqs.append(base.request(c, o))
    aidx = [i for i in range(len(cases)) if base.want_async(i, tier, cases[i])]

    async def all_async():
        return [await base.run_async(cases[i]) for i in aidx]
    obs_a = dict(zip(aidx, asyncio.run(all_async())))
    areq = {}
    for i in aidx:
        if base.stacks_differ(cases[i]):
            areq[i] = len(reqs)
            reqs.append(base.request(cases[i], obs_a[i], "async"))
    try:
        mout = run_model("C03", reqs)
    except Exception as e:  # noqa: BLE001
        ck.proof_broken("model driver Drv/C03.lean", repr(e))
        mout = None
    hazard_model = hazard_oracle = 0
    for i, c in enumerate(cases):
        runs = [("sync", obs_s[i])] + ([("async", obs_a[i])] if i in obs_a else [])
        kinds = [o[0] for o in c["ops"]]
        sends = sum(1 for k in kinds if k in ("c", "C", "G", "g1", "I"))
        outs = [r["out"] for r in obs_s[i]["recs"]]
        ck.case(json.dumps(c, sort_keys=True), nontrivial=len(kinds) >= 2 and sends >= 1,
                sample={k: c.get(k) for k in ("platform", "host", "user", "login", "desired", "ops", "blocked", "dpw", "sec")},
                tags=(c["platform"], f"len={min(len(kinds), 12)}", f"login={c['login']}", "blocked" if c["blocked"] else "coop", "reopened-with-hooks" if c.get("hooks") else "single-session",
                      f"desired={'non-default:' + c['desired'] if c.get('desired') else 'platform-default'}",
                      *((f"fault={c['fault']['point']}/{c['fault']['kind']}",) if c.get("fault") else ()), "host-has-upper" if any(ch.isupper() for ch in c.get("host", "")) else "host-lower",
                      *{f"op={k}" for k in kinds}, *{f"out={o}" for o in outs}))
        for stack, o in runs:
            v = oracle(c, o)
            if stack == "sync" and any(fl.get("hazard") for _, fl in v):
                hazard_oracle += 1
            for what, fl in v:
                ck.violation(dict(c, stack=stack, flags=fl, observed={"recs": o["recs"], "log": o["log"]}), f"{stack}: {what}", matcher)
            if mout is not None:
                mrecs, mlog, mulog = decode_reply(mout[areq[i] if stack == "async" and i in areq else i])
                d = compare(o, mrecs, mlog) or model_ulog_check(c, mrecs, mulog, o) or base.graph_check(c, o)
                if base.outside_model(c):
                    ck.extra["advisory_outside_model_cases"] = ck.extra.get("advisory_outside_model_cases", 0) + 1
                    ck.extra["advisory_outside_model_disagreements"] = ck.extra.get("advisory_outside_model_disagreements", 0) + bool(d)
                    continue
                if d:
                    ck.disagree(f"Priv model vs real {stack} driver", dict(c, stack=stack), d)
                else:
                    ck.traces_validated += 1
                if stack == "sync" and any(r["hazard"] for r in mrecs):
                    hazard_model += 1
    ck.extra["histories_with_hazard_flag_in_model"] = hazard_model
    ck.extra["histories_with_violation_attributed_to_F11"] = hazard_oracle
    ck.extra["async_cases"] = len(aidx)
    if tier == "thorough":
        hashseed_runs(ck, [1, 2, 3, 12345])
    ck.exhaustive = True
    ck.extra["exhaustive_scope"] = "all histories over the reduced alphabet to length 3/4 and over the full alphabet to length 2/3 (quick/thorough), per platform"
    return ck.finish()


def replay(path):
    r = json.load(open(path))
    c = (r.get("violation") or {}).get("case") or (r.get("no_longer_checks") or [{}])[0].get("case")
    if not c:
        print("nothing to replay")
        return 2
    c = {k: v for k, v in c.items() if k not in ("flags", "observed", "stack", "PYTHONHASHSEED")}
    o = run_sync(c)
    v = oracle(c, o)
    print(json.dumps({"case": c, "recs": o["recs"], "log": o["log"]}, indent=1))
    for what, fl in v:
        print("ORACLE:", what, fl)
    return 1 if v else 0
