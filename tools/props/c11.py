"""C11 — close() and context-manager exit always release the connection.
Lean: ScrapliModel/Lifecycle*.lean, ScrapliProps/C11*.lean.  Real code: the real drivers of all five core
platforms (+ GenericDriver), sync and asyncio, driven through histories of open / operate / close / re-open /
with-blocks with faults at every read/write index, over Sim transports and the real Telnet transports on fake
sockets (quick + thorough) and over real pty / TCP / ssh rigs (thorough, harness/c11real.py)."""
import asyncio, itertools, json, os, sys, time
from vlib.common import Check, VERIF, run_model
import translate

PID = "C11"
PLATFORMS = ["cisco_iosxe", "cisco_iosxr", "cisco_nxos", "arista_eos", "juniper_junos"]
PLAT = {"cisco_iosxe": "iosxe", "cisco_iosxr": "iosxr", "cisco_nxos": "nxos", "arista_eos": "eos", "juniper_junos": "junos"}
BODIES = ["", "x", "r", "c", "xr", "cox"]
# how else the BODY of a with-block may end: user code raising one specific class (letters of harness/c11rig.BODY_RAISES);
# 'Z' = the task is cancelled while the body awaits (asyncio stack only)
BODY_ENDINGS = ["T", "E", "N", "A", "P", "V", "K"]
TELNET_LIMIT = 10     # the oracle's own constant (the option counter limit of the sync transport)

F_CLOSE = "C11-close-skips-release"
F_TELNET = "C11-telnet-state-survives-close"
F_BIO = "C11-user-bytesio-closed"
F_PMK = "C11-paramiko-failed-open-leak"
F_RECLOSE = "C11-reclose-raises"
F_TCLOSE = "C11-tclose-raises-skips-channel-close"


# ------------------------------------------------------------------ histories
def op_str(spec):
    s = spec["op"] + ("." + spec["body"] if spec["op"] == "W" and spec.get("body") else "")
    f = spec.get("fault")
    return s + (f"!{f[0] if len(f) == 2 else f[0][0]}{f[1]}{f[2][0] if len(f) > 2 else ''}" if f else "")


def body_leaves_open(body, need):
    """ghost 'open() called and not closed since' after running the body letters (None = ill-formed body)"""
    for b in body:
        if b == "c":
            need = False
        elif b == "o":
            if need:
                return None
            need = True
    return need


def well_formed(ops):
    """open() / with only on a connection that is not already opened-and-unclosed"""
    need = False
    for spec in ops:
        if spec["op"] == "O":
            if need:
                return False
            need = True
        elif spec["op"] == "C":
            need = False
        elif spec["op"] == "W":
            if need or body_leaves_open(spec.get("body", ""), True) is None:
                return False
            need = False
    return True


ALPHABET = [{"op": "O"}, {"op": "C"}, {"op": "X"}] + [{"op": "W", "body": b} for b in BODIES]


def all_histories(n):
    for k in range(1, n + 1):
        for h in itertools.product(ALPHABET, repeat=k):
            h = [dict(x) for x in h]
            if well_formed(h):
                yield h


def configs(tier):
    """the configuration pool histories are rotated over"""
    out = []
    hooks = [("default", "default"), ("ok", "ok"), ("raise", "default"), ("default", "raise"), ("none", "none"), ("ok", "raise"),
             ("raise", "raise"), ("none", "default")]
    sinks = ["none", "path", "true", "bytesio"]
    i = 0
    for stack in ("sync", "async"):
        for plat in PLATFORMS + ["generic"]:
            for oo, oc in hooks:
                sink = sinks[i % 4]
                i += 1
                c = dict(stack=stack, platform=plat, kind="sim", sink=sink, on_open=oo, on_close=oc)
                out.append(c)
    # open() failing AFTER the transport is up, with one specific exception class (raised by on_open), and a device that refuses
    # the in-channel login (ScrapliAuthenticationFailed from channel_authenticate_ssh / _telnet)
    for k, exc in enumerate(("ScrapliAuthenticationFailed", "ScrapliTimeout", "ScrapliConnectionError", "ScrapliPrivilegeError", "Exception",
                             "ScrapliConnectionNotOpened", "OSError", "ValueError")):
        for stack in ("sync", "async"):
            out.append(dict(stack=stack, platform=(PLATFORMS + ["generic"])[(k + (stack == "async")) % 6], kind="sim", sink=sinks[(k + 1) % 4],
                            on_open="raise:" + exc, on_close=("default", "none", "ok")[k % 3]))
    out.append(dict(stack="sync", platform="cisco_iosxe", kind="sim", sink="path", on_open="default", on_close="default", tname="system", bypass=False, login="refuse"))
    out.append(dict(stack="sync", platform="generic", kind="sim", sink="true", on_open="default", on_close="default", tname="telnet", bypass=False, login="refuse"))
    out.append(dict(stack="async", platform="arista_eos", kind="sim", sink="path", on_open="default", on_close="default", tname="asynctelnet", bypass=False, login="refuse"))
    # a transport whose close() fails whenever it holds a session (PtyProcess.close(): "Could not terminate the child.")
    for stack, plat, sink, oo, oc in (("sync", "generic", "path", "default", "default"), ("async", "cisco_iosxe", "true", "default", "default"),
                                      ("sync", "juniper_junos", "path", "ok", "raise"), ("async", "generic", "path", "none", "none"),
                                      ("sync", "arista_eos", "bytesio", "default", "default")):
        out.append(dict(stack=stack, platform=plat, kind="sim", sink=sink, on_open=oo, on_close=oc, tclose_raises=True))
    # Settings.NO_TERMINATE_ON_TIMEOUT = True (documented, non-default): a timeout raises ScrapliTimeout and leaves the transport open
    for stack, plat, sink, oo, oc in (("sync", "cisco_iosxe", "path", "default", "default"), ("async", "juniper_junos", "path", "default", "default"),
                                      ("sync", "generic", "true", "default", "default"), ("async", "cisco_nxos", "bytesio", "ok", "none"),
                                      ("sync", "arista_eos", "path", "none", "ok"), ("async", "generic", "path", "default", "raise")):
        out.append(dict(stack=stack, platform=plat, kind="sim", sink=sink, on_open=oo, on_close=oc, no_terminate=True))
    # the two in-channel authentication branches of open()
    for plat in ("cisco_iosxe", "juniper_junos"):
        out.append(dict(stack="sync", platform=plat, kind="sim", sink="path", on_open="default", on_close="default", tname="system", bypass=False))
        out.append(dict(stack="sync", platform=plat, kind="sim", sink="none", on_open="default", on_close="default", tname="telnet", bypass=False))
        # (the asyncio telnet login polls with wait_for(read, timeout_ops / 20): it needs a non-zero timeout_ops to ever read)
        out.append(dict(stack="async", platform=plat, kind="sim", sink="bytesio", on_open="default", on_close="default", tname="asynctelnet", bypass=False,
                        timeout_ops=2))
    return out


def telnet_configs():
    out = []
    for stack in ("sync", "async"):
        for plat, neg, partial, sink, bypass in (("cisco_iosxe", 3, False, "none", True), ("generic", 10, False, "path", True),
                                                 ("arista_eos", 0, True, "bytesio", True), ("juniper_junos", 6, True, "none", False),
                                                 ("cisco_nxos", 12, False, "true", True)):
            out.append(dict(stack=stack, platform=plat, kind="faketelnet", sink=sink, on_open="default", on_close="default", neg=neg,
                            partial=partial, bypass=bypass, **({"timeout_ops": 2} if stack == "async" and not bypass else {})))
        # the real Telnet transports against a device that refuses the login
        out.append(dict(stack=stack, platform="cisco_iosxr", kind="faketelnet", sink="path", on_open="default", on_close="default", neg=3, partial=False,
                        bypass=False, login="refuse", **({"timeout_ops": 2} if stack == "async" else {})))
    return out


def _hist(words):
    return [{"op": w.split(".")[0], **({"body": w.split(".")[1]} if "." in w else {})} for w in words.split()]


def body_ending_configs(tier):
    """transport kinds x stacks the with-body endings are run on (sim under every transport name, the real Telnet transports on
    fake sockets), each with NO_TERMINATE_ON_TIMEOUT off and on"""
    out = []
    sims = [("sync", "cisco_iosxe", "path", "system", True), ("sync", "juniper_junos", "true", "telnet", False), ("sync", "generic", "bytesio", "paramiko", True),
            ("sync", "arista_eos", "path", "system", False), ("async", "cisco_iosxr", "path", "asyncssh", True), ("async", "generic", "true", "asynctelnet", True),
            ("async", "cisco_nxos", "none", "asyncssh", True), ("async", "juniper_junos", "path", "asynctelnet", False)]
    for i, (stack, plat, sink, tname, bypass) in enumerate(sims):
        c = dict(stack=stack, platform=plat, kind="sim", sink=sink, on_open="default", on_close=("default", "none", "ok")[i % 3] if plat != "generic" else "default",
                 tname=tname, bypass=bypass, **({"timeout_ops": 2} if tname == "asynctelnet" and not bypass else {}))
        out.append(c)
    for stack in ("sync", "async"):
        out.append(dict(stack=stack, platform="generic", kind="faketelnet", sink="path", on_open="default", on_close="default", neg=3, partial=False, bypass=True))
        out.append(dict(stack=stack, platform="cisco_iosxe", kind="faketelnet", sink="true", on_open="default", on_close="default", neg=10, partial=False, bypass=True))
    return out


def body_ending_cases(ck, runner, batch, tier):
    """context-manager histories whose BODY ends with every kind of exception x transport kinds x sync/asyncio:
    (a) user code raising ScrapliTimeout / ScrapliConnectionError / ScrapliConnectionNotOpened / ScrapliAuthenticationFailed /
        ScrapliPrivilegeError / ValueError / a non-Exception BaseException, and (asyncio) a real task cancellation;
    (b) an operation in the body timing out at EVERY read index: the closing handler (default), the handler with
        Settings.NO_TERMINATE_ON_TIMEOUT (transport left open), ScrapliTimeout raised by the transport read itself
        (TelnetTransport._read on socket.timeout; nothing closed), and the device dropping"""
    from harness import c11rig
    cfgs = body_ending_configs(tier)
    n = 0
    for ci, cfg in enumerate(cfgs):
        ends = BODY_ENDINGS + (["Z"] if cfg["stack"] == "async" else [])
        for nt in (False, True):
            for ei, e in enumerate(ends):
                shapes = [f"W.{e}", f"W.x{e} W.x", f"W.c{e}", f"O C W.{e} O X C"]
                if tier == "quick":
                    shapes = [shapes[0], shapes[1 + (ei + ci + nt) % 3]]
                for sh in shapes:
                    c = dict(cfg, **({"no_terminate": True} if nt else {})); c["ops"] = _hist(sh)
                    n += run_cases(ck, runner, [c], batch, tags=("body-ending",))
        for sh in (("W.x", "W.xx W.x", "O X C W.x") if tier != "quick" else ("W.x", "O X C W.x" if ci % 2 else "W.xx W.x")):
            h = _hist(sh)
            c = dict(cfg); c["ops"] = [dict(s) for s in h]
            try:
                dry = runner.run(c)
            except c11rig.RigTrouble:
                continue
            for oi, (spec, res) in enumerate(zip(h, dry)):
                if spec["op"] == "C":
                    continue
                ks = list(range(1, res["reads"] + 1))
                if spec["op"] == "W" and len(ks) > 4 and tier == "quick" and oi:
                    ks = ks[-4:]
                for k in ks:
                    for nt, action in ((False, "rtimeout"), (True, "silent"), (True, "rtimeout")):
                        if tier == "quick" and nt and action == "rtimeout" and k % 2:
                            continue
                        c2 = dict(cfg, **({"no_terminate": True} if nt else {})); c2["ops"] = [dict(s) for s in h]
                        c2["ops"][oi]["fault"] = ["read", k, action]
                        n += run_cases(ck, runner, [c2], batch, tags=("body-timeout",))
    ck.extra["body_ending_cases"] = n


TIE_FALLBACK = "translator: shape unreadable, tie = exhaustive behavioural equivalence with the model programs"


def behavioural_tie_cases(ck, runner, batch):
    """the OTHER tie, used when open/close/__enter__/__exit__ cannot be read into the statement language: the real four methods
    (sync and asyncio) under EVERY configuration of the event alphabet -- each hook absent / returning / raising / talking to the
    device, transport.open() refused or not, transport.close() raising or not, each in-channel authentication branch, each
    device-facing step (every read and write index) hit by each fault kind (gone | silent => closing timeout | silent => timeout that
    closes nothing | read's own ScrapliTimeout), each way a with-body ends -- statements reached, outcomes and flags must equal the
    model programs' (compared by correspond(); every run also goes through the oracle)"""
    from harness import c11rig
    n = 0
    hooks = ("none", "ok", "raise", "default")
    for stack in ("sync", "async"):
        bodies = ["", "x", "r", "c", "cox", "T", "V", "K"] + (["Z"] if stack == "async" else [])
        shapes = ["O C", "O C C", "C"] + [f"W.{b}" if b else "W" for b in bodies]
        for oo in hooks:
            for oc in hooks:
                for tcr in (False, True):
                    for sh in shapes:
                        for refuse in (False, True):
                            c = dict(stack=stack, platform="cisco_iosxe", kind="sim", sink="path", on_open=oo, on_close=oc,
                                     **({"tclose_raises": True} if tcr else {}))
                            c["ops"] = _hist(sh)
                            if refuse:
                                if c["ops"][0]["op"] == "C":
                                    continue
                                c["ops"][0]["fault"] = ["open", 0, "refuse"]
                            n += run_cases(ck, runner, [c], batch, tags=("behavioural-tie",))
        tn = [("system", False, {}), ("telnet", False, {}), (None, True, {})] if stack == "sync" else \
             [("asynctelnet", False, {"timeout_ops": 2}), (None, True, {})]
        for tname, bypass, extra in tn:
            for tcr in (False, True):
                for sh in ("O C", "W.x", "W.xT", "O X C"):
                    h = _hist(sh)
                    c = dict(stack=stack, platform="juniper_junos", kind="sim", sink="path", on_open="default", on_close="default", bypass=bypass,
                             **({"tname": tname} if tname else {}), **({"tclose_raises": True} if tcr else {}), **extra)
                    c["ops"] = [dict(x) for x in h]
                    try:
                        dry = runner.run(c)
                    except c11rig.RigTrouble:
                        continue
                    for oi, (spec, res) in enumerate(zip(h, dry)):
                        pts = fault_points(spec, res, "thorough")
                        pts += [["read", k, "rtimeout"] for k in range(1, res["reads"] + 1)]
                        for fp in pts:
                            for nt in ((False, True) if fp[2] == "silent" and fp[0] == "read" else (False,)):
                                c2 = dict(c, **({"no_terminate": True} if nt else {})); c2["ops"] = [dict(x) for x in h]
                                c2["ops"][oi]["fault"] = fp
                                n += run_cases(ck, runner, [c2], batch, tags=("behavioural-tie",))
    ck.extra["behavioural_tie_cases"] = n


# ------------------------------------------------------------------ model I/O
def hook_word(case, which):
    h = case.get(which, "default")
    if h == "default":
        return "d:" + PLAT.get(case["platform"], "generic")
    return "raise" if h.startswith("raise:") else h


def model_kind(case):
    tcr = "+tcr" if case.get("tclose_raises") else ""
    if case.get("kind", "sim") == "sim":
        return "sim" + tcr
    return ("telnet" if case["stack"] == "sync" else "asynctelnet") + tcr


def model_tname(case):
    if case.get("kind", "sim") != "sim":
        return "telnet" if case["stack"] == "sync" else "asynctelnet"
    return case.get("tname") or ("system" if case["stack"] == "sync" else "asyncssh")


def ev_str(e):
    k, tn = e
    return k if tn is None else f"{k}:{tn[0]}:{tn[1]}:{tn[2]}:{tn[3]}:{tn[4]}"


def model_line(case, results, src="src"):
    from harness import c11rig
    hist = []
    for spec, res in zip(case["ops"], results):
        evs = c11rig.derive_events(res["seg"], case.get("kind", "sim"))
        head = spec["op"] + ("." + spec["body"] if spec["op"] == "W" and spec.get("body") else "")
        hist.append(head + "/" + (",".join(ev_str(e) for e in evs) if evs else "-"))
    sink = {"true": "path"}.get(case.get("sink", "none"), case.get("sink", "none"))
    return (f"run {case['stack']} {model_kind(case)} {model_tname(case)} {1 if case.get('bypass', True) else 0} {sink} "
            f"{hook_word(case, 'on_open')} {hook_word(case, 'on_close')} {src} {';'.join(hist)}")


def parse_model(line):
    out = []
    for part in line.split(";"):
        o, fl, tn, tr, left = part.split("|")
        out.append(dict(out="ret" if o == "ret" else o.split(":", 1)[1],
                        flags=dict(zip(("sess", "chan", "os", "alive", "file", "att", "bio", "need", "orphan"), (c == "1" for c in fl))),
                        tn=tuple(int(x) for x in tn.split(",")), trace=[t for t in tr.split(">") if t], left=int(left)))
    return out


EXACT = ("ret", "HookError", "BodyError", "ValueError")


def canon_out(out, marks):
    """the outcome as far as C11 speaks about it: returns | the hook's / the body's / the log sink's own exception | the
    ScrapliConnectionError `__enter__` re-raises when open() fails | otherwise just 'a scrapli error' -- WHICH scrapli class a
    transport or channel raises for a lost / refused / timed-out session is C07/C08 matter and keeps being repaired there"""
    if out in EXACT or (marks and marks[-1] == "enter-raised"):
        return out
    return "ScrapliError" if out.startswith("Scrapli") else "other:" + out


def compare(case, results, model):
    """correspondence on the property-relevant observables; returns None or a description of the first difference"""
    kind = case.get("kind", "sim")
    for i, (res, m) in enumerate(zip(results, model)):
        out = res["out"]
        if res.get("injected_hook_exc") and out == res["injected_hook_exc"] and not (res["marks"] and res["marks"][-1] == "enter-raised"):
            out = "HookError"       # whichever class the user hook was told to raise is, to the model, "what the hook raises"
        if canon_out(out, res["marks"]) != canon_out(m["out"], m["trace"]):
            return f"op {i} outcome impl={res['out']} model={m['out']}"
        if res["marks"] != m["trace"]:
            return f"op {i} statements reached impl={'>'.join(res['marks'])} model={'>'.join(m['trace'])}"
        keys = ("sess", "alive", "file", "att", "bio") if kind == "sim" else ("sess", "chan", "os", "file", "att", "bio")
        for k in keys:
            want = m["flags"][k] or (k == "os" and m["flags"]["orphan"])     # an orphaned session is still an OS level session
            if bool(res["flags"][k]) != want:
                return f"op {i} flag {k} impl={res['flags'][k]} model={want}"
        if kind != "sim" and tuple(int(x) for x in res["flags"]["tn"]) != m["tn"]:
            return f"op {i} telnet fields impl={res['flags']['tn']} model={m['tn']}"
        if m["left"]:
            return f"op {i}: model left {m['left']} environment events unconsumed"
    return None


# ------------------------------------------------------------------ oracle (independent of the model)
def released(fl):
    """no transport handle, not alive, no OS resource, no log file handle, no fd, no thread"""
    bad = []
    if fl["isalive"]:
        bad.append("transport.isalive() is True")
    if fl["sess"] or fl["chan"]:
        bad.append("transport still holds its session handle")
    if fl["os"]:
        bad.append("OS level session (child/pty/socket/thread) still exists")
    if fl["file"]:
        bad.append("channel log file handle still open")
    if fl["fd_delta"] != 0:
        bad.append(f"{fl['fd_delta']} file descriptor(s) more than before the connection existed")
    if fl["thr_delta"] != 0:
        bad.append(f"{fl['thr_delta']} thread(s) more than before")
    return bad


def segments(ops):
    """split a history after every close / with-block: [(start index, [specs])]"""
    out, cur, start = [], [], 0
    for i, spec in enumerate(ops):
        cur.append(spec)
        if spec["op"] in ("C", "W"):
            out.append((start, cur))
            cur, start = [], i + 1
    if cur:
        out.append((start, cur))
    return out


def tn_dirty(tn):
    return tn is not None and tuple(int(x) for x in tn) != (0, 0, 0, 0, 0)


def oracle(case, results, fresh_outcomes):
    """yields (kind, op index, text, info) for every way the real run contradicts the property.
    fresh_outcomes(segment specs) -> outcomes of the same fault-free operations on a brand-new connection"""
    ops = case["ops"]
    closed = True          # the connection is closed: never opened, or a close()/with-block was the last thing that happened
    for i, (spec, res) in enumerate(zip(ops, results)):
        fl = res["flags"]
        if closed and i and released(results[i - 1]["flags"]):
            closed = False     # the previous close()/with-exit did not release (reported there): not a closed connection
        if spec["op"] in ("C", "W") and res.get("tclose_raised"):
            # transport.close() itself failed (injected): its session is beyond scrapli's reach, but the channel log is not
            if fl["file"]:
                yield ("leak-log", i, f"after {op_str(spec)} ({res['out']}): transport.close() raised and the channel log file handle is still open", {})
        elif spec["op"] in ("C", "W"):
            bad = released(fl)
            if bad:
                yield ("leak", i, f"after {op_str(spec)} ({res['out']}): " + "; ".join(bad), {})
        if spec["op"] == "C" and closed and not spec.get("fault") and res["out"] not in ("ret", "HookError"):
            yield ("reclose", i, f"close() on an already closed connection raised {res['out']}", {})
        if spec["op"] == "W" and not spec.get("fault") and res["out"] != "ret":
            body = spec.get("body", "")
            if body and "r" not in body and body_leaves_open(body, True) is False and body.rstrip("x").endswith("c") \
                    and res["out"] == "ScrapliConnectionNotOpened":
                yield ("reclose", i, f"with-block whose body closed the connection: __exit__ (second close) raised {res['out']}", {})
        if spec["op"] == "W" and res.get("body_exc"):
            # the exception the body ended with leaves the with statement unchanged, unless the on_close hook / transport.close()
            # raised on the way out (then that one, with the body's as its context)
            if res.get("left_with") == "swallowed":
                yield ("swallow", i, f"with-block whose body raised {res['body_exc']} returned normally: __exit__ swallowed the exception", {})
            elif res.get("left_with") == "replaced" and not res["on_close_raised"] and not res.get("tclose_raised"):
                yield ("replaced", i, f"with-block whose body raised {res['body_exc']} raised {res['out']} instead although neither the on_close "
                                      "hook nor transport.close() raised", {})
        closed = spec["op"] in ("C", "W")
    # a closed connection can be opened again: fault-free segments after the first behave as on a new connection
    segs = segments(ops)
    for si, (start, specs) in enumerate(segs):
        if si == 0 or any(s.get("fault") for s in specs) or case.get("tclose_raises"):
            continue
        got = [results[start + j]["out"] for j in range(len(specs))]
        want = fresh_outcomes(specs)
        if want is not None and got != want:
            j = next(k for k in range(len(specs)) if got[k] != want[k])
            prev = results[start - 1]["flags"]
            yield ("reopen", start + j, f"{op_str(specs[j])} after a close gives {got[j]}, on a new connection {want[j]}",
                   {"prev_bio": prev["bio"], "prev_tn": prev.get("tn"), "prev_leak": bool(released(prev))})


def make_matcher(kind, i, info, results, case):
    """attribute a violation to a known finding ONLY under that finding's narrow predicate"""
    def matcher(_case):
        res = results[i]
        if kind == "leak":
            # F6: the on_close hook raised during this very operation
            if res["on_close_raised"] and case.get("kind", "sim") != "paramiko":
                return F_CLOSE
            if case.get("kind") == "paramiko" and res.get("auth_failed_in_open"):
                return F_PMK
            return None
        if kind == "leak-log":
            # transport.close() raised during this very operation and only the log file handle is complained about
            return F_TCLOSE if res.get("tclose_raised") else None
        if kind == "reclose":
            # the on_close hook talks to the device, the exception is the transport's "not opened", nothing is held
            if hook_talks(case) and res["out"] == "ScrapliConnectionNotOpened" and not released(res["flags"]):
                return F_RECLOSE
            return None
        if kind == "reopen":
            if case.get("sink") == "bytesio" and info.get("prev_bio"):
                return F_BIO
            if case.get("kind") in ("faketelnet", "telnet", "asynctelnet") and tn_dirty(info.get("prev_tn")):
                return F_TELNET
            if info.get("prev_leak") and results[i - 1 if i else 0]["on_close_raised"]:
                return F_CLOSE
            return None
        return None
    return matcher


def hook_talks(case):
    return case.get("on_close", "default") == "default" and case["platform"] in PLAT


# ------------------------------------------------------------------ running
class Runner:
    def __init__(self):
        self.loop = asyncio.new_event_loop()
        self.fresh_cache = {}
        self.runs = 0

    def close(self):
        self.loop.close()

    def run(self, case):
        from harness import c11rig
        self.runs += 1
        if case["stack"] == "sync":
            return c11rig.run_case_sync(case)
        return self.loop.run_until_complete(c11rig.run_case_async(case))

    def fresh(self, case):
        def f(specs):
            key = (json.dumps({k: v for k, v in case.items() if k != "ops"}, sort_keys=True), json.dumps(specs, sort_keys=True))
            if key not in self.fresh_cache:
                c = dict(case)
                c["ops"] = [dict(s) for s in specs]
                try:
                    self.fresh_cache[key] = [r["out"] for r in self.run(c)]
                except Exception:
                    self.fresh_cache[key] = None
            return self.fresh_cache[key]
        return f


def fault_points(spec, res, tier):
    """every read / write index of the operation x {device gone, device silent}, + refusal of transport.open()"""
    pts = []
    for k in range(1, res["reads"] + 1):
        pts.append(["read", k, "eof"])
        pts.append(["read", k, "silent"])
    for k in range(1, res["writes"] + 1):
        pts.append(["write", k, "eof"])
        pts.append(["write", k, "silent"])
    if spec["op"] in ("O", "W"):
        pts.append(["open", 0, "refuse"])
    return pts


def case_key(case):
    return json.dumps(case, sort_keys=True)


def load_findings(ck):
    f = VERIF / "findings" / "C11.json"
    mine = json.load(open(f)) if f.exists() else []
    # findings/C11.json is the source of the C11 entries (the lead merges it into known_findings.json): same id => this file wins
    ids = {x["id"] for x in mine}
    ck.findings = [x for x in ck.findings if x["id"] not in ids] + mine
    return mine


def evaluate(ck, runner, case, results, batch, tags=()):
    """oracle on one real run + queue it for the model"""
    from harness import c11rig
    nontrivial = any(s.get("fault") for s in case["ops"]) or len(case["ops"]) > 1
    ck.case(case_key(case), nontrivial=nontrivial,
            sample={k: v for k, v in case.items() if k != "ops"} | {"ops": [op_str(s) for s in case["ops"]]},
            tags=(f"stack={case['stack']}", f"kind={case.get('kind', 'sim')}", f"platform={case['platform']}", f"sink={case.get('sink', 'none')}",
                  f"on_open={case.get('on_open', 'default')}", f"on_close={case.get('on_close', 'default')}", f"len={len(case['ops'])}",
                  *(("tclose-raises",) if case.get("tclose_raises") else ()),
                  *(("no-terminate-on-timeout",) if case.get("no_terminate") else ()),
                  *("body-ends-with=" + r["body_exc"] for r in results if r.get("body_exc")),
                  "fault=" + ",".join(sorted({(s['fault'][0] + ":" + s['fault'][2]) for s in case['ops'] if s.get('fault')}) or ["none"]),
                  *("out=" + r["out"] for r in results), *tags))
    viol = []
    for kind, i, text, info in oracle(case, results, runner.fresh(case)):
        m = make_matcher(kind, i, info, results, case)
        vcase = dict(case=case, violation_kind=kind, op_index=i, outcomes=[r["out"] for r in results],
                     flags=[{k: v for k, v in r["flags"].items()} for r in results])
        new = ck.violation(vcase, text, m)
        viol.append((kind, i, text, m(vcase), new))
    batch.append((case, results))
    return viol


def run_cases(ck, runner, cases, batch, tags=()):
    from harness import c11rig
    n = 0
    for case in cases:
        try:
            results = runner.run(case)
        except c11rig.RigTrouble as e:
            ck.extra["rig_trouble"] = ck.extra.get("rig_trouble", 0) + 1
            ck.extra.setdefault("rig_trouble_samples", []).append(f"{e} :: {[op_str(s) for s in case['ops']]}"[:300])
            continue
        evaluate(ck, runner, case, results, batch, tags)
        n += 1
    return n


def correspond(ck, batch, src="src"):
    """all queued real runs through the Lean model in ONE driver call"""
    if not batch:
        return
    lines = ["info"] + [model_line(case, results, src) for case, results in batch]
    try:
        out = run_model("C11", lines)
    except Exception as e:
        ck.proof_broken("model driver Drv/C11.lean", repr(e))
        return None
    info = dict(kv.split("=") for kv in out[0].split())
    for (case, results), line in zip(batch, out[1:]):
        if line == "bad-op":
            ck.disagree("Lifecycle model request", {"case": case}, "model driver rejected the request")
            continue
        d = compare(case, results, parse_model(line))
        if d is None:
            ck.traces_validated += 1
        else:
            ck.disagree("Lifecycle model vs real drivers", {"case": case, "outcomes": [r["out"] for r in results]}, d)
    return info


def _watchdog(limit_s):
    """a wedged rig must never look like a verdict: exit 2 after limit_s"""
    import threading

    def w():
        time.sleep(limit_s)
        sys.stderr.write(f"HARNESS-ERROR C11: no result after {limit_s} s (rig wedged?)\n")
        sys.stderr.flush()
        os._exit(2)
    threading.Thread(target=w, daemon=True, name="c11-watchdog").start()


def run(tier, seed):
    from harness import c11rig
    ck = Check(PID, tier, seed, level="proof")
    ck.rule = ("case = configuration (stack sync|asyncio x platform {5 core, generic} x channel_log sink {none, path, True, BytesIO} x "
               "on_open/on_close {platform default, user ok, user raises, None} x in-channel auth on/off) + well-formed history over "
               "{open, close, operate, with[body in '', x, r, c, xr, cox]} + at most one fault per operation (k-th read | k-th write of that "
               "operation: device gone | device silent => timeout closes the transport, or with Settings.NO_TERMINATE_ON_TIMEOUT leaves it open | "
               "device silent => the transport read itself raises ScrapliTimeout, nothing closed; transport.open refused) + with-bodies ending with "
               "user code raising ScrapliTimeout / ScrapliConnectionError / ScrapliConnectionNotOpened / ScrapliAuthenticationFailed / "
               "ScrapliPrivilegeError / ValueError / a non-Exception BaseException / a real asyncio task cancellation, on every transport name "
               "and on the real Telnet transports. Exhaustive: every "
               "well-formed history up to length N fault-free, and EVERY read/write index x both fault kinds for every history up to "
               "length N-1 (configurations rotated); the real Telnet transports on fake sockets (negotiation counts 0..12, partial option "
               "command at EOF); PRNG histories up to length 7 with several faults. Non-trivial = more than one operation or a fault. "
               "Each case runs the REAL driver; oracle: after close()/with-exit nothing is held (flags, /proc/self/fd, threads), the exception the body "
               "ended with leaves the with statement unchanged, a second close does not raise, a fault-free segment after a close behaves as on a brand-new connection; the Lean model gets the "
               "same environment events and must reach the same statements, outcome and flags.")
    ck.trusted = ["Lean 4.33.0 kernel; axioms of every theorem audited ⊆ {propext, Classical.choice, Quot.sound}",
                  "tools/gen/c11.py (AST -> statement programs of open/close/__enter__/__exit__, hook call sequences, three facts)",
                  "harness/c11rig.py + props/c11.py (instance-attribute instrumentation, fault injection, event derivation, oracle)",
                  "harness/simdevice.py, simtransport.py (causal device, Sim transports)"]
    ck.assumptions = ["partial: fds / child pids / threads / sockets are OBSERVED on the implementation; the model carries one flag per resource",
                      "transport.close() itself does not raise (PtyProcess.close() manages to terminate the child); channel.open() does not fail",
                      "CPython reference counting frees a dropped socket / PtyProcess at once (sockets of a refused connect, replaced sessions)",
                      "open()/with only on a connection that is closed (fresh or after close()/with-exit): open() twice without close() is outside the property",
                      "a stall is turned into what scrapli.decorators._handle_timeout does (real function called) when the operation's timer fires; "
                      "the real timer mechanisms run in the thorough tier only; Settings.NO_TERMINATE_ON_TIMEOUT off AND on (dedicated configurations)"]
    mine = load_findings(ck)
    # 1 translate
    unreadable = None
    try:
        translate.translate(PID)
        unreadable = getattr(translate.module_for(PID), "FALLBACK", None)
    except Exception as e:
        ck.proof_broken("translator gen/c11.py", repr(e))
    if unreadable:
        # the four methods are outside the statement language: no alarm by itself -- the generated file carries the model's programs
        # (the `source_is_model` obligation is about the AST route and says nothing here) and the tie is behavioural_tie_cases()
        ck.extra["tie"] = TIE_FALLBACK
        ck.extra["translator_unreadable"] = unreadable
        print(f"C11: {TIE_FALLBACK} ({unreadable})", file=sys.stderr)
    # 2 prove
    ck.prove("ScrapliProps.C11", lemma_files=["ScrapliProps/C11Lemmas.lean", "ScrapliModel/Lifecycle.lean", "ScrapliModel/LifecycleSyntax.lean"])
    if tier == "thorough":
        ck.leanchecker("ScrapliProps.C11")
    _watchdog(900 if tier == "quick" else 3000)      # (started after the Lean build: waiting for the shared build lock is not a wedged rig)
    runner = Runner()
    batch = []
    t0 = time.time()
    try:
        # 3a known-finding witnesses + corpus first
        live = replay_witnesses(ck, runner, mine)
        corpus = json.load(open(VERIF / "corpus" / "C11" / "corpus.json"))
        run_cases(ck, runner, [c["case"] for c in corpus], batch, tags=("corpus",))
        ck.extra.setdefault("phase_s", {})["witness+corpus"] = round(time.time() - t0, 1); tp = time.time()
        # 3b exhaustive fault-free histories, configurations rotated
        cfgs = configs(tier)
        nmax = 3 if tier == "quick" else 4
        per_hist = 2 if tier == "quick" else 3
        ci = seed
        for h in all_histories(nmax):
            for _ in range(per_hist if len(h) < 4 else 1):
                c = dict(cfgs[ci % len(cfgs)]); ci += 7
                c["ops"] = [dict(s) for s in h]
                run_cases(ck, runner, [c], batch, tags=("exhaustive-history",))
        ck.extra["phase_s"]["exhaustive-histories"] = round(time.time() - tp, 1); tp = time.time()
        # 3c every fault point of every history up to nmax-1 (+ a fixed set of longer shapes)
        shapes = [h for h in all_histories(nmax - 1)]
        for extra in ("O X C", "O C O", "W.x O C", "O X X", "W.cox C O", "O C W.x", "W.r W.x C"):
            h = [{"op": w.split(".")[0], **({"body": w.split(".")[1]} if "." in w else {})} for w in extra.split()]
            if h not in shapes:
                shapes.append(h)
        budget = 45 if tier == "quick" else 200
        tfa = time.time()
        nfault = 0
        for hi, h in enumerate(shapes):
            c = dict(cfgs[(ci + hi * 5) % len(cfgs)])
            c["ops"] = [dict(s) for s in h]
            try:
                dry = runner.run(c)
            except c11rig.RigTrouble:
                continue
            for oi, (spec, res) in enumerate(zip(c["ops"], dry)):
                for fp in fault_points(spec, res, tier):
                    c2 = dict(c)
                    c2["ops"] = [dict(s) for s in h]
                    c2["ops"][oi]["fault"] = fp
                    nfault += run_cases(ck, runner, [c2], batch, tags=("fault-point",))
            if time.time() - tfa > budget:
                ck.extra["fault_enumeration_truncated_at_shape"] = hi
                break
        ck.extra["fault_point_cases"] = nfault
        ck.extra["phase_s"]["fault-points"] = round(time.time() - tp, 1); tp = time.time()
        if unreadable:
            behavioural_tie_cases(ck, runner, batch)
            ck.extra["phase_s"]["behavioural-tie"] = round(time.time() - tp, 1); tp = time.time()
        # 3c' every way the body of a with-block may end x transport kinds x stacks
        body_ending_cases(ck, runner, batch, tier)
        ck.extra["phase_s"]["body-endings"] = round(time.time() - tp, 1); tp = time.time()
        # 3d the real Telnet transports over fake sockets
        tshapes = ["O C O X C", "O X C O X", "W.x W.x", "W.x W.x W.x", "O C O C O X", "W.r O X C", "O X C"]
        for tc in telnet_configs():
            for sh in tshapes:
                h = [{"op": w.split(".")[0], **({"body": w.split(".")[1]} if "." in w else {})} for w in sh.split()]
                c = dict(tc); c["ops"] = [dict(s) for s in h]
                try:
                    dry = runner.run(c)
                except c11rig.RigTrouble:
                    continue
                evaluate(ck, runner, c, dry, batch, tags=("telnet-fake",))
                if tc.get("login") == "refuse" and tier == "quick":
                    continue      # (every refused asyncio login costs real 0.1 s sleeps: fault points of these only in the thorough tier)
                for oi, (spec, res) in enumerate(zip(c["ops"], dry)):
                    pts = fault_points(spec, res, tier)
                    if tier == "quick":
                        pts = [p for p in pts if p[0] != "write"][:: max(1, len(pts) // 6)]
                    for fp in pts:
                        c2 = dict(tc); c2["ops"] = [dict(s) for s in h]
                        c2["ops"][oi]["fault"] = fp
                        run_cases(ck, runner, [c2], batch, tags=("telnet-fake",))
        ck.extra["phase_s"]["telnet-fake"] = round(time.time() - tp, 1); tp = time.time()
        # 3e PRNG histories with several faults
        nrand = 250 if tier == "quick" else 2500
        allc = cfgs + telnet_configs()
        for _ in range(nrand):
            c = dict(ck.rng.choice(allc))
            n = ck.rng.randint(2, 7)
            h = []
            while len(h) < n:
                s = dict(ck.rng.choice(ALPHABET))
                if well_formed(h + [s]):
                    if ck.rng.random() < 0.35:
                        s["fault"] = [ck.rng.choice(["read", "read", "write"]), ck.rng.randint(1, 12), ck.rng.choice(["eof", "silent"])]
                        if s["fault"][0] == "read" and ck.rng.random() < 0.2:
                            s["fault"][2] = "rtimeout"
                    if s["op"] == "W" and ck.rng.random() < 0.2:
                        s["body"] = s.get("body", "") + ck.rng.choice(BODY_ENDINGS + (["Z"] if c["stack"] == "async" else []))
                    elif s["op"] in ("O", "W") and ck.rng.random() < 0.08:
                        s["fault"] = ["open", 0, "refuse"]
                    h.append(s)
            c["ops"] = h
            run_cases(ck, runner, [c], batch, tags=("random",))
        ck.extra["phase_s"]["random"] = round(time.time() - tp, 1); tp = time.time()
        # 3f thorough: the real timeout mechanisms, real transports
        if tier == "thorough":
            real_timer_cases(ck, runner, batch)
            ck.extra["phase_s"]["real-timers"] = round(time.time() - tp, 1); tp = time.time()
        # real transports: quick = the pty rig whose ssh child exits / hangs up mid-operation; thorough = all five transports
        try:
            from harness import c11real
            c11real.run_all(ck, sys.modules[__name__], tier)
        except c11rig.RigTrouble as e:
            print(f"HARNESS-ERROR C11 real rigs: {e}", file=sys.stderr)
            runner.close()
            return 2
    finally:
        pass
    # 4 the Lean model on every run
    info = correspond(ck, batch)
    runner.close()
    ck.extra["real_runs"] = runner.runs
    ck.extra["python_phase_s"] = round(time.time() - t0, 1)
    if unreadable and info:
        info = dict(info, tie="behavioural-equivalence")
    if info:
        ck.extra["source_variant"] = info
        check_variant_vs_findings(ck, info, live)
    if ck.extra.get("rig_trouble", 0) > max(5, ck.evaluations // 50):
        print(f"HARNESS-ERROR C11: rig trouble in {ck.extra['rig_trouble']} cases: {ck.extra.get('rig_trouble_samples', [])[:3]}", file=sys.stderr)
        return 2
    ck.exhaustive = True
    ck.extra["exhaustive_scope"] = (f"all well-formed histories of length <= {nmax} over a 9-operation alphabet (fault-free) and all read/write fault "
                                    f"points of all histories of length <= {nmax - 1}")
    return ck.finish()


def real_timer_cases(ck, runner, batch):
    """stalls handled by the real timeout decorator (small real timeouts; thorough tier only)"""
    shapes = ["W.x", "O X C", "W.x O X C", "O C"]
    i = 0
    for stack in ("sync", "async"):
        for plat in ("cisco_iosxe", "juniper_junos", "generic"):
            for sh in shapes:
                h = [{"op": w.split(".")[0], **({"body": w.split(".")[1]} if "." in w else {})} for w in sh.split()]
                c = dict(stack=stack, platform=plat, kind="sim", sink=["path", "bytesio", "none"][i % 3], on_open="default", on_close="default",
                         stallmode="real", timeout_ops=0.25)
                i += 1
                c["ops"] = [dict(s) for s in h]
                try:
                    dry = runner.run(c)
                except Exception:
                    continue
                for oi, (spec, res) in enumerate(zip(c["ops"], dry)):
                    ks = sorted({1, max(1, res["reads"] // 2), res["reads"]}) if res["reads"] else []
                    for k in ks:
                        c2 = dict(c); c2["ops"] = [dict(s) for s in h]
                        c2["ops"][oi]["fault"] = ["read", k, "silent"]
                        run_cases(ck, runner, [c2], batch, tags=("real-timer",))


def replay_witnesses(ck, runner, mine):
    """replay each finding's stored witness on the real code; KNOWN-FINDING line while it still fails"""
    live = {}
    for f in mine:
        w = f.get("witness", {})
        case = w.get("case")
        if not case or w.get("rig"):
            continue     # real-rig witnesses are replayed by the thorough tier
        try:
            results = runner.run(case)
        except Exception as e:
            ck.extra.setdefault("witness_errors", []).append(f"{f['id']}: {e!r}")
            continue
        hits = [v for v in oracle(case, results, runner.fresh(case))
                if make_matcher(v[0], v[1], v[3], results, case)(None) == f["id"]]
        live[f["id"]] = bool(hits)
        if hits and f.get("status") == "open":
            ck.known_finding(f["id"], f["what"])
    return live


def check_variant_vs_findings(ck, info, live):
    """the source variant the translator sees and the liveness of the witnesses must tell the same story"""
    expect = {F_CLOSE: info.get("close") == "orig", F_BIO: info.get("bio") == "0", F_TCLOSE: info.get("close") != "fixed2",
              F_TELNET: info.get("telnet") != "all" or info.get("asynctelnet") != "all"}
    for fid, exp in expect.items():
        if fid in live and live[fid] != exp:
            ck.proof_broken(f"source variant vs witness {fid}",
                            f"translator says variant {info} but the stored witness {'still fails' if live[fid] else 'no longer fails'} on the real code")
    for k in ("open", "enter", "exit"):
        if info.get(k) != "ok":
            ck.proof_broken(f"source program {k}", f"the generated program of {k} is not the one the theorems are about: {info}")
    if info.get("close") not in ("fixed", "fixed2", "orig"):
        ck.proof_broken("source program close", f"the generated close() is none of the programs the theorems are about: {info}")


def replay(path):
    from harness import c11rig
    r = json.load(open(path))
    v = r.get("violation", {}).get("case") or {}
    case = v.get("case") or r.get("case")
    if not case:
        print("no case in replay file")
        return 2
    if case.get("kind") in ("system", "telnet", "asynctelnet", "paramiko", "asyncssh"):
        from harness import c11real
        return c11real.replay(case, sys.modules[__name__])
    runner = Runner()
    results = runner.run(case)
    bad = list(oracle(case, results, runner.fresh(case)))
    for spec, res in zip(case["ops"], results):
        print(op_str(spec), "->", res["out"], {k: res["flags"][k] for k in ("isalive", "sess", "os", "file", "bio", "fd_delta", "thr_delta")}, ">".join(res["marks"]))
    for b in bad:
        print("ORACLE:", b[0], "op", b[1], b[2])
    runner.close()
    return 1 if bad else 0
