"""C12 — secrets never appear in logs, repr or error messages.
Lean: ScrapliModel/Flow.lean (generic flow graph + reach, hand model of the two flag-guarded log sites),
ScrapliModel/Gen/FlowGraph.lean (graph GENERATED from the AST of all of scrapli by gen/c12.py),
ScrapliProps/C12.lean.  Real code: every operation incl. failing ones on the real drivers / channels /
transports with canary secrets (props/c12_scen.py); everything that reaches a sink is scanned (oracle) and
every flow that is observed must be a flow of the static graph (tie)."""
import io, json, logging, os, tempfile, time

from vlib.common import Check, VERIF, run_model
import translate

PID = "C12"
CORPUS = VERIF / "corpus" / "C12" / "corpus.json"


def hx(s):
    return s.encode().hex() if s else "-"


F2 = "C12-F2-hidden-input-typed-at-echoing-prompt"


def matcher(case):
    """C12-F2 only: auth_secondary / hidden interact input that the DEVICE echoed (typed at an ordinary prompt) and that
    is visible in nothing but `read: ` records of Channel.read; everything else stays a new violation"""
    if case.get("role") in ("SEC", "HID") and case.get("echoed_by_device") and case.get("read_record") and case.get("sink") in ("log", "file"):
        return F2
    return None


def _own_findings(ck):
    try:
        have = {f["id"] for f in ck.findings}
        for f in json.load(open(VERIF / "findings" / "C12.json")):
            if f["id"] not in have:
                ck.findings.append(f)
    except OSError:
        pass


# ---------------------------------------------------------------- static side: start sets per role
def role_starts(g):
    """node ids a token of each role starts from, and whether the sanitisers apply to it (secrets: yes)"""
    def named(var):
        return [i for i, n in enumerate(g.names) if n == f"a:{var}" or (n.startswith("v:") and n.endswith(":" + var))]
    ev = [i for i, n in enumerate(g.names) if n.startswith("v:") and n.endswith(":interact_events[*][0]")]
    S = {
        "PW": (named("auth_password"), True), "PP": (named("auth_private_key_passphrase"), True),
        "SEC": (named("auth_secondary"), True), "HID": (ev, True),
        "NHI": (ev, False), "USR": (named("auth_username"), False), "UID": (named("logging_uid"), False),
        "CMD": (sorted(set(named("command") + named("commands") + named("configs") + named("config") + named("channel_input"))), False),
    }
    src = set(g.sources)
    for r in ("PW", "PP", "SEC", "HID"):
        missing = [g.names[i] for i in S[r][0] if i not in src]
        if missing or not S[r][0]:
            raise translate.TranslateError(f"role {r}: start nodes are not exactly sources of the graph: {missing[:3]}")
    return S


def devout_starts(g):
    """values that come from the device: what the transports' read() return"""
    out = []
    for i, n in enumerate(g.names):
        if n.startswith("v:scrapli/transport/") and n.endswith(":<return>"):
            fn = n[2:].rsplit(":", 1)[0].split("::")[1].split("@")[0]
            if fn.split(".")[-1] in ("read", "_read", "read_nonblocking"):
                out.append(i)
    return out


# ---------------------------------------------------------------- scenario lists
def scenario_specs(tier, rng):
    from props.c12_scen import META, PLATFORMS
    specs = []
    for stack in ("sync", "async"):
        for v in ("ok", "bad", "badrepass"):
            specs.append(dict(kind="telnet", stack=stack, variant=v))
        specs.append(dict(kind="telnet", stack=stack, variant="bad", ctx=True))
        specs.append(dict(kind="telnet", stack=stack, variant="bad", timeout_on_stall=True))
        for v in ("ok", "phrase", "badpw", "badphrase", "badpwquiet"):
            specs.append(dict(kind="ssh", stack=stack, variant=v))
        if stack == "sync":
            specs.append(dict(kind="ssh", stack=stack, variant="badpw", ctx=True))
        for p in PLATFORMS:
            specs.append(dict(kind="escalate", stack=stack, platform=p, variant="ok"))
            if p != "cisco_iosxr":
                specs.append(dict(kind="escalate", stack=stack, platform=p, variant="wrong", timeout_on_stall=True))
            specs.append(dict(kind="escalate", stack=stack, platform=p, variant="nopass"))
            specs.append(dict(kind="escalate", stack=stack, platform=p, variant="denied"))
        specs.append(dict(kind="interactive_early", stack=stack))
        specs.append(dict(kind="interactive_early", stack=stack, variant="denied"))
        specs.append(dict(kind="escalate", stack=stack, platform="cisco_nxos", variant="wrong"))
        specs.append(dict(kind="escalate", stack=stack, platform="cisco_iosxe", variant="priverr"))
        specs.append(dict(kind="interactive", stack=stack))
        specs.append(dict(kind="net_interactive", stack=stack, platform="cisco_iosxe"))
        specs.append(dict(kind="net_interactive", stack=stack, platform="arista_eos"))
        specs.append(dict(kind="factory", stack=stack, platform="cisco_iosxe"))
        specs.append(dict(kind="factory", stack=stack, platform="juniper_junos"))
        specs.append(dict(kind="real_timeout", stack=stack))
    for v in ("authfail", "keyonly", "handshake"):
        specs.append(dict(kind="paramiko", stack="sync", variant=v))
    for v in ("authfail", "timeout", "oserror", "ok"):
        specs.append(dict(kind="asyncssh", stack="async", variant=v))
    for v in ("ok", "bad"):
        specs.append(dict(kind="system", stack="sync", variant=v))
    specs.append(dict(kind="asyncssh", stack="async", variant="authfail", ctx=True))
    # metacharacter variants: every META string is used as prefix and as suffix somewhere
    out = []
    pairs = [(a, b) for a in META for b in META]
    rng.shuffle(pairs)
    cover = [(m, META[(i * 7 + 3) % len(META)]) for i, m in enumerate(META)] + [(META[(i * 5 + 1) % len(META)], m) for i, m in enumerate(META)]
    reps = 1 if tier == "quick" else 6
    n = 0
    for rep in range(reps):
        for sp in specs:
            meta = cover[n % len(cover)] if rep == 0 else pairs[n % len(pairs)]
            n += 1
            out.append((sp, meta))
    return out


FAULT_BASES = [dict(kind="telnet", variant="ok"), dict(kind="ssh", variant="phrase"), dict(kind="escalate", platform="cisco_iosxe", variant="ok"),
               dict(kind="escalate", platform="juniper_junos", variant="ok"), dict(kind="interactive"),
               dict(kind="net_interactive", platform="cisco_iosxe")]


# scenario kinds that carry a secret over the Sim transports: the device goes silent at a step and the REAL timeout
# decorator ends the operation, on each of its mechanisms (props/c12_scen.py MECHS)
SILENT_BASES = [dict(kind="telnet", variant="ok"), dict(kind="ssh", variant="phrase"), dict(kind="interactive"),
                dict(kind="net_interactive", platform="cisco_iosxe")] + \
               [dict(kind="escalate", platform=p, variant="ok") for p in
                ("cisco_iosxe", "cisco_nxos", "arista_eos", "juniper_junos", "cisco_iosxr")]
WRITE_FAIL = {"telnet": ("epipe", "reset"), "system": ("epipe",), "paramiko": ("reset",), "asyncssh": ("epipe",), "asynctelnet": ()}


def sim_secret_steps(trace, cores):
    """[(write index, reads before it, roles)] of the writes of a Sim transport trace that carry a secret canary"""
    out, nw, nr = [], 0, 0
    for x in trace:
        if x[0] == "W":
            nw += 1
            if any(c in x[1] for c in cores):
                out.append((nw, nr))
        elif x[0] in ("R", "stall"):
            nr += 1
    return out


def real_bases(tier, rng):
    """(transport plugin, work, platform) of the runs over the REAL transport plugins"""
    from props.c12_scen import PLATFORMS, REAL_STACK
    trs = list(REAL_STACK)
    out = [(t, "login", "generic") for t in ("telnet", "asynctelnet", "system")]
    out += [(t, "interactive", "generic") for t in trs]
    for i, p in enumerate(PLATFORMS):
        if tier == "thorough":
            out += [(t, "escalate", p) for t in trs]
        else:
            others = [t for t in trs if t != "telnet"]
            out += [("telnet", "escalate", p), (others[(i + rng.randrange(4)) % 4], "escalate", p)]
    return out


def spec_key(sp, meta=None, n=0):
    return "/".join(f"{k}={sp[k]}" for k in sorted(sp)) + (f"/meta={meta!r}" if meta is not None else "") + (f"/#{n}" if n else "")


# ---------------------------------------------------------------- the hand model of the two guarded log sites
LM_INPUTS = ["abc", "%s", "pa%(x)ss", "{0}{}", "back\\slash", "$^.*", "q'\"uote", "ünï", "a b", "REDACTED"]
LM_HIDDEN = [True, False, 1, 0, "x", "", None, "MISSING"]
LM_RESP = ["Password:", "r1#"]


def _site_records(cap, funcs):
    out = []
    for r in cap.records:
        if r.funcName in funcs and "scrapli/channel/" in r.pathname.replace("\\", "/"):
            out.append((r.msg, tuple(str(a) for a in (r.args if isinstance(r.args, tuple) else (r.args,)))))
    return out


def log_model_cases(cap, tier):
    """[(request line for the Lean driver, real records rendered like the driver, description)]"""
    from harness.secretdevice import DialogueDevice
    from harness.simtransport import SimStall, make_conn
    from props.c12_scen import Runner, fast_login_loops

    def render(recs):
        return ";".join(hx(m) + ":" + (",".join(hx(a) for a in args) if args else ".") for m, args in recs)
    cases, trouble = [], 0
    for stack in ("sync", "async"):
        R = Runner(stack)
        try:
            for inp in LM_INPUTS:
                for red in (True, False, 1, 0, "x"):
                    dev = DialogueDevice("r1>", [], [], echo_all=True)
                    conn, t = make_conn("generic", dev, stack)
                    R.do(t.open)
                    cap.records.clear()
                    conn.channel.write(channel_input=inp, redacted=red)
                    cases.append((f"write {1 if red else 0} {hx(inp)}", render(_site_records(cap, ("write",))),
                                  {"site": "write", "stack": stack, "input": inp, "redacted": repr(red)}))
                for h in LM_HIDDEN:
                    for resp in LM_RESP:
                        dev = DialogueDevice("r1>", [resp], [False], echo_all=True)
                        conn, t = make_conn("generic", dev, stack)
                        R.do(t.open)
                        ev = (inp, resp) if h == "MISSING" else (inp, resp, h)
                        hv = False if h == "MISSING" else h
                        cap.records.clear()
                        try:
                            R.do(conn.channel.send_inputs_interact, [ev])
                        except SimStall:
                            trouble += 1
                            continue
                        recs = _site_records(cap, ("send_inputs_interact", "write"))[:2]
                        cases.append((f"interact {1 if hv else 0} {hx(inp)} {hx(resp)} {hx(str(hv))}", render(recs),
                                      {"site": "send_inputs_interact", "stack": stack, "input": inp, "response": resp, "hidden": repr(h)}))
        finally:
            R.close()
    return cases, trouble


class _Watchdog:
    """the scenario runs block on purpose (silent devices, real timeouts): if the rig itself ever hangs, say where and leave
    with exit code 2 (harness trouble) instead of holding the shared locks for ever"""

    def __init__(self, seconds):
        import threading
        self.t = threading.Timer(seconds, self._fire)
        self.t.daemon = True
        self.t.start()

    def _fire(self):
        import faulthandler, sys
        print("C12: harness trouble: the scenario runs hung; stacks follow", file=sys.stderr, flush=True)
        faulthandler.dump_traceback(all_threads=True)
        os._exit(2)

    def cancel(self):
        self.t.cancel()


# ---------------------------------------------------------------- run
def run(tier, seed):
    ck = Check(PID, tier, seed, level="proof")
    _own_findings(ck)
    ck.rule = ("dynamic validation: every scenario = one operation sequence on the REAL drivers/channels/transports over a simulated "
               "device that does not echo at password prompts (telnet login ok/rejected, ssh-style login with password and passphrase "
               "prompts ok/rejected, privilege escalation with auth_secondary on the five platforms ok/wrong/timeout, send_interactive "
               "with hidden inputs incl. use of the returned Response, factory construction, paramiko/asyncssh open() against library "
               "fakes, real timeout decorator) x sync/asyncio x canary secrets with format/regex metacharacter prefixes and suffixes "
               "(every META string used on both sides) x faults (EOF / ScrapliTimeout at read k, EOF at write k; device silent at step k "
               "with the REAL operation timeout on each mechanism: signal / thread pool by class name / thread pool off the main thread / "
               "asyncio; the REAL transport plugins telnet, asynctelnet, system, paramiko, asyncssh over a scripted line with send failure "
               "EPIPE/ECONNRESET/EIO, EOF, reset, silence at the secret-carrying write, the write after and the read after). Non-trivial = a secret "
               "canary was really written to the device or handed to the library. Scanned: every record on the scrapli logger tree "
               "(message, msg, args, extras), both enable_basic_logging files, repr/str of the driver, str/repr/args of every exception "
               "and its cause/context chain, the channel log, repr of transport / channel / args dataclasses (dataclasses advisory).")
    ck.trusted = ["Lean 4.33.0 kernel; axioms of every theorem audited ⊆ {propext, Classical.choice, Quot.sound}",
                  "tools/gen/c12.py (+c12_index.py, c12_flow.py): the AST flow-graph extraction (name based, intra-package; rules in design/C12.md)",
                  "props/c12.py, props/c12_scen.py, harness/secretdevice.py (canary runs, scan, tie of observed flows to the graph, "
                  "sys.setprofile tracker for the interior of the secret closure)",
                  "tools/gen/c12_expected.json (reviewed list of taint-dropping assumptions: handle attributes, narrow exception handlers)"]
    ck.assumptions = ["PARTIAL: the theorem is about the extracted graph; that the graph over-approximates the data flow of the Python "
                      "code rests on the extraction rules (name-based call resolution, attributes merged by name, explicit data flow only: "
                      "no implicit/control flow, no flows through third-party objects or through the device) and is validated dynamically: "
                      "every token seen at a sink must be a static flow",
                      "flows through the device are not in the graph: that an echoed secret is not logged by Channel.read rests on "
                      "hidden_input_typed_only_at_its_prompt (model of send_inputs_interact) + the ENVIRONMENT ASSUMPTION that the device does "
                      "not echo at the expected (password) prompt + the scenario runs (devices echo everywhere else)",
                      "third-party loggers (paramiko, asyncssh) and third-party exception objects in a cause chain are outside the statement",
                      "text of a third-party exception caught by a handler naming specific classes is library-authored (does not embed the "
                      "secret arguments of the call); handlers for Exception/BaseException are treated as receiving every argument"]
    # 1 translate
    g = None
    try:
        translate.translate(PID)
        from gen import c12 as gen
        g = gen.build()
    except Exception as e:
        ck.proof_broken("translator gen/c12.py", repr(e))
    # 2 prove
    ck.prove("ScrapliProps.C12", lemma_files=["ScrapliProps/C12Lemmas.lean", "ScrapliProps/C12Interact.lean", "ScrapliModel/Flow.lean"])
    if tier == "thorough":
        ck.leanchecker("ScrapliProps.C12")

    from props import c12_scen as S
    cap = S.Capture()
    lg = logging.getLogger("scrapli")
    old_state = (lg.level, lg.propagate, list(lg.handlers), logging.raiseExceptions)
    logging.raiseExceptions = False
    tmp = tempfile.mkdtemp(prefix="c12logs")
    files = [os.path.join(tmp, "buffered.log"), os.path.join(tmp, "plain.log")]
    from scrapli.logging import enable_basic_logging
    enable_basic_logging(file=files[0], level="debug", buffer_log=True)
    enable_basic_logging(file=files[1], level="debug", buffer_log=False, caller_info=True)
    lg.addHandler(cap)
    lg.setLevel(logging.DEBUG)
    file_handlers = [h for h in lg.handlers if h not in old_state[2] and h is not cap]

    results = []
    flows = {}          # (role, kind, site) -> example
    secrets_used = []   # (key, role, canary)
    advisory_hits = 0
    lib_saw = 0
    t_dyn = time.time()
    rig_trouble = []
    watchdog = _Watchdog(900 if tier == "quick" else 5400)
    try:
        # corpus first (regression: the pre-fix witness of findings/C12.json)
        todo = []
        for c in json.load(open(CORPUS)):
            todo.append((c["spec"], tuple(c["meta"]) if c.get("meta") else None, "corpus"))
        for sp, meta in scenario_specs(tier, ck.rng):
            todo.append((sp, meta, "gen"))
        counts = {}
        for sp, meta, origin in todo:
            key = spec_key(sp, meta)
            res = S.run_scenario(key, sp, seed, cap, meta)
            results.append((sp, meta, res, origin))
            counts[key] = (res.nreads, res.nwrites)
        # faults at every step of the base scenarios
        for base in FAULT_BASES:
            for stack in ("sync", "async"):
                sp0 = dict(base, stack=stack)
                clean = S.run_scenario(spec_key(sp0) + "/clean", sp0, seed, cap, ("", ""))
                for where, n in (("read", clean.nreads), ("write", clean.nwrites)):
                    ks = list(range(1, n + 1))
                    if tier == "quick" and len(ks) > 5:
                        ks = sorted(ck.rng.sample(ks, 5))
                    for k in ks:
                        for action in (("eof", "timeout") if where == "read" else ("eof",)):
                            sp = dict(sp0, fault=(where, k, action))
                            meta = (ck.rng.choice(S.META), ck.rng.choice(S.META))
                            res = S.run_scenario(spec_key(sp, meta), sp, seed, cap, meta)
                            results.append((sp, meta, res, "fault"))
        # ---- the device goes SILENT at a step: the real timeout decorator fires, on each of its mechanisms.  Always at the
        #      write that carries a secret and at the one after it (the return), plus sampled / all other steps
        t_sil = time.time()
        for bi, base in enumerate(SILENT_BASES):
            for mi, mech in enumerate(S.MECHS):
                stack = "async" if mech == "asyncio" else "sync"
                sp0 = dict(base, stack=stack)
                clean = S.run_scenario(spec_key(sp0) + "/clean2", sp0, seed, cap, ("", ""))
                tr_ = getattr(clean.conn, "transport", None)
                cores = [clean.can[r].core.encode() for r in S.SECRET_ROLES]
                steps = sim_secret_steps(getattr(tr_, "trace", []), cores)
                if not steps and base.get("platform") != "cisco_iosxr":
                    rig_trouble.append(("no secret write in the clean run", spec_key(sp0)))
                ks = set()
                for j, (kw, nr) in enumerate(steps):
                    ks.add(("write", kw))
                    if tier == "thorough" or (j + mi + seed) % 2 == 0:
                        ks.add(("write", kw + 1))
                    else:
                        ks.add(("read", nr + 1))
                allw = [("write", k) for k in range(1, clean.nwrites + 1) if ("write", k) not in ks]
                ks |= set(allw if tier == "thorough" else ck.rng.sample(allw, min(1, len(allw))))
                for where, k in sorted(ks):
                    sp = dict(sp0, mech=mech, fault=(where, k, "silent"), timeout_ops=0.15)
                    meta = (ck.rng.choice(S.META), ck.rng.choice(S.META))
                    res = S.run_scenario(spec_key(sp, meta), sp, seed, cap, meta)
                    results.append((sp, meta, res, "silent"))
        ck.extra["silent_device_wall_s"] = round(time.time() - t_sil, 1)
        # ---- the REAL transport plugins over a scripted line: send failure (EPIPE / ECONNRESET / EIO), EOF, reset, silence
        #      at the secret-carrying write, the write after it and the read after it; plus sampled / all other steps
        t_real = time.time()
        for tr, work, plat in real_bases(tier, ck.rng):
            sp0 = dict(kind="real", stack=S.REAL_STACK[tr], transport=tr, work=work, platform=plat)
            clean = S.run_scenario(spec_key(sp0) + "/clean", sp0, seed, cap, ("", ""))
            results.append((sp0, ("", ""), clean, "real"))
            if clean.outcome != "ok" or clean.line is None:
                rig_trouble.append(("clean run over the real transport plugin failed: " + clean.outcome, spec_key(sp0)))
                continue
            cores = {r: clean.can[r].core.encode() for r in S.SECRET_ROLES}
            steps = clean.line.secret_steps(list(cores.values()))
            if tier != "thorough" and work != "login":
                # the login secrets of this transport are exercised by its login base
                login = clean.line.secret_steps([cores["PW"], cores["PP"]])
                steps = [s_ for s_ in steps if s_ not in login]
            fl = set()
            for kw, nr in steps:
                for a in WRITE_FAIL[tr] + ("silent", "eof"):
                    fl.add(("write", kw, a))
                fl.add(("write", kw + 1, "silent"))
                for a in WRITE_FAIL[tr][:1]:
                    fl.add(("write", kw + 1, a))
                for a in ("eof", "reset", "silent"):
                    fl.add(("read", nr + 1, a))
            rest = [(w_, k, a) for w_, n_ in (("write", clean.line.nwrites), ("read", clean.line.nreads)) for k in range(1, n_ + 1)
                    for a in ((WRITE_FAIL[tr] + ("silent", "eof")) if w_ == "write" else ("eof", "reset", "silent"))]
            rest = [f_ for f_ in rest if f_ not in fl]
            fl |= set(rest if tier == "thorough" else ck.rng.sample(rest, min(2, len(rest))))
            for f_ in sorted(fl):
                sp = dict(sp0, fault=f_)
                meta = (ck.rng.choice(S.META), ck.rng.choice(S.META))
                res = S.run_scenario(spec_key(sp, meta), sp, seed, cap, meta)
                results.append((sp, meta, res, "realfault"))
                if res.outcome == "rigstall":
                    rig_trouble.append(("read blocked and no timeout fired", spec_key(sp)))
        ck.extra["real_transport_wall_s"] = round(time.time() - t_real, 1)
        ck.extra["rig_trouble"] = rig_trouble[:10]
    finally:
        watchdog.cancel()
        lg.removeHandler(cap)
        for h in file_handlers:
            try:
                h.close()
            except Exception:
                pass
            lg.removeHandler(h)
        lg.setLevel(old_state[0])
        lg.propagate = old_state[1]
        logging.raiseExceptions = old_state[3]
    ck.extra["dynamic_wall_s"] = round(time.time() - t_dyn, 1)
    # replay of the stored witness of the open finding C12-F2
    for fnd in ck.findings:
        if fnd["id"] == F2 and fnd.get("status") == "open":
            w = fnd["witness"]
            wr = [r for sp_, m_, r, o_ in results if sp_ == w["scenario"] or {k: v for k, v in sp_.items()} == w["scenario"]]
            still = any(ex.kind == "log" and ex.func == "read" and r.can["SEC"].found_in(ex.text) for r in wr for ex in r.exhibits)
            if still:
                ck.known_finding(F2, "auth_secondary is typed at an echoing prompt when the device asks for no password; the echo is logged in the DEBUG read record")

    # ---- oracle on every scenario + collection of the observed flows
    probe_hits = 0
    for sp, meta, res, origin in results:
        wrote_secret = False
        t = getattr(res.conn, "transport", None) if res.conn is not None else None
        if getattr(res, "line", None) is not None:
            t = res.line
        if t is not None and hasattr(t, "writes"):
            w = t.writes().decode("utf-8", "replace")
            wrote_secret = any(res.can[r].core in w for r in S.SECRET_ROLES)
        if any(a[0] == "library saw password" and a[1] for a in res.advisory):
            wrote_secret = True
            lib_saw += 1
        ck.case(res.key, nontrivial=wrote_secret,
                sample={"scenario": {k: v for k, v in sp.items()}, "meta": list(meta) if meta else None, "outcome": res.outcome,
                        "exhibits": len(res.exhibits)},
                tags=(f"kind={sp['kind']}", f"stack={sp['stack']}", f"outcome={res.outcome}", f"origin={origin}",
                      "fault=" + (sp["fault"][0] + ":" + sp["fault"][2] if sp.get("fault") else "none"),
                      "timeout_mechanism=" + (sp.get("mech") or ({"telnet": "threadpool", "system": "threadpool", "paramiko": "signal"}.get(
                          sp.get("transport"), "asyncio") if sp.get("kind") == "real" else "-")),
                      "transport=" + (sp.get("transport") or "sim")))
        for r in S.SECRET_ROLES:
            secrets_used.append((res.key, r, res.can[r], r in res.echoed, sp))
        for ex in res.exhibits:
            for role, c in res.can.items():
                if not c.found_in(ex.text):
                    continue
                if role in S.SECRET_ROLES:
                    i = max(ex.text.find(c.core), 0)
                    echoed = role in res.echoed
                    case = {"scenario": sp, "meta": list(meta) if meta else None, "seed": seed, "role": role, "sink": ex.kind,
                            "site": list(ex.site) if ex.site else None, "what": ex.what, "excerpt": ex.text[max(0, i - 120): i + 60],
                            "echoed_by_device": echoed, "read_record": ex.kind == "log" and ex.func == "read"}
                    if ex.kind == "chanlog" and echoed:
                        advisory_hits += 1      # the property allows the channel log to show what the device echoed
                    elif ex.gating:
                        ck.violation(case, f"secret canary ({role}) visible in {ex.kind} {ex.what} at {ex.site}", matcher)
                    else:
                        advisory_hits += 1
                else:
                    probe_hits += 1
                if ex.site is not None:
                    flows.setdefault((role, ex.kind, tuple(ex.site)), {"scenario": res.key, "what": ex.what, "echoed": role in res.echoed})
    # the two log files
    file_texts = []
    for f in files:
        try:
            file_texts.append(open(f, errors="replace").read())
        except OSError:
            file_texts.append("")
    ck.extra["log_file_bytes"] = [len(x) for x in file_texts]
    import re as _re
    for key, role, c, echoed, sp in secrets_used:
        for f, text in zip(files, file_texts):
            if c.found_in(text):
                i = text.find(c.core)
                lines_ = [l for l in text.splitlines() if c.found_in(l)]
                only_reads = bool(lines_) and all(_re.search(r"\| read ?: ", l) for l in lines_)
                ck.violation({"scenario": sp, "scenario_key": key, "role": role, "sink": "file", "file": os.path.basename(f), "seed": seed,
                              "excerpt": text[max(0, i - 160): i + 60], "echoed_by_device": echoed, "read_record": only_reads},
                             f"secret canary ({role}) written to the scrapli log file {os.path.basename(f)}", matcher)
    if probe_hits == 0 or not all(file_texts) or not any("USRq" in x for x in file_texts):
        ck.proof_broken("harness self-check", "the non-secret probe tokens were not seen in records / log files: the capture is not working")
    ck.extra["probe_token_hits"] = probe_hits
    ck.extra["advisory_hits(response repr, third-party exception objects, device echo)"] = advisory_hits
    ck.extra["library_boundary_saw_password"] = lib_saw

    # ---- the hand model of the two guarded logging sites: real records
    lg.addHandler(cap)
    lg.setLevel(logging.DEBUG)
    try:
        lm_cases, lm_trouble = log_model_cases(cap, tier)
    finally:
        lg.removeHandler(cap)
        lg.setLevel(old_state[0])
    ck.extra["log_model_cases"] = len(lm_cases)
    ck.extra["log_model_harness_trouble"] = lm_trouble

    # ---- one model run: reachability queries per role + the log model
    lines, want = [], []
    starts = devout = None
    if g is not None:
        try:
            starts = role_starts(g)
            devout = devout_starts(g)
        except Exception as e:
            ck.proof_broken("role start nodes", repr(e))
    if starts is not None:
        for role, (ids, sanitised) in starts.items():
            lines.append(("reach " if sanitised else "reachall ") + ",".join(map(str, ids)))
        lines.append("reachall " + ",".join(map(str, devout)))
        lines.append("adv " + ",".join(map(str, g.sources)))
        lines.append("stats")
    nq = len(lines)
    for req, _, _ in lm_cases:
        lines.append(req)
    mout = None
    try:
        mout = run_model("C12", lines) if lines else []
    except Exception as e:
        ck.proof_broken("model driver Drv/C12.lean", repr(e))

    # ---- correspondence 1: Lean reach == independent Python closure on the same graph; static reach per role
    static = {}
    if mout is not None and starts is not None:
        order = list(starts) + ["DEVOUT"]
        for i, role in enumerate(order):
            ids, sanitised = starts[role] if role != "DEVOUT" else (devout, False)
            par = g.reach(ids, avoid_sanitisers=sanitised)
            py_sinks = sorted(x for x in par if g.kind[x] == "sink")
            cnt, sk = mout[i].split(" ")
            lean_sinks = sorted(int(x) for x in sk.split(",")) if sk != "-" else []
            if int(cnt) != len(par) or lean_sinks != py_sinks:
                ck.disagree("Lean reachFrom vs Python closure", {"role": role}, f"lean={cnt}/{len(lean_sinks)} python={len(par)}/{len(py_sinks)}")
            else:
                ck.traces_validated += 1
            static[role] = set(lean_sinks)
        if mout[nq - 1] != f"{len(g.names)} {len(g.sources)} {len(g.sinks)} {len(g.sanitisers)}":
            ck.disagree("graph sizes", {}, f"lean={mout[nq - 1]}")
        ck.extra["advisory_static_sinks_reached"] = mout[nq - 2]
        for r in S.SECRET_ROLES:
            if static[r]:
                p = g.reach(starts[r][0])
                tgt = sorted(static[r])[0]
                ck.notes.append(f"static path for {r}: " + " -> ".join(g.path(p, tgt)))
        ck.extra["static_sinks_reached_per_role"] = {r: len(v) for r, v in static.items()}

    # ---- correspondence 2 (the tie): every observed flow is a flow of the static graph
    unexplained = 0
    if static:
        for (role, kind, site), info in sorted(flows.items(), key=str):
            if kind == "log":
                ids = g.sink_sites("log", site[0], site[1])
                if not ids:
                    ck.disagree("log call site missing from the static sinks", {"site": list(site), **info}, "a record was emitted from a call the extractor does not know as a logger call")
                    continue
            elif kind == "exc":
                ids = g.sink_sites("raise", site[0], site[1])
                if not ids:
                    continue    # raised by a statement that is not a `raise` (e.g. re-raised by the runtime): no static site
            elif kind in ("repr", "str"):
                ids = [i for i in g.sinks if g.names[i].endswith("BaseDriver." + site[1])]
            else:
                continue
            if set(ids) & static[role]:
                ck.traces_validated += 1
            elif info["echoed"] and set(ids) & static["DEVOUT"]:
                ck.traces_validated += 1      # the device sent the token back; the sink shows device output
            else:
                unexplained += 1
                ck.disagree("observed flow absent from the static graph", {"role": role, "sink": kind, "site": list(site), **info},
                            "the extraction misses a real data flow (correspondence failure of gen/c12.py)")
    # ---- correspondence 2b: the INTERIOR of the secret closure.  Every local variable / attribute that held a secret
    #      canary during a real run must be a node of reach(sources) (any flag context, any access path)
    if g is not None:
        import re as _re2
        closure = g.reach(g.sources)
        vars_in, attrs_in = set(), set()
        for i in closure:
            n = g.names[i]
            if n.startswith("a:"):
                attrs_in.add(n[2:])
            elif n.startswith("v:"):
                body = n[2:].split("[", 1)[0]
                fq, name = body.rsplit(":", 1)
                fq = _re2.sub(r"@[TF]$", "", fq)
                if fq.endswith(".setter"):
                    fq = fq[: -len(".setter")]
                vars_in.add((fq, name))
        inside = outside = 0
        for item, (role, key) in sorted(S.TRACKER.seen.items(), key=str):
            ok = (item[1] in attrs_in) if item[0] == "a" else ((f"{item[1]}::{item[2]}", item[3]) in vars_in)
            if ok:
                inside += 1
                ck.traces_validated += 1
            else:
                outside += 1
                ck.disagree("variable holding a secret is outside the static closure", {"item": list(item), "role": role, "scenario": key},
                            "a real run put a secret canary into this local / attribute but reach(sources) does not contain it: "
                            "missing edge in gen/c12.py on a secret's own path")
        ck.extra["tainted_variables_outside_list"] = [list(k) + list(v) for k, v in sorted(S.TRACKER.seen.items(), key=str)
                                                       if not ((k[1] in attrs_in) if k[0] == "a" else ((f"{k[1]}::{k[2]}", k[3]) in vars_in))][:40]
        ck.extra["tainted_variables_seen"] = inside + outside
        ck.extra["tainted_variables_outside_closure"] = outside
        ck.extra["profiled_package_frames"] = S.TRACKER.frames
        if inside == 0:
            ck.proof_broken("harness self-check", "the taint tracker saw no variable holding a secret: sys.setprofile not working")
    ck.extra["distinct_observed_flows"] = len(flows)
    ck.extra["observed_flows_not_in_graph"] = unexplained

    # ---- correspondence 3: the log model
    if mout is not None:
        for (req, real, desc), ml in zip(lm_cases, mout[nq:]):
            if real == ml:
                ck.traces_validated += 1
            else:
                ck.disagree("log model vs real " + desc["site"], desc, f"impl={real} model={ml}")
        # oracle, independent of the model (non-interference): with the mark set, what is handed to logging is the
        # same whatever the input is, and no argument contains the input
        groups = {}
        for req, real, desc in lm_cases:
            flag = desc.get("redacted", desc.get("hidden"))
            if flag in ("False", "0", "''", "None", "'MISSING'"):
                continue
            groups.setdefault((desc["site"], desc["stack"], desc.get("response"), flag), []).append((desc, real))
            args = [a for rec in real.split(";") for a in rec.split(":", 1)[1].split(",")]
            if desc["input"] != "REDACTED" and any(hx(desc["input"]) in a for a in args):
                ck.violation({"log_model_case": desc, "records": real}, "input logged although marked redacted/hidden", matcher)
        for k, lst in groups.items():
            if len({real for _, real in lst}) != 1:
                ck.violation({"log_model_group": list(map(str, k)), "records": sorted({real for _, real in lst})[:4]},
                             "records of a redacted/hidden write depend on the input", matcher)
    ck.exhaustive = True
    ck.extra["exhaustive_scope"] = (f"log sites: {len(LM_INPUTS)} inputs x {len(LM_HIDDEN)} flag values x {len(LM_RESP)} prompts x 2 stacks; "
                                    "faults: " + ("every" if tier == "thorough" else "5 sampled") + " read/write index of 6 base scenarios x 2 stacks; "
                                    "silent device / real-transport faults: ALWAYS the secret-carrying writes (+ the step after), "
                                    + ("every other step" if tier == "thorough" else "1-2 sampled other steps"))
    ck.extra["programs"] = len(results)
    rc = ck.finish()
    if rc == 0 and rig_trouble:
        print(f"C12: harness trouble (no verdict): {rig_trouble[:3]}")
        return 2
    return rc


def replay(path):
    r = json.load(open(path))
    v = (r.get("violation") or {}).get("case") or {}
    sp, meta, seed = v.get("scenario"), v.get("meta"), v.get("seed", r.get("seed", 0))
    if not sp:
        print("replay file names no scenario (static / correspondence breakage):", json.dumps(r.get("no_longer_checks", r), indent=1)[:3000])
        return 1
    from props import c12_scen as S
    cap = S.Capture()
    lg = logging.getLogger("scrapli")
    lg.addHandler(cap)
    lg.setLevel(logging.DEBUG)
    logging.raiseExceptions = False
    if "fault" in sp and sp["fault"]:
        sp["fault"] = tuple(sp["fault"])
    res = S.run_scenario(spec_key(sp, tuple(meta) if meta else None), sp, seed, cap, tuple(meta) if meta else None)
    bad = 0
    for ex in res.exhibits:
        for role in S.SECRET_ROLES:
            c = res.can[role]
            if ex.gating and c.found_in(ex.text) and not (ex.kind == "chanlog" and role in res.echoed):
                i = ex.text.find(c.core)
                print(f"LEAK role={role} secret={c.full!r} sink={ex.kind} {ex.what} site={ex.site}\n   ...{ex.text[max(0, i - 120): i + 60]!r}")
                bad += 1
    print(f"scenario {sp} outcome={res.outcome}: {bad} leaking exhibits")
    return 1 if bad else 0
