"""C07 — operations that cannot complete time out, and time out cleanly.

Lean: ScrapliModel/Timeout.lean, ScrapliProps/C07.lean (+ C07Lemmas.lean), Drv/C07.lean.
Real code: scrapli.decorators.timeout_wrapper driven
  (P) over synthetic channel/transport objects that interpret a `Prog` tree (any nesting of decorated calls),
  (S) through the real drivers/channels over a blocking Sim transport whose device goes silent at each point,
  (R) through the real Telnet / asynctelnet / system(pty) transports on loopback rigs (thorough; the finding
      witnesses also in quick),
each run in a fresh *worker subprocess* whose main thread executes the case (SIGALRM needs the main thread),
several workers in parallel.  PARTIAL: the protocol is proved on the model; wall-clock latency, surviving
threads and what the OS does to a blocked read on close() are OBSERVED here.

Timing discipline: a run can only be late because of load, never early.  "Early" fails at once; "late" is
re-measured up to 3 times; every run carries a heartbeat (max scheduling gap).  Still late although the
heartbeat was quiet => a real disagreement/violation; late and noisy 3 times => harness trouble (exit 2)."""
import asyncio, functools, itertools, json, logging, os, signal, socket, subprocess, sys, threading, time
from pathlib import Path
from types import SimpleNamespace

PID = "C07"
TICK = 0.1          # seconds per model tick
EPS = 0.03          # a timer never fires early; allowance for clock granularity
TIGHT = 0.25        # allowed lateness on the simulated rigs
RELEASE = 14        # ticks after which a blocked read of a rig gives up by itself ("socket timeout")
THINK = 3           # ticks a "slow" device stays silent after a return before it answers
NOISY = 0.08        # heartbeat gap above which a measurement is called noisy
VERIF = Path(__file__).resolve().parents[2]
CHANNEL_OPS = ("channel_authenticate_ssh", "channel_authenticate_telnet", "get_prompt", "send_input",
               "send_input_and_read", "send_inputs_interact")
# the oracle's own copy of the messages (scrapli documentation / FUNC_TIMEOUT_MESSAGE_MAP as of the pinned tree)
ORACLE_MESSAGES = {
    "channel_authenticate_ssh": "timed out during in channel ssh authentication",
    "channel_authenticate_telnet": "timed out during in channel telnet authentication",
    "get_prompt": "timed out getting prompt",
    "send_input": "timed out sending input to device",
    "send_input_and_read": "timed out sending input to device",
    "send_inputs_interact": "timed out sending interactive input to device",
    "read": "timed out reading from transport",
}
ORACLE_DEFAULT = "unspecified timeout occurred"
THREAD_NAMES = ("SystemTransport", "TelnetTransport")   # the property text: "system/telnet transport"


class HarnessTrouble(Exception):
    pass


# =====================================================================================================
# Prog helpers (shared by parent and worker).  prog = ["ret"] | ["raise"] | ["hang"] | ["work", d, k] |
# ["call", t, name, body, k]
# =====================================================================================================
def prog_tokens(p):
    k = p[0]
    if k in ("ret", "raise", "hang"):
        return [k]
    if k == "work":
        return ["work", str(p[1])] + prog_tokens(p[2])
    if k == "spawn":
        return ["spawn"] + prog_tokens(p[1]) + prog_tokens(p[2])
    return ["call", str(p[1]), p[2]] + prog_tokens(p[3]) + prog_tokens(p[4])


def norm(p):
    """spawn body k  ==  call 0 _ body k  for everything that only looks at timing / structure"""
    return ["call", 0, "task", p[1], p[2]] if p[0] == "spawn" else p


def has_spawn(p):
    k = p[0]
    if k in ("ret", "raise", "hang"):
        return False
    if k == "work":
        return has_spawn(p[2])
    if k == "spawn":
        return True
    return has_spawn(p[3]) or has_spawn(p[4])


def natural(p):
    """(duration in ticks or None = forever, outcome 'ret'|'error'|None) ignoring every timeout"""
    k = p[0]
    if k == "ret":
        return 0, "ret"
    if k == "raise":
        return 0, "error"
    if k == "hang":
        return None, None
    if k == "work":
        d, o = natural(p[2])
        return (None if d is None else d + p[1]), o
    p = norm(p)
    d, o = natural(p[3])
    if o != "ret":
        return d, o
    d2, o2 = natural(p[4])
    return (None if d2 is None else d + d2), o2


def dehang(p, elapsed=0, release=RELEASE):
    """the rigs never block forever: a `hang` gives up (raises) at absolute tick `release`"""
    k = p[0]
    if k in ("ret", "raise"):
        return p
    if k == "hang":
        return ["work", max(release - elapsed, 0), ["raise"]]
    if k == "work":
        return ["work", p[1], dehang(p[2], elapsed + p[1], release)]
    if k == "spawn":
        d, o = natural(p[1])
        return ["spawn", dehang(p[1], elapsed, release), dehang(p[2], elapsed + (d or 0), release) if o == "ret" else p[2]]
    d, o = natural(p[3])
    return ["call", p[1], p[2], dehang(p[3], elapsed, release), dehang(p[4], elapsed + (d or 0), release) if o == "ret" else p[4]]


def calls(p, depth=0):
    """[(depth, t, name)] of every call"""
    k = p[0]
    if k in ("ret", "raise", "hang"):
        return []
    if k == "work":
        return calls(p[2], depth)
    if k == "spawn":
        return calls(p[1], depth + 1) + calls(p[2], depth)
    return [(depth, p[1], p[2])] + calls(p[3], depth + 1) + calls(p[4], depth)


def nested_armed(p, outer=False):
    """is there an armed call inside an armed call"""
    k = p[0]
    if k in ("ret", "raise", "hang"):
        return False
    if k == "work":
        return nested_armed(p[2], outer)
    p = norm(p)
    armed = p[1] > 0
    if armed and outer:
        return True
    return nested_armed(p[3], outer or armed) or nested_armed(p[4], outer)


def perturb(p, delta):
    k = p[0]
    if k in ("ret", "raise", "hang"):
        return p
    if k == "work":
        return ["work", max(p[1] + delta, 0), perturb(p[2], delta)]
    if k == "spawn":
        return ["spawn", perturb(p[1], delta), perturb(p[2], delta)]
    return ["call", p[1], p[2], perturb(p[3], delta), perturb(p[4], delta)]


# =====================================================================================================
# WORKER SIDE — runs in a subprocess, the case body in its main thread (or a thread it starts)
# =====================================================================================================
class RigError(Exception):
    """any non-timeout exception of the rig (read on a closed transport, read released, wrapped function's own)"""


class Heartbeat:
    def __enter__(self):
        self.gap, self._stop = 0.0, False
        self.t = threading.Thread(target=self._run, name="c07-heartbeat", daemon=True)
        self.t.start()
        return self

    def _run(self):
        last = time.monotonic()
        while not self._stop:
            time.sleep(0.005)
            now = time.monotonic()
            self.gap = max(self.gap, now - last - 0.005)
            last = now

    def __exit__(self, *a):
        self._stop = True
        self.t.join()


def _sig_ctx():
    from scrapli import decorators
    h = signal.getsignal(signal.SIGALRM)
    msg = None
    if isinstance(h, functools.partial) and h.func is decorators._signal_raise_exception:
        msg = h.keywords.get("message")
    return {"main": threading.current_thread() is threading.main_thread(), "tid": threading.current_thread().name,
            "sig_msg": msg, "armed": signal.getitimer(signal.ITIMER_REAL)[0] > 0}


def _zero(kind):
    return {"int": 0, "float": 0.0, "none": None}[kind]


class RigTransportBase:
    """what the decorator needs from a transport + a blocking primitive with a configurable reaction to close()"""

    def __init__(self, close_wakes, release_at):
        self.logger = logging.getLogger("scrapli.c07rig")
        self._base_transport_args = SimpleNamespace(timeout_transport=0)
        self.closed, self.close_calls = False, 0
        self.close_wakes, self.release_at = close_wakes, release_at
        # NB no Event/Condition here: close() runs inside the SIGALRM handler under the signal mechanism, and
        # Event.set() from a handler that interrupted Event.wait() of the same thread can deadlock on the
        # condition's lock.  Plain flags polled every 5 ms instead.

    def close(self):
        self.closed = True
        self.close_calls += 1

    def isalive(self):
        return not self.closed

    def block(self, d):
        """a transport read that returns after d seconds (None: never)"""
        if self.closed:
            raise RigError("read on a closed transport")
        end = None if d is None else time.monotonic() + d
        while True:
            now = time.monotonic()
            if end is not None and now >= end:
                return
            # only a read on a silent device (`hang`) gives up at the release time; a read of finite length is never cut
            # short by the rig (a program whose deadline falls on the release tick once got "read released" instead of its
            # ScrapliTimeout)
            if end is None and now >= self.release_at:
                raise RigError("read released")
            lim = (end if end is not None else self.release_at) - now
            time.sleep(max(min(lim, 0.005), 0))
            if self.closed and self.close_wakes:
                raise RigError("closed while blocked in read")

    async def ablock(self, d):
        end = None if d is None else time.monotonic() + d
        while True:
            now = time.monotonic()
            if end is not None and now >= end:
                return
            if end is None and now >= self.release_at:      # see block()
                raise RigError("read released")
            lim = (end if end is not None else self.release_at) - now
            await asyncio.sleep(max(min(lim, 0.005), 0))
            # asyncio reads are ended by cancellation, not by close(): a task that nobody cancels keeps waiting
            # (model: runA does not look at `closed`); this keeps the orphan observation deterministic


def run_prog_case(c):
    """(P): the real timeout_wrapper around functions that interpret c['prog']"""
    from scrapli.decorators import timeout_wrapper
    from scrapli.exceptions import ScrapliTimeout
    from scrapli.settings import Settings
    is_async = c["mech"] == "asyncio"
    T = type(c["cls"], (RigTransportBase,), {})(c["close_wakes"], 0)
    lock = threading.Lock()
    ctx = []
    zero = _zero(c.get("zero", "int"))

    def tval(t):
        return t * TICK if t else zero

    def holder(t, name):
        if name == "read":          # the transport branch of _get_transport_logger_timeout
            T._base_transport_args.timeout_transport = tval(t)
            return T
        return SimpleNamespace(transport=T, logger=T.logger, _base_channel_args=SimpleNamespace(timeout_ops=tval(t)))

    def interp(p, top):
        k = p[0]
        if k == "ret":
            return
        if k == "raise":
            raise RigError("own exception")
        if k == "hang":
            T.block(None)
        elif k == "work":
            T.block(p[1] * TICK)
            interp(p[2], top)
        elif k == "spawn":
            interp(p[1], False)
            interp(p[2], top)
        else:
            _, t, name, body, cont = p

            def f(self_):
                ctx.append({"name": name, "top": top, **_sig_ctx()})
                if top and name in CHANNEL_OPS:
                    with lock:
                        return interp(body, False)
                return interp(body, False)
            f.__name__ = f.__qualname__ = name
            timeout_wrapper(f)(holder(t, name))
            interp(cont, top)

    async def ainterp(p, top):
        k = p[0]
        if k == "ret":
            return
        if k == "raise":
            raise RigError("own exception")
        if k == "hang":
            await T.ablock(None)
        elif k == "work":
            await T.ablock(p[1] * TICK)
            await ainterp(p[2], top)
        elif k == "spawn":
            task = asyncio.ensure_future(ainterp(p[1], False))
            await asyncio.wait({task})          # does not cancel `task` when it is cancelled itself
            task.result()
            await ainterp(p[2], top)
        else:
            _, t, name, body, cont = p

            async def f(self_):
                ctx.append({"name": name, "top": top, **_sig_ctx()})
                return await ainterp(body, False)
            f.__name__ = f.__qualname__ = name
            await timeout_wrapper(f)(holder(t, name))
            await ainterp(cont, top)

    res = {}

    def body():
        res["caller"] = _sig_ctx()
        t0 = time.monotonic()
        T.release_at = t0 + c.get("release", RELEASE) * TICK
        async def arun():
            before_t = set(asyncio.all_tasks())
            try:
                await ainterp(c["prog"], True)
            finally:
                res["elapsed"] = time.monotonic() - t0
                await asyncio.sleep(0)
                await asyncio.sleep(0)
                me = asyncio.current_task()
                res["tasks_left"] = sorted(getattr(t.get_coro(), "__qualname__", "?") for t in asyncio.all_tasks()
                                           if t not in before_t and t is not me and not t.done())
        try:
            if is_async:
                asyncio.run(arun())
            else:
                interp(c["prog"], True)
            res["out"], res["msg"], res["exc"] = "ret", None, None
        except ScrapliTimeout as e:
            res["out"], res["msg"], res["exc"] = "timeout", str(e), type(e).__name__
        except asyncio.CancelledError as e:
            res["out"], res["msg"], res["exc"] = "cancelled", str(e), type(e).__name__
        except BaseException as e:  # noqa
            res["out"], res["msg"], res["exc"] = "error", str(e), type(e).__name__
        res.setdefault("elapsed", time.monotonic() - t0)

    old_nt = Settings.NO_TERMINATE_ON_TIMEOUT
    Settings.NO_TERMINATE_ON_TIMEOUT = bool(c["no_term"])
    user_handler = None
    try:
        alarms = []
        if c.get("pre_timer"):
            user_handler = lambda *a: alarms.append(time.monotonic())  # noqa
            signal.signal(signal.SIGALRM, user_handler)
            signal.setitimer(signal.ITIMER_REAL, c["pre_timer"])
        h0 = signal.getsignal(signal.SIGALRM)
        i0 = signal.getitimer(signal.ITIMER_REAL)
        before = set(threading.enumerate())
        with Heartbeat() as hb:
            if c.get("thread") == "other":
                th = threading.Thread(target=body, name="c07-caller")
                th.start()
                th.join()
            else:
                body()
            after_threads = [t.name for t in threading.enumerate() if t not in before and t.name not in ("c07-heartbeat",)]
            h1 = signal.getsignal(signal.SIGALRM)
            if c.get("pre_timer"):
                time.sleep(0.02)      # an alarm that is due goes off "at once", i.e. asynchronously
            i1 = signal.getitimer(signal.ITIMER_REAL)
        res.update(hb_gap=hb.gap, user_alarms=len(alarms))
    finally:
        Settings.NO_TERMINATE_ON_TIMEOUT = old_nt
        signal.setitimer(signal.ITIMER_REAL, 0)
        signal.signal(signal.SIGALRM, signal.SIG_DFL)
    caller = res.pop("caller")
    tops = [x for x in ctx if x["top"]]
    mech_seen = None
    if tops:
        x = tops[0]
        mech_seen = "asyncio/direct" if is_async else "thread" if x["tid"] != caller["tid"] else "signal" if x["sig_msg"] is not None else "direct"
        res["first_sig_msg"] = x["sig_msg"]
    res.update(closed=T.closed, close_calls=T.close_calls, handler_same=h1 is h0, itimer_before=i0[0], itimer_after=i1[0],
               threads_new=after_threads, lock_free=not lock.locked(), mech_seen=mech_seen,
               workers=len({x["tid"] for x in ctx if x["tid"] != caller["tid"]}), ncalls=len(ctx))
    return res


# ---- (S) the real channel over a blocking Sim transport
class LoginDevice:
    """Username: / Password: dialogue, then a prompt (for the in-channel authentication operations)"""

    def __init__(self, first=b"Username: "):
        self.first, self.stage, self.line = first, 0, bytearray()

    def connect(self):
        return self.first

    def on_write(self, data):
        out = bytearray()
        for b in data:
            if b == 0x0A:
                self.stage += 1
                self.line.clear()
                out += b"\nPassword: " if (self.stage == 1 and self.first.startswith(b"User")) else b"\nr1#"
            elif b != 0x0D:
                self.line.append(b)
        return bytes(out)


def _think_write(t, channel_input):
    """rig transports: (i) a slow device — silent for `think` seconds after a return, then it answers; with `think_marker`
    only ONCE, after the return that follows the first write containing the marker (the command itself; `think` = 1e9:
    silent for good); (ii) the driver-level timeout_ops as the channel sees it at the moment the marked command is
    written = the limit in force for that operation"""
    if t.think_marker is not None and t.think_marker in channel_input:
        t._marked = True
        if t.seen is not None and t.chan_args is not None:
            t.seen.append(t.chan_args.timeout_ops)
    if t.think and channel_input.endswith(b"\n"):
        if t.think_marker is None:
            t.think_until = time.monotonic() + t.think
        elif t._marked and not t._thought:
            t._thought = True
            t.think_until = time.monotonic() + t.think


def _block_classes():
    from scrapli.decorators import timeout_wrapper
    from scrapli.exceptions import ScrapliConnectionError
    from harness.simtransport import AsyncSimTransport, SimTransport

    class BlockSim(SimTransport):
        close_wakes, release_at, obs, think, think_until = True, None, None, 0, 0
        think_marker, chan_args, seen, _marked, _thought = None, None, None, False, False

        def write(self, channel_input):
            if self.obs is not None and not self.obs:
                self.obs.append(_sig_ctx())
            _think_write(self, channel_input)
            return SimTransport.write(self, channel_input)

        @timeout_wrapper
        def read(self):
            self._pre_read()
            while not self.buf or time.monotonic() < self.think_until:
                if self.release_at is not None and time.monotonic() >= self.release_at:
                    raise OSError("blocked read gave up (the rig's socket timeout)")
                time.sleep(0.005)      # not self._wake.wait(): see RigTransportBase
                if not self.opened and self.close_wakes:
                    raise ScrapliConnectionError("transport closed while blocked in read")
            return self._take()

    class ABlockSim(AsyncSimTransport):
        close_wakes, release_at, obs, think, think_until = True, None, None, 0, 0
        think_marker, chan_args, seen, _marked, _thought = None, None, None, False, False

        def write(self, channel_input):
            if self.obs is not None and not self.obs:
                self.obs.append(_sig_ctx())
            _think_write(self, channel_input)
            return AsyncSimTransport.write(self, channel_input)

        _reading = False

        @timeout_wrapper
        async def read(self):
            if self._reading:     # asyncio.StreamReader: one reader at a time
                raise RuntimeError("read() called while another coroutine is already waiting for incoming data")
            self._reading = True
            try:
                self._pre_read()
                while not self.buf or time.monotonic() < self.think_until:
                    if self.release_at is not None and time.monotonic() >= self.release_at:
                        raise OSError("blocked read gave up (the rig's socket timeout)")
                    await asyncio.sleep(0.005)
                    if not self.opened and self.close_wakes:
                        raise ScrapliConnectionError("transport closed while blocked in read")
                return self._take()
            finally:
                self._reading = False

    return BlockSim, ABlockSim


CMD = "show version"
OUTPUT = "line one\nline two\nline three"


def _stack_setup(c):
    from harness.simdevice import CliDevice
    from harness.simtransport import FaultPlan
    op, stall = c["op"], c["stall"]
    if op in ("auth_telnet", "auth_ssh"):
        dev = LoginDevice(b"Username: " if op == "auth_telnet" else b"Password: ")
        return dev, [FaultPlan(at_write=1, action="silent")]
    dev = CliDevice("cisco_iosxe", outputs=lambda m, l: OUTPUT)
    probe = CliDevice("cisco_iosxe", outputs=lambda m, l: OUTPUT)
    p, e = len(probe.connect()), len(CMD)
    total = p + len(probe.on_write(CMD.encode())) + len(probe.on_write(b"\n"))
    if stall == "before_echo":
        return dev, [FaultPlan(at_write=1, action="silent")]
    if stall == "mid_echo":
        return dev, [FaultPlan(after_bytes=p + 5, action="silent")]
    if stall == "mid_output":
        return dev, [FaultPlan(after_bytes=p + e + 1 + 7, action="silent")]
    if stall == "before_prompt":
        return dev, [FaultPlan(after_bytes=total - len(probe.prompt()), action="silent")]
    if stall in ("never", "slow"):          # the device answers (slow: after a silence): the operation completes
        return dev, []
    return dev, []                # "natural": the expected text never shows up (interact)


class _LibAdapter:
    """the REAL ParamikoTransport (its undecorated read with the `except Exception` around recv) over a fake paramiko
    channel whose recv blocks; looks like the Sim transports to run_stack_case"""

    def __init__(self, real):
        self.real, self.obs, self.trace, self.release_at, self.close_wakes = real, [], [], None, True
        ad = self

        class Chan:
            closed, eof_received = False, False

            def recv(self, n):
                while not self.closed:
                    if ad.release_at is not None and time.monotonic() >= ad.release_at:
                        raise OSError("blocked recv gave up (the rig's socket timeout)")
                    time.sleep(0.005)
                return b""

            def send(self, b):
                if not ad.obs:
                    ad.obs.append(_sig_ctx())
                return len(b)

            def close(self):
                ad.trace.append(("close",))
                self.closed = True

            def settimeout(self, v):
                pass

        class Sess:
            def is_alive(self):
                return True

            def close(self):
                pass
        self._chan, self._sess = Chan(), Sess()

    def open(self):
        self.real.session_channel, self.real.session = self._chan, self._sess

    def isalive(self):
        return self.real.isalive()


def _paramiko_conn(t_ops):
    from scrapli.driver import GenericDriver
    conn = GenericDriver(host="h", transport="paramiko", auth_bypass=True, auth_strict_key=False, timeout_ops=t_ops or 0,
                         timeout_transport=0, channel_lock=True, comms_prompt_pattern=r"^r1#\s*$")
    return conn, _LibAdapter(conn.transport)


def run_stack_case(c):
    from harness.simtransport import make_conn, named
    from scrapli.exceptions import ScrapliTimeout
    from scrapli.settings import Settings
    BlockSim, ABlockSim = _block_classes()
    is_async = c["stack"] == "async"
    dev, faults = _stack_setup(c)
    zero = _zero(c.get("zero", "int"))
    t_ops = c["t_ops"] * TICK if c["t_ops"] else zero
    t_tr = c["t_tr"] * TICK if c["t_tr"] else zero
    if c.get("real_transport") == "paramiko":
        conn, t = _paramiko_conn(t_ops)
    else:
        cls = named(ABlockSim if is_async else BlockSim, c["cls"])
        conn, t = make_conn("cisco_iosxe", dev, stack=c["stack"], transport_cls=cls, on_empty="block", faults=faults,
                            timeout_ops=t_ops or 0, timeout_transport=t_tr or 0, channel_lock=True)
    # the driver constructor coerces; put the exact falsy value where the decorator looks
    conn._base_channel_args.timeout_ops = t_ops
    conn._base_transport_args.timeout_transport = t_tr
    t.close_wakes, t.obs = c["close_wakes"], []
    if c["stall"] == "slow":
        t.think = THINK * TICK
    ch = conn.channel
    op = c["op"]
    res = {}

    def call_sync():
        if op == "send_input":
            return ch.send_input(CMD)
        if op == "get_prompt":
            return ch.get_prompt()
        if op == "interact":
            return ch.send_inputs_interact([("clear logging", "[confirm]", False)])
        if op == "auth_telnet":
            return ch.channel_authenticate_telnet(auth_username="admin", auth_password="pw")
        if op == "auth_ssh":
            return ch.channel_authenticate_ssh(auth_password="pw", auth_private_key_passphrase="")
        raise ValueError(op)

    async def arun():
        """the operation, then: which tasks created by it are still pending (after two loop iterations), and — with the
        connection kept (NO_TERMINATE) — does a follow-up read behave like a fresh read (blocks on the silent device)"""
        before_t = set(asyncio.all_tasks())
        try:
            return await call_async()
        finally:
            res["elapsed"] = time.monotonic() - res.get("t0", time.monotonic())
            await asyncio.sleep(0)
            await asyncio.sleep(0)
            me = asyncio.current_task()
            res["tasks_left"] = sorted(getattr(x.get_coro(), "__qualname__", "?") for x in asyncio.all_tasks()
                                       if x not in before_t and x is not me and not x.done())
            if t.isalive() and c["stall"] not in ("never", "slow"):
                try:
                    await asyncio.wait_for(type(t).read.__wrapped__(t), timeout=0.05)
                    res["followup"] = "returned"
                except asyncio.TimeoutError:
                    res["followup"] = "blocks"
                except OSError:
                    res["followup"] = "blocks"        # the rig's read gave up: it was blocked
                except BaseException as e:  # noqa
                    res["followup"] = "raised " + repr(e)

    async def call_async():
        await t.open()
        t.release_at = time.monotonic() + RELEASE * TICK
        res["t0"] = time.monotonic()
        if op == "send_input":
            return await ch.send_input(CMD)
        if op == "get_prompt":
            return await ch.get_prompt()
        if op == "interact":
            return await ch.send_inputs_interact([("clear logging", "[confirm]", False)])
        if op == "auth_telnet":
            return await ch.channel_authenticate_telnet(auth_username="admin", auth_password="pw")
        if op == "auth_ssh":
            return await ch.channel_authenticate_ssh(auth_password="pw", auth_private_key_passphrase="")
        raise ValueError(op)

    def body():
        res["caller"] = _sig_ctx()
        res["t0"] = time.monotonic()
        try:
            if is_async:
                asyncio.run(arun())
            else:
                t.open()
                t.release_at = time.monotonic() + RELEASE * TICK
                res["t0"] = time.monotonic()
                call_sync()
            res["out"], res["msg"], res["exc"] = "ret", None, None
        except ScrapliTimeout as e:
            res["out"], res["msg"], res["exc"] = "timeout", str(e), type(e).__name__
        except BaseException as e:  # noqa
            res["out"], res["msg"], res["exc"] = "error", str(e), type(e).__name__
        res.setdefault("elapsed", time.monotonic() - res["t0"])

    old_nt = Settings.NO_TERMINATE_ON_TIMEOUT
    Settings.NO_TERMINATE_ON_TIMEOUT = bool(c["no_term"])
    try:
        h0 = signal.getsignal(signal.SIGALRM)
        i0 = signal.getitimer(signal.ITIMER_REAL)
        before = set(threading.enumerate())
        with Heartbeat() as hb:
            if c.get("thread") == "other":
                th = threading.Thread(target=body, name="c07-caller")
                th.start()
                th.join()
            else:
                body()
            after_threads = [x.name for x in threading.enumerate() if x not in before and x.name != "c07-heartbeat"]
            h1 = signal.getsignal(signal.SIGALRM)
            i1 = signal.getitimer(signal.ITIMER_REAL)
        res["hb_gap"] = hb.gap
    finally:
        Settings.NO_TERMINATE_ON_TIMEOUT = old_nt
        signal.setitimer(signal.ITIMER_REAL, 0)
        signal.signal(signal.SIGALRM, signal.SIG_DFL)
    caller = res.pop("caller")
    res.pop("t0", None)
    mech_seen = None
    if t.obs:
        x = t.obs[0]
        mech_seen = "asyncio/direct" if is_async else "thread" if x["tid"] != caller["tid"] else "signal" if x["sig_msg"] is not None else "direct"
    lk = ch.channel_lock
    res.update(closed=not t.isalive(), close_calls=sum(1 for x in t.trace if x[0] == "close"), handler_same=h1 is h0,
               itimer_before=i0[0], itimer_after=i1[0], threads_new=after_threads,
               lock_free=(not lk.locked()) if lk is not None else True, mech_seen=mech_seen,
               nreads=sum(1 for x in t.trace if x[0] == "R"))
    return res


# ---- (D) driver operations with the per-call `timeout_ops=` keyword (timeout_modifier over the channel operations)
DRV_OPS = {"generic": ("send_command", "send_commands", "send_interactive", "send_and_read"),
           "cisco_iosxe": ("send_command", "send_commands", "send_config", "send_configs", "send_interactive")}
DRV_CHANNEL_OP = {"send_command": "send_input", "send_commands": "send_input", "send_config": "send_input", "send_configs": "send_input",
                  "send_interactive": "send_inputs_interact", "send_and_read": "send_input_and_read"}


def run_drv_case(c):
    """a public driver operation on the real (Async)GenericDriver / (Async)IOSXEDriver over BlockSim, driver-level
    timeout_ops `t_drv`, keyword `kw` ("absent": not passed, "none": timeout_ops=None, else ticks; 0 spelt c["zero"]).
    The device answers at once (never), is silent for THINK after the command's return and then answers (slow), or is
    silent for good from there (silent).  Observed: outcome, elapsed, the timeout_ops the channel found when the command
    was written, the driver-level value afterwards, closed, process-wide state."""
    from harness.simdevice import CliDevice
    from harness.simtransport import make_conn, named
    from scrapli.exceptions import ScrapliTimeout
    from scrapli.settings import Settings
    BlockSim, ABlockSim = _block_classes()
    is_async = c["stack"] == "async"
    zero = _zero(c.get("zero", "int"))
    t_drv = c["t_drv"] * TICK if c["t_drv"] else zero
    t_tr = c["t_tr"] * TICK if c["t_tr"] else 0
    dev = CliDevice(c["platform"], outputs=lambda m, l: OUTPUT)
    cls = named(ABlockSim if is_async else BlockSim, c["cls"])
    conn, t = make_conn(c["platform"], dev, stack=c["stack"], transport_cls=cls, on_empty="block",
                        timeout_ops=t_drv or 0, timeout_transport=t_tr, channel_lock=True)
    conn._base_channel_args.timeout_ops = t_drv
    t.close_wakes, t.obs, t.seen, t.chan_args, t.think_marker = True, [], [], conn._base_channel_args, CMD.encode()
    t.think = {"never": 0, "slow": THINK * TICK, "silent": 1e9}[c["stall"]]
    kwargs = {}
    if c["kw"] == "none":
        kwargs["timeout_ops"] = None
    elif c["kw"] != "absent":
        kwargs["timeout_ops"] = c["kw"] * TICK if c["kw"] else zero
    op = c["op"]
    args = {"send_command": (CMD,), "send_commands": ([CMD, "show clock"],), "send_config": (CMD,), "send_configs": ([CMD, "show clock"],),
            "send_interactive": ([(CMD, "line three", False)],), "send_and_read": (CMD,)}[op]
    res = {}

    def text(x):
        return x.result if hasattr(x, "result") else "\n".join(y.result for y in x)

    async def arun():
        before_t = set(asyncio.all_tasks())
        await t.open()
        t.release_at = time.monotonic() + RELEASE * TICK
        res["t0"] = time.monotonic()
        try:
            return await getattr(conn, op)(*args, **kwargs)
        finally:
            res["elapsed"] = time.monotonic() - res["t0"]
            await asyncio.sleep(0)
            await asyncio.sleep(0)
            me = asyncio.current_task()
            res["tasks_left"] = sorted(getattr(x.get_coro(), "__qualname__", "?") for x in asyncio.all_tasks()
                                       if x not in before_t and x is not me and not x.done())

    def body():
        res["t0"] = time.monotonic()
        try:
            if is_async:
                out = asyncio.run(arun())
            else:
                t.open()
                t.release_at = time.monotonic() + RELEASE * TICK
                res["t0"] = time.monotonic()
                out = getattr(conn, op)(*args, **kwargs)
            res["out"], res["msg"], res["exc"], res["result_ok"] = "ret", None, None, "line three" in text(out)
        except ScrapliTimeout as e:
            res["out"], res["msg"], res["exc"] = "timeout", str(e), type(e).__name__
        except BaseException as e:  # noqa
            res["out"], res["msg"], res["exc"] = "error", str(e)[:200], type(e).__name__
        res.setdefault("elapsed", time.monotonic() - res["t0"])

    old_nt = Settings.NO_TERMINATE_ON_TIMEOUT
    Settings.NO_TERMINATE_ON_TIMEOUT = False
    try:
        h0 = signal.getsignal(signal.SIGALRM)
        before = set(threading.enumerate())
        with Heartbeat() as hb:
            if c.get("thread") == "other":
                th = threading.Thread(target=body, name="c07-caller")
                th.start()
                th.join()
            else:
                body()
            after_threads = [x.name for x in threading.enumerate() if x not in before and x.name != "c07-heartbeat"]
            h1 = signal.getsignal(signal.SIGALRM)
            i1 = signal.getitimer(signal.ITIMER_REAL)
        res["hb_gap"] = hb.gap
    finally:
        Settings.NO_TERMINATE_ON_TIMEOUT = old_nt
        signal.setitimer(signal.ITIMER_REAL, 0)
        signal.signal(signal.SIGALRM, signal.SIG_DFL)
    res.pop("t0", None)
    lk = conn.channel.channel_lock
    after = conn._base_channel_args.timeout_ops
    res.update(closed=not t.isalive(), handler_same=h1 is h0, itimer_after=i1[0], threads_new=after_threads,
               lock_free=(not lk.locked()) if lk is not None else True,
               seen=[None if x is None else float(x) for x in t.seen], after=None if after is None else float(after),
               after_type=type(after).__name__)
    return res


def drv_eff(c):
    """the PROPERTY's reading: None / not given keeps the driver-level value, anything else is the limit of this call"""
    return c["t_drv"] if c["kw"] in ("absent", "none") else c["kw"]


def drv_oracle(c, r):
    """[(viol, text)] — the property on the real observables of one driver-rig run (never consults the model)"""
    out = []
    eff = drv_eff(c)
    chan = DRV_CHANNEL_OP[c["op"]]
    if r.get("hung"):
        return [("hung", "the driver operation did not come back although every blocked read is released after 1.4 s")]
    seen = r.get("seen") or []
    if any(x is None or abs(x - eff * TICK) > 1e-9 for x in seen):
        out.append(("limit_in_force", f"the operation ran under timeout_ops={seen} — driver-level {c['t_drv'] * TICK:g}, keyword {c['kw']!r}: "
                                      f"the limit in force must be {eff * TICK:g}" + (" (0 = no limit)" if not eff else "")))
    if r.get("after") is None or abs(r["after"] - c["t_drv"] * TICK) > 1e-9:
        out.append(("not_restored", f"driver-level timeout_ops after the call is {r.get('after')!r}, was {c['t_drv'] * TICK:g}"))
    armed = [x for x in (eff, c["t_tr"]) if x]
    tight = TIGHT + 0.1
    el = r["elapsed"]
    if c["stall"] == "never" or (c["stall"] == "slow" and all(x >= THINK + 2 for x in armed)):
        if r["out"] != "ret" or not r.get("result_ok"):
            out.append(("zero_not_disabled" if not eff else "spurious",
                        ("the limit in force is 0 (disabled)" if not eff else f"the limit in force is {eff * TICK:g} s")
                        + (f" and the device answers after {THINK * TICK:g} s of silence" if c["stall"] == "slow" else " and the device answers at once")
                        + f": the operation must complete, got {r['out']} {r.get('exc')} {r.get('msg')!r} after {el:.2f}s"))
        elif c["stall"] == "slow" and el < THINK * TICK - 0.05:
            out.append(("early", "completed faster than the silence of the device: the rig is broken"))
        if r["out"] != "timeout" and r["closed"]:
            out.append(("closed_iff", "transport closed although no ScrapliTimeout was raised"))
    elif armed and (c["stall"] == "silent" or min(armed) <= THINK - 1):
        limit = min(armed) * TICK
        if r["out"] != "timeout" or r.get("exc") != "ScrapliTimeout":
            out.append(("no_timeout", f"the device does not answer within the limit in force ({limit:g} s): no ScrapliTimeout, got {r['out']} {r.get('exc')} after {el:.2f}s"))
        else:
            if el > limit + tight:
                out.append(("late", f"ScrapliTimeout {el:.2f}s after the start, limit in force {limit:g} s"))
            if el < limit - EPS:
                out.append(("early", f"ScrapliTimeout after {el:.2f}s, before the limit in force {limit:g} s"))
            ok_msgs = {ORACLE_MESSAGES[n] for n, x in ((chan, eff), ("read", c["t_tr"])) if x}
            if r["msg"] not in ok_msgs:
                out.append(("message", f"timeout message {r['msg']!r} not in {sorted(ok_msgs)}"))
            if not r["closed"]:
                out.append(("closed_iff", "on timeout the transport must be closed (NO_TERMINATE_ON_TIMEOUT is off)"))
    if not r["handler_same"] or r["itimer_after"]:
        out.append(("handler_not_restored", "SIGALRM handler / timer changed"))
    if r["threads_new"]:
        out.append(("thread_left", f"a worker thread is still running after the call: {r['threads_new']}"))
    if not r["lock_free"]:
        out.append(("lock_left", "the channel lock is still held after the call"))
    if r.get("tasks_left"):
        out.append(("task_left", f"a task created by the operation is still pending: {r['tasks_left']}"))
    return out


# ---- (R) real transports on loopback rigs
def _telnet_server(nopts, hold, banner=b"r1#"):
    ls = socket.socket()
    ls.setsockopt(socket.SOL_SOCKET, socket.SO_REUSEADDR, 1)
    ls.bind(("127.0.0.1", 0))
    ls.listen(1)
    port = ls.getsockname()[1]

    def serve():
        try:
            conn, _ = ls.accept()
            for i in range(nopts):
                conn.send(bytes([255, 253, 30 + i]))
            conn.send(banner)
            end = time.monotonic() + hold
            conn.settimeout(0.05)
            while time.monotonic() < end:
                try:
                    if not conn.recv(4096):
                        break
                except socket.timeout:
                    pass
                except OSError:
                    break
            conn.close()
        finally:
            ls.close()
    th = threading.Thread(target=serve, daemon=True, name="c07-telnet-server")
    th.start()
    return port, th


def run_telnet_case(c):
    """real TelnetTransport / AsynctelnetTransport against a loopback server that prints a prompt and goes silent"""
    from scrapli.exceptions import ScrapliTimeout
    from scrapli.settings import Settings
    is_async = c["stack"] == "async"
    port, srv = _telnet_server(c.get("nopts", 3), c.get("hold", 4.0))
    res = {}
    old_nt = Settings.NO_TERMINATE_ON_TIMEOUT
    Settings.NO_TERMINATE_ON_TIMEOUT = bool(c["no_term"])
    kw = dict(host="127.0.0.1", port=port, auth_bypass=True, timeout_ops=c["t_ops"], timeout_transport=c["t_tr"],
              timeout_socket=c["t_sock"], comms_prompt_pattern=r"^r1#\s*$", channel_lock=True)
    before = set(threading.enumerate())
    conn = None
    try:
        with Heartbeat() as hb:
            if is_async:
                from scrapli.driver import AsyncGenericDriver
                conn = AsyncGenericDriver(transport="asynctelnet", **kw)

                async def go():
                    await conn.transport.open()
                    await asyncio.sleep(0.15)
                    await conn.channel.read()
                    before_t = set(asyncio.all_tasks())
                    res["t0"] = time.monotonic()
                    try:
                        await conn.channel.send_input(CMD)
                    finally:
                        res["elapsed"] = time.monotonic() - res["t0"]
                        await asyncio.sleep(0)
                        await asyncio.sleep(0)
                        me = asyncio.current_task()
                        res["tasks_left"] = sorted(getattr(x.get_coro(), "__qualname__", "?") for x in asyncio.all_tasks()
                                                   if x not in before_t and x is not me and not x.done())
                        if conn.transport.isalive():
                            try:
                                await asyncio.wait_for(type(conn.transport).read.__wrapped__(conn.transport), timeout=0.05)
                                res["followup"] = "returned"
                            except asyncio.TimeoutError:
                                res["followup"] = "blocks"
                            except BaseException as e:  # noqa
                                res["followup"] = "raised " + repr(e)
                runner = lambda: asyncio.run(go())  # noqa
            else:
                from scrapli.driver import GenericDriver
                conn = GenericDriver(transport="telnet", **kw)

                def runner():
                    conn.transport.open()
                    time.sleep(0.15)
                    conn.channel.read()
                    res["t0"] = time.monotonic()
                    conn.channel.send_input(CMD)
            try:
                runner()
                res["out"], res["msg"], res["exc"] = "ret", None, None
            except ScrapliTimeout as e:
                res["out"], res["msg"], res["exc"] = "timeout", str(e), type(e).__name__
            except BaseException as e:  # noqa
                res["out"], res["msg"], res["exc"] = "error", repr(e), type(e).__name__
            res.setdefault("elapsed", time.monotonic() - res.get("t0", time.monotonic()))
            res["closed"] = not conn.transport.isalive()
            res["threads_new"] = [x.name for x in threading.enumerate()
                                  if x not in before and x.name not in ("c07-heartbeat", "c07-telnet-server")]
            lk = conn.channel.channel_lock
            res["lock_free"] = (not lk.locked()) if lk is not None else True
            res["handler_same"] = signal.getsignal(signal.SIGALRM) is signal.SIG_DFL
            res["itimer_after"] = signal.getitimer(signal.ITIMER_REAL)[0]
        res["hb_gap"] = hb.gap
    finally:
        Settings.NO_TERMINATE_ON_TIMEOUT = old_nt
        try:
            if conn is not None and not is_async:
                conn.transport.close()
        except Exception:  # noqa
            pass
    res.pop("t0", None)
    return res


FAKE_SSH = """#!/bin/sh
printf 'r1#'
while IFS= read -r line; do
  case "$line" in *silent*) sleep 30;; esac
  printf 'out\\nr1#'
done
"""


def run_pty_case(c):
    """real SystemTransport (pty) with a fake `ssh` first on PATH that goes silent on a command"""
    import tempfile
    from scrapli.driver import GenericDriver
    from scrapli.exceptions import ScrapliTimeout
    from scrapli.settings import Settings
    d = tempfile.mkdtemp(prefix="c07ssh")
    p = Path(d) / "ssh"
    p.write_text(FAKE_SSH)
    p.chmod(0o755)
    old_path = os.environ["PATH"]
    os.environ["PATH"] = d + ":" + old_path
    old_nt = Settings.NO_TERMINATE_ON_TIMEOUT
    Settings.NO_TERMINATE_ON_TIMEOUT = bool(c["no_term"])
    res = {}
    before = set(threading.enumerate())
    conn = GenericDriver(host="dev", transport="system", auth_bypass=True, timeout_ops=c["t_ops"], timeout_transport=c["t_tr"],
                         comms_prompt_pattern=r"^r1#\s*$", channel_lock=True)
    try:
        with Heartbeat() as hb:
            conn.transport.open()
            # NOT get_prompt(): its return makes the fake device print a second prompt that, under load, can arrive after
            # the echo of the command below and be taken for the command's prompt.  Wait for the banner and consume it.
            time.sleep(0.3)
            conn.channel.read()
            t0 = time.monotonic()
            try:
                conn.channel.send_input(c.get("cmd", "go silent"))
                res["out"], res["msg"], res["exc"] = "ret", None, None
            except ScrapliTimeout as e:
                res["out"], res["msg"], res["exc"] = "timeout", str(e), type(e).__name__
            except BaseException as e:  # noqa
                res["out"], res["msg"], res["exc"] = "error", repr(e), type(e).__name__
            res["elapsed"] = time.monotonic() - t0
            res["closed"] = not conn.transport.isalive()
            res["threads_new"] = [x.name for x in threading.enumerate() if x not in before and x.name != "c07-heartbeat"]
            res["lock_free"] = not conn.channel.channel_lock.locked()
            res["handler_same"] = signal.getsignal(signal.SIGALRM) is signal.SIG_DFL
            res["itimer_after"] = signal.getitimer(signal.ITIMER_REAL)[0]
        res["hb_gap"] = hb.gap
    finally:
        Settings.NO_TERMINATE_ON_TIMEOUT = old_nt
        os.environ["PATH"] = old_path
        try:
            conn.transport.close()
        except Exception:  # noqa
            pass
    return res


def run_probe_case(c):
    """MEASURE the per-transport boolean of the model: does close() end a read that another thread is blocked in.
    The undecorated read (`read.__wrapped__`) is called in a thread; close() from the main thread 0.3 s later."""
    import tempfile
    from scrapli.driver import GenericDriver
    if c["transport"] == "telnet":
        port, srv = _telnet_server(3, 3.0)
        conn = GenericDriver(host="127.0.0.1", port=port, transport="telnet", auth_bypass=True, timeout_ops=0, timeout_transport=0,
                             timeout_socket=2.0, comms_prompt_pattern=r"^r1#\s*$")
        old_path = None
    else:
        d = tempfile.mkdtemp(prefix="c07ssh")
        pth = Path(d) / "ssh"
        pth.write_text(FAKE_SSH)
        pth.chmod(0o755)
        old_path = os.environ["PATH"]
        os.environ["PATH"] = d + ":" + old_path
        conn = GenericDriver(host="dev", transport="system", auth_bypass=True, timeout_ops=0, timeout_transport=0,
                             comms_prompt_pattern=r"^r1#\s*$")
    try:
        conn.transport.open()
        time.sleep(0.2)
        conn.channel.read()        # the prompt
        raw_read = type(conn.transport).read.__wrapped__
        done = {}

        def w():
            try:
                done["r"] = repr(raw_read(conn.transport))
            except BaseException as e:  # noqa
                done["r"] = repr(e)
            done["t"] = time.monotonic()
        th = threading.Thread(target=w, name="c07-probe-reader", daemon=True)
        th.start()
        time.sleep(0.3)
        blocked = th.is_alive()
        t0 = time.monotonic()
        conn.transport.close()
        t_close = time.monotonic() - t0
        th.join(1.0)
        woke = not th.is_alive()
        return {"blocked": blocked, "close_wakes": woke, "wake_s": (done["t"] - t0) if woke else None, "close_s": t_close, "read_result": done.get("r")}
    finally:
        if old_path is not None:
            os.environ["PATH"] = old_path


def run_race_case(c):
    """the alarm delivered INSIDE the wrapper's own `finally`: a trace function sees the first `setitimer(ITIMER_REAL, 0)`
    line of the sync decorate about to run (the wrapped call has returned) and makes the timer expire at that very
    moment (disarm + raise_signal: a one-shot timer that has just fired).  Deterministic stand-in for "the call returns
    on the tick of its deadline"."""
    import inspect
    from scrapli import decorators
    from scrapli.decorators import timeout_wrapper
    from scrapli.exceptions import ScrapliTimeout
    from scrapli.settings import Settings
    # the disarming line(s), wherever the signal block lives: timeout_wrapper itself or a module-level helper it was moved into
    src, start = inspect.getsourcelines(decorators)
    lines = [max(start, 1) + i for i, l in enumerate(src) if "setitimer(signal.ITIMER_REAL,0)" in l.replace(" ", "")]
    if not lines:
        return {"harness_error": "no `setitimer(signal.ITIMER_REAL, 0)` line found in scrapli/decorators.py"}
    dec_file = decorators.__file__
    T = type("ParamikoTransport", (RigTransportBase,), {})(True, time.monotonic() + 5)

    def f(self_):
        if c.get("work"):
            time.sleep(c["work"] * TICK)
        return "r1#"
    f.__name__ = f.__qualname__ = c["name"]
    obj = SimpleNamespace(transport=T, logger=T.logger, _base_channel_args=SimpleNamespace(timeout_ops=c["t"] * TICK))
    dec = timeout_wrapper(f)
    fired, alarms, res = [], [], {}

    def tracer(frame, event, arg):
        if frame.f_code.co_filename != dec_file:
            return None

        def local(frame, event, arg):
            if event == "line" and frame.f_lineno in lines and not fired:
                fired.append(frame.f_lineno)
                signal.setitimer(signal.ITIMER_REAL, 0)
                signal.raise_signal(signal.SIGALRM)
            return local
        return local
    old_nt = Settings.NO_TERMINATE_ON_TIMEOUT
    Settings.NO_TERMINATE_ON_TIMEOUT = bool(c["no_term"])
    user = lambda *a: alarms.append(1)  # noqa
    try:
        signal.signal(signal.SIGALRM, user)
        if c.get("pre_timer"):
            signal.setitimer(signal.ITIMER_REAL, c["pre_timer"])
        t0 = time.monotonic()
        sys.settrace(tracer)
        try:
            dec(obj)
            res["out"], res["msg"], res["exc"] = "ret", None, None
        except ScrapliTimeout as e:
            res["out"], res["msg"], res["exc"] = "timeout", str(e), type(e).__name__
        except BaseException as e:  # noqa
            res["out"], res["msg"], res["exc"] = "error", str(e), type(e).__name__
        finally:
            sys.settrace(None)
        res["elapsed"] = time.monotonic() - t0
        h1 = signal.getsignal(signal.SIGALRM)
        res.update(injected=bool(fired), handler_same=h1 is user, handler_is_scrapli=isinstance(h1, functools.partial),
                   itimer_after=signal.getitimer(signal.ITIMER_REAL)[0], closed=T.closed, close_calls=T.close_calls)
    finally:
        Settings.NO_TERMINATE_ON_TIMEOUT = old_nt
        signal.setitimer(signal.ITIMER_REAL, 0)
        signal.signal(signal.SIGALRM, signal.SIG_DFL)
    return res


def _think_server(nopts, think):
    """loopback telnet device: negotiates `nopts` options, is silent for `think`, prints the prompt; echoes what it is
    sent and, on every return, is silent for `think` again before it prints the output and the prompt"""
    ls = socket.socket()
    ls.setsockopt(socket.SOL_SOCKET, socket.SO_REUSEADDR, 1)
    ls.bind(("127.0.0.1", 0))
    ls.listen(1)
    port = ls.getsockname()[1]

    def serve():
        try:
            conn, _ = ls.accept()
            for i in range(nopts):
                conn.send(bytes([255, 253, 30 + i]))
            time.sleep(think)
            conn.send(b"r1#")
            conn.settimeout(8)
            while True:
                d = conn.recv(4096)
                if not d:
                    break
                out, i = bytearray(), 0
                while i < len(d):
                    if d[i] == 255:
                        i += 3
                        continue
                    b = d[i]
                    i += 1
                    if b == 10:
                        conn.send(bytes(out))
                        out.clear()
                        time.sleep(think)
                        conn.send(b"\nout\nr1#")
                    elif b != 13:
                        out.append(b)
                if out:
                    conn.send(bytes(out))
            conn.close()
        except OSError:
            pass
        finally:
            ls.close()
    threading.Thread(target=serve, daemon=True, name="c07-telnet-server").start()
    return port


SLOW_SSH = """#!/bin/sh
printf 'r1#'
while IFS= read -r line; do
  sleep 0.3
  printf 'out\nr1#'
done
"""


def run_slow_case(c):
    """REAL transports, device silent for a while and then it answers: with every configured limit either 0 (disabled) or
    far longer than the silence, get_prompt + send_input must complete.  telnet/asynctelnet with 0, 10, 12 negotiated
    options (the sync transport changes its socket timeout once more than 10 were answered); system = pty + a slow fake ssh"""
    import tempfile
    from scrapli.settings import Settings
    kind = c["transport"]
    kw = dict(auth_bypass=True, timeout_ops=c["t_ops"], timeout_transport=c["t_tr"], timeout_socket=c["t_sock"],
              comms_prompt_pattern=r"^r1#\s*$")
    res, conn, old_path = {}, None, None
    t0 = time.monotonic()
    try:
        if kind in ("telnet", "asynctelnet"):
            port = _think_server(c["nopts"], c["think"])
            kw.update(host="127.0.0.1", port=port, transport=kind)
        else:
            d = tempfile.mkdtemp(prefix="c07ssh")
            pth = Path(d) / "ssh"
            pth.write_text(SLOW_SSH)
            pth.chmod(0o755)
            old_path = os.environ["PATH"]
            os.environ["PATH"] = d + ":" + old_path
            kw.update(host="dev", transport="system")
        if kind == "asynctelnet":
            from scrapli.driver import AsyncGenericDriver
            conn = AsyncGenericDriver(**kw)
            conn._base_channel_args.timeout_ops = c["t_ops"]

            async def go():
                await conn.transport.open()
                p = await conn.channel.get_prompt()
                r = await conn.channel.send_input(CMD)
                return p, r[1]
            p, r = asyncio.run(go())
        else:
            from scrapli.driver import GenericDriver
            conn = GenericDriver(**kw)
            conn._base_channel_args.timeout_ops = c["t_ops"]
            conn.transport.open()
            p = conn.channel.get_prompt()
            r = conn.channel.send_input(CMD)[1]
        res.update(out="ret", prompt=p, result=r.decode("utf-8", "replace"), exc=None, msg=None)
    except BaseException as e:  # noqa
        res.update(out="error", exc=type(e).__name__, msg=str(e)[:200])
    finally:
        res["elapsed"] = time.monotonic() - t0
        if old_path is not None:
            os.environ["PATH"] = old_path
        try:
            if conn is not None:
                conn.transport.close()
        except Exception:  # noqa
            pass
    return res


def run_select_case(c):
    """which mechanism does the real decorator use for an instantly returning function (no timing)"""
    from scrapli import decorators
    from scrapli.decorators import timeout_wrapper
    base = type(c["base"], (RigTransportBase,), {}) if c.get("base") else RigTransportBase   # user subclass of a named transport
    T = type(c["cls"], (base,), {})(True, time.monotonic() + 5)
    tv = c["t"] * TICK if c["t"] else _zero(c.get("zero", "int"))
    obj = SimpleNamespace(transport=T, logger=T.logger, _base_channel_args=SimpleNamespace(timeout_ops=tv))
    seen = {}
    old_win = decorators._IS_WINDOWS
    decorators._IS_WINDOWS = bool(c["windows"])
    try:
        if c["co"]:
            async def get_prompt(self_):
                seen.update(_sig_ctx())
                seen["task_timeout"] = True
            def body():
                seen["caller"] = _sig_ctx()
                orig = asyncio.wait_for
                used = []

                async def spy(aw, timeout=None, **kw):
                    used.append(timeout)
                    return await orig(aw, timeout=timeout, **kw)
                asyncio.wait_for = spy
                try:
                    asyncio.run(timeout_wrapper(get_prompt)(obj))
                finally:
                    asyncio.wait_for = orig
                seen["wait_for"] = bool(used)
        else:
            def get_prompt(self_):
                seen.update(_sig_ctx())
            def body():
                seen["caller"] = _sig_ctx()
                try:
                    timeout_wrapper(get_prompt)(obj)
                except BaseException as e:  # noqa
                    seen["raised"] = repr(e)
        if c["main"]:
            body()
        else:
            th = threading.Thread(target=body)
            th.start()
            th.join()
    finally:
        decorators._IS_WINDOWS = old_win
        signal.setitimer(signal.ITIMER_REAL, 0)
        signal.signal(signal.SIGALRM, signal.SIG_DFL)
    if seen.get("raised") or "tid" not in seen:
        mech = "raised " + str(seen.get("raised"))
    elif c["co"]:
        mech = "asyncio" if seen.get("wait_for") else "direct"
    elif seen["tid"] != seen["caller"]["tid"]:
        mech = "thread"
    elif seen["sig_msg"] is not None and seen["armed"]:
        mech = "signal"
    else:
        mech = "direct"
    return {"mech": mech, "h_after_dfl": signal.getsignal(signal.SIGALRM) is signal.SIG_DFL}


def run_case(c):
    kind = c["kind"]
    if kind == "prog":
        return run_prog_case(c)
    if kind == "stack":
        return run_stack_case(c)
    if kind == "telnet":
        return run_telnet_case(c)
    if kind == "pty":
        return run_pty_case(c)
    if kind == "select":
        return run_select_case(c)
    if kind == "probe":
        return run_probe_case(c)
    if kind == "race":
        return run_race_case(c)
    if kind == "slow":
        return run_slow_case(c)
    if kind == "drv":
        return run_drv_case(c)
    raise ValueError(kind)


def worker_main():
    sys.path.insert(0, str(VERIF / "tools"))
    from vlib import common
    common.use_repo()
    logging.getLogger("scrapli").setLevel(logging.CRITICAL + 1)
    logging.getLogger("scrapli").addHandler(logging.NullHandler())
    logging.getLogger("scrapli").propagate = False
    for line in sys.stdin:
        line = line.strip()
        if not line:
            continue
        c = json.loads(line)
        try:
            r = run_case(c)
        except BaseException as e:  # noqa
            import traceback
            r = {"harness_error": repr(e), "tb": traceback.format_exc()[-1500:]}
        sys.stdout.write(json.dumps(r) + "\n")
        sys.stdout.flush()


# =====================================================================================================
# PARENT SIDE
# =====================================================================================================
def run_workers(cases, nproc, per_case_timeout=8.0):
    """run every case in worker subprocesses (round robin); returns list of results (None = worker died / hung)"""
    results = [None] * len(cases)
    if not cases:
        return results
    nproc = max(1, min(nproc, len(cases)))
    buckets = [list(range(i, len(cases), nproc)) for i in range(nproc)]
    env = dict(os.environ)
    env["PYTHONPATH"] = str(VERIF / "tools") + os.pathsep + env.get("PYTHONPATH", "")

    def drive(idx_list):
        p = subprocess.Popen([sys.executable, str(Path(__file__).resolve()), "--worker"], stdin=subprocess.PIPE,
                             stdout=subprocess.PIPE, stderr=subprocess.DEVNULL, text=True, env=env)
        try:
            for i in idx_list:
                p.stdin.write(json.dumps(cases[i]) + "\n")
                p.stdin.flush()
                box = {}

                def rd():
                    box["line"] = p.stdout.readline()
                th = threading.Thread(target=rd, daemon=True)
                th.start()
                th.join(cases[i].get("hard_timeout", per_case_timeout))
                if th.is_alive() or not box.get("line"):
                    results[i] = {"hung": True}
                    p.kill()
                    p.wait()
                    # remaining cases of this bucket in a new worker
                    rest = idx_list[idx_list.index(i) + 1:]
                    if rest:
                        drive(rest)
                    return
                results[i] = json.loads(box["line"])
        finally:
            try:
                p.stdin.close()
            except Exception:  # noqa
                pass
            try:
                p.wait(timeout=5)
            except Exception:  # noqa
                p.kill()
    ths = [threading.Thread(target=drive, args=(b,)) for b in buckets if b]
    for t in ths:
        t.start()
    for t in ths:
        t.join()
    return results


def model_line(c):
    """the model request for a prog/stack case"""
    mech = c["mech"]
    prog = dehang(c["prog"], 0, c.get("release", RELEASE))
    timer = "-" if not c.get("pre_timer") else str(int(round(c["pre_timer"] / TICK)))
    return " ".join(["run", mech, "1" if c["no_term"] else "0", "1" if c["close_wakes"] else "0", "u0", timer, "0", "0"] + prog_tokens(prog))


def parse_model(line):
    d = dict(f.split("=", 1) for f in line.split(" "))
    out = d["out"]
    msg = None
    if out.startswith("timeout:"):
        msg = bytes.fromhex(out[8:]).decode()
        out = "timeout"
    acts = [] if d["acts"] == "." else [a.split(":") for a in d["acts"].split(";")]
    return {"fin": None if d["fin"] == "inf" else int(d["fin"]), "out": out, "msg": msg, "closed": d["closed"] == "1",
            "handler": d["handler"], "timer": None if d["timer"] == "-" else int(d["timer"]), "acts": acts}


def pending(m, tasks_only=False):
    """tasks / workers started by the time the call is over and not finished then.  tasks_only: count only the
    awaitables that are Task objects on this interpreter — since Python 3.12 asyncio.wait_for awaits its coroutine
    inside the calling task (asyncio.timeout) instead of wrapping it in a Task; the model records both kinds"""
    if m["fin"] is None:
        return 0
    return sum(1 for a in m["acts"] if int(a[1]) <= m["fin"] and (a[2] == "inf" or int(a[2]) > m["fin"])
               and (not tasks_only or sys.version_info < (3, 12) or a[0] == "task"))


def expected_mech(c):
    """the property's own table: asyncio for coroutines; worker thread for system/telnet transports or a non-main
    thread; signal otherwise; timeout 0 => direct"""
    if c["kind"] == "select":
        co, cls, main, t, win = c["co"], c["cls"], c["main"], c["t"], c["windows"]
    else:
        co, cls, main, win = c["mech"] == "asyncio", c["cls"], c.get("thread") != "other", False
        t = c.get("t_top", 1)
    if not t:
        return "direct"
    if co:
        return "asyncio"
    if cls in THREAD_NAMES or win or not main:
        return "thread"
    return "signal"


def stack_prog(c, nreads):
    """the Prog the model runs for a stack case: the operation over nreads completed reads and one blocked read"""
    name = {"send_input": "send_input", "get_prompt": "get_prompt", "interact": "send_inputs_interact",
            "auth_telnet": "channel_authenticate_telnet", "auth_ssh": "channel_authenticate_ssh"}[c["op"]]
    t_tr = c["t_tr"]
    if c["stack"] == "async" and c["op"] == "auth_telnet" and c["t_ops"]:
        t_tr = 0      # async telnet auth polls the read with its own wait_for(timeout_ops/20): the read's limit never fires
                      # (timeout_ops 0: it polls without a limit, the read's own limit applies)
    tail = ["ret"] if c["stall"] == "never" else ["call", t_tr, "read", ["hang"], ["ret"]]
    if c["stall"] == "slow":      # the reads before the return are immediate, the one after it takes THINK
        tail = ["call", t_tr, "read", ["work", THINK, ["ret"]], ["ret"]]
        nreads = {"send_input": 1, "get_prompt": 0}[c["op"]]
    body = tail
    for _ in range(nreads):
        body = ["call", t_tr, "read", ["work", 0, ["ret"]], body]
    return ["call", c["t_ops"], name, body, ["ret"]], name


def matcher(case):
    """narrow predicates of the open findings (findings/C07.json)"""
    v = case.get("viol")
    mech = case.get("mech")
    if v == "late" and case.get("kind") == "telnet" and case.get("stack") == "sync" and not case.get("no_term"):
        # F17: real TelnetTransport, worker thread blocked in recv() which close() does not wake: bounded by the
        # socket timeout (or the peer closing) instead of the configured timeout
        el = case.get("elapsed", 0)
        bound = max(case.get("t_sock", 0), case.get("hold", 0)) + 1.0
        return "F17" if el <= bound else None
    if v == "late" and mech == "thread" and case.get("no_term"):
        return "F17-noterm"   # nothing wakes the worker when termination is off: the pool exit joins it
    if v == "hung" and mech == "thread" and case.get("no_term") and case.get("kind") == "pty":
        return "F17-noterm"
    if v == "itimer_not_restored" and mech == "signal" and case.get("pre_timer"):
        return "F18"          # previously armed ITIMER_REAL left disarmed
    if v in ("no_timeout", "closed_iff") and mech == "signal" and case.get("real_transport") in ("paramiko", "ssh2") \
            and case.get("exc") == "ScrapliConnectionError" and case.get("out", "error") == "error":
        return "F24-lib-read-swallows-timeout"   # `except Exception` around recv turns the handler's ScrapliTimeout into a connection error
    if v == "epilogue_race" and case.get("kind") == "race":
        return "F25-epilogue-race"   # alarm inside the wrapper's own finally: restore skipped
    if v in ("late", "no_timeout") and mech == "signal" and case.get("nested_armed"):
        return "F18-nested"   # the inner wrapper's setitimer replaces / its finally disarms the outer timer
    return None


def load_own_findings(ck):
    f = VERIF / "findings" / "C07.json"
    if f.exists():
        mine = json.load(open(f))
        have = {x["id"]: x for x in ck.findings}
        for x in mine:
            if x["id"] not in have:
                ck.findings.append(x)
            elif x.get("status") == "fixed":      # a fix recorded here wins over a stale "open" copy
                have[x["id"]]["status"] = "fixed"


def is_open(ck, fid):
    return any(f["id"] == fid and f.get("status") == "open" for f in ck.findings)


# ---- case generation
def gen_prog(rng, depth, budget, top, spawn=False):
    """random program; budget = remaining natural ticks; spawn: asyncio programs may start tasks"""
    r = rng.random()
    if spawn and depth > 0 and rng.random() < 0.25:
        body = gen_prog(rng, depth - 1, budget, False, spawn)
        d, o = natural(body)
        cont = gen_prog(rng, depth - 1, budget - (d or 0), False, spawn) if (o == "ret" and rng.random() < 0.4) else ["ret"]
        return ["spawn", body, cont]
    if budget <= 0 or r < 0.18:
        return rng.choice([["ret"], ["ret"], ["raise"], ["hang"]])
    if r < 0.5 or depth == 0:
        d = rng.choice([1, 2, 3, 4])
        return ["work", d, gen_prog(rng, depth, budget - d, top)]
    t = rng.choice([0, 2, 2, 5, 5])
    name = rng.choice(CHANNEL_OPS) if top else rng.choice(["read", "read", "read", "foo"])
    body = gen_prog(rng, depth - 1, budget, False)
    d, o = natural(body)
    cont = gen_prog(rng, depth if top else depth - 1, budget - (d or 0), top) if (o == "ret" and rng.random() < 0.35) else ["ret"]
    return ["call", t, name, body, cont]


def prog_cases(rng, n):
    out = []
    confs = [("signal", "ParamikoTransport", "main"), ("signal", "Ssh2Transport", "main"), ("thread", "SystemTransport", "main"),
             ("thread", "TelnetTransport", "main"), ("thread", "ParamikoTransport", "other"), ("asyncio", "AsyncsshTransport", "main"),
             ("asyncio", "AsynctelnetTransport", "main")]
    tries = 0
    while len(out) < n and tries < n * 30:
        tries += 1
        mech, cls, thread = confs[len(out) % len(confs)]
        t = rng.choice([0, 2, 5, 5])
        body = gen_prog(rng, 2, 7, False, spawn=(mech == "asyncio" and rng.random() < 0.5))
        cont = ["ret"]
        if rng.random() < 0.2 and natural(body)[1] == "ret":
            cont = ["call", rng.choice([0, 2, 5]), rng.choice(CHANNEL_OPS), gen_prog(rng, 1, 4, False), ["ret"]]
        prog = ["call", t, rng.choice(CHANNEL_OPS), body, cont]
        c = {"kind": "prog", "mech": mech, "cls": cls, "thread": thread, "no_term": rng.random() < 0.4,
             "close_wakes": True if mech != "thread" else rng.random() < 0.7, "prog": prog,
             "zero": rng.choice(["int", "float", "none"]), "t_top": t}
        if thread == "main" and mech in ("signal", "thread") and rng.random() < (0.45 if mech == "signal" else 0.15):
            # the user's own alarm (handler that returns) is pending when the operation starts: far away, or due
            # during the operation (signal mechanism only: under the thread mechanism nothing touches it)
            c["pre_timer"] = 30.0 if mech == "thread" else rng.choice([30.0, 0.15, 0.35, 0.65])
        out.append(c)
    return out


def stack_cases(rng, tier):
    confs = [("sync", "signal", "ParamikoTransport", "main"), ("sync", "thread", "SystemTransport", "main"),
             ("sync", "thread", "TelnetTransport", "main"), ("sync", "thread", "Ssh2Transport", "other"),
             ("async", "asyncio", "AsyncsshTransport", "main")]
    ops = [("send_input", "before_echo"), ("send_input", "mid_echo"), ("send_input", "mid_output"), ("send_input", "before_prompt"),
           ("get_prompt", "before_echo"), ("interact", "natural"), ("auth_telnet", "auth"), ("auth_ssh", "auth"),
           ("send_input", "never"), ("send_input", "slow"), ("get_prompt", "slow")]
    touts = [(0, 0), (0, 2), (0, 5), (2, 0), (2, 2), (2, 5), (5, 0), (5, 2), (5, 5)]
    allc = []
    for (stack, mech, cls, thread), (op, stall), (t_ops, t_tr), nt in itertools.product(confs, ops, touts, (False, True)):
        allc.append({"kind": "stack", "stack": stack, "mech": mech, "cls": cls, "thread": thread, "op": op, "stall": stall,
                     "t_ops": t_ops, "t_tr": t_tr, "no_term": nt, "close_wakes": True, "zero": rng.choice(["int", "float"]),
                     "t_top": t_ops})
    lib = [{"kind": "stack", "stack": "sync", "mech": mech, "cls": "ParamikoTransport", "thread": thread, "op": "get_prompt",
            "stall": "before_echo", "t_ops": t_ops, "t_tr": 0, "no_term": nt, "close_wakes": True, "zero": "int", "t_top": t_ops,
            "real_transport": "paramiko"}
           for (mech, thread), t_ops, nt in itertools.product((("signal", "main"), ("thread", "other")), (2, 5), (False, True))]
    # "a timeout of 0 disables the limit", per mechanism and per level: the device is silent for a while and then answers;
    # the operation must complete whenever every armed limit is longer than the silence
    lib += [{"kind": "stack", "stack": stack, "mech": mech, "cls": cls, "thread": thread, "op": op, "stall": "slow", "t_ops": t_ops,
             "t_tr": t_tr, "no_term": False, "close_wakes": True, "zero": z, "t_top": t_ops}
            for (stack, mech, cls, thread) in confs for op, (t_ops, t_tr), z in
            (("send_input", (0, 0), "int"), ("send_input", (0, 5), "float"), ("send_input", (5, 0), "float"), ("get_prompt", (5, 0), "int"))]
    if tier == "thorough":
        extra = list(lib)
        for c in allc:
            if c["mech"] == "thread" and not c["no_term"] and c["stall"] != "never" and rng.random() < 0.15:
                extra.append({**c, "close_wakes": False})
        return allc + extra
    # quick: a covering sample — every (conf, op/stall) pair once, every (conf, timeouts, no_term) once
    pick, seen1, seen2 = [], set(), set()
    rng.shuffle(allc)
    for c in allc:
        k1 = (c["mech"], c["cls"], c["op"], c["stall"])
        k2 = (c["mech"], c["cls"], c["t_ops"], c["t_tr"], c["no_term"])
        if k1 not in seen1 or (k2 not in seen2 and len(pick) < 70):
            seen1.add(k1)
            seen2.add(k2)
            pick.append(c)
    return pick[:80] + lib


DRV_CONFS = [("sync", "signal", "ParamikoTransport", "main"), ("sync", "thread", "SystemTransport", "main"),
             ("sync", "thread", "TelnetTransport", "main"), ("sync", "thread", "Ssh2Transport", "other"),
             ("async", "asyncio", "AsyncsshTransport", "main")]


def drv_cases(rng, tier):
    """(D) every public driver operation that takes `timeout_ops=` x mechanism configuration x driver-level timeout_ops
    {0, 0.2, 0.5} x keyword {not given, None, 0, 0.0, 0.2, 0.5, 0.8} on a device that answers at once (exhaustive: which
    limit is in force / is the driver-level value back), plus timed runs on a slow-but-answering and on a silent device"""
    out = []
    pairs = [(pl, op) for pl, ops in DRV_OPS.items() for op in ops]
    kws = [("absent", "int"), ("none", "int"), (0, "int"), (0, "float"), (2, "int"), (5, "int"), (8, "int")]
    for (stack, mech, cls, thread), (pl, op), t_drv, (kw, z) in itertools.product(DRV_CONFS, pairs, (0, 2, 5), kws):
        out.append({"kind": "drv", "stack": stack, "mech": mech, "cls": cls, "thread": thread, "platform": pl, "op": op, "t_drv": t_drv,
                    "kw": kw, "zero": z if (kw == 0 or t_drv) else rng.choice(["int", "float"]), "t_tr": 0, "stall": "never"})
    timed = [(2, 0, 0, "slow"),           # keyword 0 over a positive driver-level value: no limit for this call
             (0, "absent", 0, "slow"),    # driver-level 0: no limit
             (2, 8, 0, "slow"),           # keyword larger than the driver-level value: completes
             (8, 2, 0, "slow"),           # keyword smaller: times out at the keyword's value
             (0, 2, 0, "silent"),         # positive keyword over a disabled driver-level limit
             (5, 2, 0, "silent"), (2, 5, 0, "silent"), (2, "none", 0, "silent"), (2, "absent", 0, "silent"),
             (2, 0, 5, "slow"),           # ops disabled by the keyword, transport limit longer than the silence
             (0, 0, 2, "silent")]         # ops disabled twice: the transport read's own limit remains
    for (stack, mech, cls, thread), (pl, op) in itertools.product(DRV_CONFS, pairs):
        sel = timed if tier == "thorough" else [timed[0]] + rng.sample(timed[1:], 3)
        for t_drv, kw, t_tr, stall in sel:
            if mech == "signal" and (t_tr or (op == "send_and_read" and stall != "never")):
                # a decorated read armed under the signal mechanism (send_and_read arms the read with int(read_duration)):
                # finding F18-nested, not reachable with the in-tree transports — covered by the program rig
                continue
            if op == "send_and_read" and t_tr:
                # send_and_read replaces timeout_transport by int(read_duration) (2 s) while it reads: the configured
                # transport limit is not the one in force there (C02 / C14's ground); the rig's read gives up after 1.4 s
                continue
            out.append({"kind": "drv", "stack": stack, "mech": mech, "cls": cls, "thread": thread, "platform": pl, "op": op, "t_drv": t_drv,
                        "kw": kw, "zero": rng.choice(["int", "float"]), "t_tr": t_tr, "stall": stall})
    return out


def drv_model_lines(c):
    v = "async" if c["stack"] == "async" else "sync"
    kw = "-" if c["kw"] in ("absent", "none") else str(c["kw"])
    tail = {"never": ["ret"], "slow": ["call", c["t_tr"], "read", ["work", THINK, ["ret"]], ["ret"]],
            "silent": ["call", c["t_tr"], "read", ["hang"], ["ret"]]}[c["stall"]]
    body = dehang(tail, 0, RELEASE)
    return [f"mod {v} {c['t_drv']} {kw}",
            " ".join(["modop", v, str(c["t_drv"]), kw, c["mech"], "0", "1", DRV_CHANNEL_OP[c["op"]]] + prog_tokens(body))]


def evaluate_drv(ck, cases, results, mo):
    """(a) model (modifier / modifiedOp with the GENERATED shapes) vs the real run; (b) drv_oracle"""
    for i, (c, r) in enumerate(zip(cases, results)):
        case = {k: v for k, v in c.items() if k not in ("hard_timeout", "note", "finding")}
        eff = drv_eff(c)
        if r is None or r.get("harness_error"):
            raise_harness(ck, f"driver rig failed on {case}: {r}")
            continue
        timing = c["stall"] != "never"
        attempts = [r]
        m = None
        if mo is not None:
            m = parse_model(mo[2 * i + 1].split(" ", 1)[1])

        def time_off(rr):
            """model time vs the run (send_and_read re-arms the read underneath with int(read_duration): C02/C14's ground)"""
            return bool(timing and m is not None and m["fin"] is not None and not rr.get("hung") and c["op"] != "send_and_read"
                        and timing_ok(rr["elapsed"], m["fin"] * TICK, TIGHT + 0.1) != "ok")
        viols = drv_oracle(c, r)
        TIMING = ("late", "early", "no_timeout", "spurious", "zero_not_disabled", "hung", "message", "closed_iff")
        # a stalled machine makes a run late and can turn "finishes inside the limit" into a timeout: re-measure (serially,
        # up to 3 runs) before believing it; a real difference shows in every attempt
        while timing and (any(v in TIMING for v, _ in viols) or time_off(r)) and len(attempts) < 3:
            rr = remeasure(ck, c)
            if rr is None or rr.get("harness_error"):
                break
            attempts.append(rr)
            v2 = drv_oracle(c, rr)
            if (not v2 and not time_off(rr)) or len(attempts) == 3:
                r, viols = rr, v2
                if not v2 and not time_off(rr):
                    break
        ck.case(json.dumps(case, sort_keys=True), nontrivial=(c["kw"] not in ("absent", "none") and c["kw"] != c["t_drv"]) or timing,
                tags=("drv", c["mech"], f"op={c['op']}", f"stall={c['stall']}", f"drv={c['t_drv']}", f"kw={c['kw']}", f"out={r.get('out')}"),
                sample={"case": case, "real": {k: r.get(k) for k in ("out", "msg", "elapsed", "seen", "after", "closed")}})
        if r.get("hung"):
            ck.violation({**case, "viol": "hung"}, "the driver operation did not come back", matcher)
            continue
        if not r.get("seen"):
            raise_harness(ck, f"driver rig: the marked command was never written in {case}: {r}")
            continue
        noisy = all(a.get("hb_gap", 0) > NOISY for a in attempts)
        # ---- (a) correspondence
        if mo is not None:
            md = dict(f.split("=", 1) for f in mo[2 * i].split(" "))
            after_m = mo[2 * i + 1].split(" ", 1)[0]
            mism = []
            if any(x is None or abs(x - int(md["inforce"]) * TICK) > 1e-9 for x in r["seen"]):
                mism.append(f"limit in force impl={r['seen']} model={int(md['inforce']) * TICK:g}")
            if r["after"] is None or abs(r["after"] - int(md["after"]) * TICK) > 1e-9 or md["after"] != after_m.split("=")[1]:
                mism.append(f"driver-level value afterwards impl={r['after']} model={int(md['after']) * TICK:g}")
            send_and_read = c["op"] == "send_and_read" and timing     # the read under it is re-armed with int(read_duration): C02/C14's ground
            if not send_and_read:
                if r["out"] != m["out"] or (r["out"] == "timeout" and r["msg"] != m["msg"] and not (c["t_tr"] and c["t_tr"] == eff)):
                    mism.append(f"outcome impl={r['out']}/{r.get('msg')} model={m['out']}/{m['msg']}")
                if r["closed"] != m["closed"]:
                    mism.append(f"closed impl={r['closed']} model={m['closed']}")
                if time_off(r):
                    if noisy:
                        raise_harness(ck, f"machine too loaded to time {case}")
                    else:
                        mism.append(f"time impl={[round(a['elapsed'], 3) for a in attempts]} model={m['fin'] * TICK:g}")
            if mism:
                ck.disagree(f"timeout_modifier model vs the real driver operation ({c['stack']})", case, "; ".join(mism))
            else:
                ck.traces_validated += 1
        # ---- (b) oracle
        info = {**case, "eff": eff, "out": r["out"], "exc": r.get("exc"), "msg": r.get("msg"), "elapsed": round(r["elapsed"], 3),
                "seen": r["seen"], "after": r["after"], "closed": r["closed"]}
        for v, text in viols:
            if v in ("late", "early") and noisy:
                raise_harness(ck, f"machine too loaded to judge {case}: {text}")
                continue
            ck.violation({**info, "viol": v}, f"{c['op']}(…, timeout_ops={c['kw']!r}) on the {c['stack']} {c['platform']} driver with driver-level "
                         f"timeout_ops {c['t_drv'] * TICK:g} ({c['mech']} mechanism, device: {c['stall']}): {text}", matcher)


def select_cases():
    out = []
    for co, cls, main, win, t in itertools.product((False, True), ("SystemTransport", "TelnetTransport", "ParamikoTransport", "Ssh2Transport",
                                                                   "AsyncsshTransport", "systemtransport", "TelnetTransportX", ""),
                                                   (True, False), (False, True), (0, 3)):
        for z in (("int", "float", "none") if t == 0 else ("int",)):
            out.append({"kind": "select", "co": co, "cls": cls or "T", "main": main, "windows": win, "t": t, "zero": z})
    # the test looks at the EXACT class name: a user subclass of TelnetTransport / SystemTransport in the main thread
    # selects the signal mechanism (and then nests it over the inherited decorated read: finding F18-nested)
    for base in ("TelnetTransport", "SystemTransport"):
        for main in (True, False):
            out.append({"kind": "select", "co": False, "cls": "My" + base, "base": base, "main": main, "windows": False, "t": 3, "zero": "int"})
    return out


# ---- evaluation of one timed case
def timing_ok(real, pred_s, tight):
    if real < pred_s - EPS:
        return "early"
    if real > pred_s + tight:
        return "late"
    return "ok"


def describe(c):
    if c["kind"] == "prog":
        return {k: c[k] for k in ("kind", "mech", "cls", "thread", "no_term", "close_wakes", "prog", "zero") if k in c} | \
            ({"pre_timer": c["pre_timer"]} if c.get("pre_timer") else {})
    return {k: v for k, v in c.items() if k not in ("hard_timeout",)}


def run(tier, seed):
    from vlib.common import Check, run_model
    import translate
    ck = Check(PID, tier, seed, level="proof")
    ck.rule = ("(P) programs = trees of decorated calls (timeouts 0/0.2/0.5 s, names of the channel operations / read / an unmapped "
               "name), blocking reads of 0.1-0.4 s, returns, raises and silent-device hangs, depth <= 3, optionally a second "
               "operation afterwards; x mechanism {signal: main thread + library-named transport; thread: System/Telnet-named "
               "transport or non-main thread; asyncio} x NO_TERMINATE on/off x close-wakes-read on/off (thread) x falsy timeout "
               "spelling {0, 0.0, None}; (S) the real Channel/AsyncChannel operations {send_input, get_prompt, send_inputs_interact, "
               "channel_authenticate_telnet, channel_authenticate_ssh} over a blocking Sim transport whose device goes silent "
               "{before echo, mid-echo, mid-output, before prompt, during auth, never} x 5 mechanism configurations x "
               "(timeout_ops, timeout_transport) in {0,0.2,0.5}^2 x NO_TERMINATE; (sel) the full selection table incl. windows flag "
               "and non-main thread; corpus first (finding witnesses).  Non-trivial = some timeout is armed and the program blocks "
               "longer than it.  Each timed case runs the REAL timeout_wrapper in a worker subprocess (main thread) and the Lean "
               "model; oracle = deadline / exception class+message / closed-iff / handler+itimer / threads / lock stated "
               "independently in Python.")
    ck.trusted = ["Lean 4.33.0 kernel; axioms of every theorem audited ⊆ {propext, Classical.choice, Quot.sound}",
                  "tools/gen/c07.py (message map, class-name tuple, NO_TERMINATE default, decorated-method table copied from source by AST)",
                  "correspondence rigs in props/c07.py (Prog interpreter over the real decorator; BlockSim transports; loopback Telnet server; fake ssh) and their clocks",
                  "CPython signal / threading / concurrent.futures / asyncio semantics (modelled as the abstract protocol, not verified)"]
    ck.assumptions = ["PARTIAL: wall-clock latency, surviving threads and whether close() wakes a blocked read are observed on the implementation, not proved",
                      "time passes only inside transport reads; the alarm is delivered while the main thread is blocked in the wrapped call (not between the statements of the wrapper's prologue/epilogue)",
                      "transport.close() is atomic and safe to call from the SIGALRM handler (not true of every library: a lock held by the interrupted thread deadlocks it)",
                      "timeouts are non-negative; ties between two deadlines / a deadline and a read completing within 50 ms are not generated"]
    load_own_findings(ck)
    # 1 translate (+ cross-check the generated tables against the imported objects)
    try:
        translate.translate(PID)
        import gen.c07 as g
        t = g.tables()
        if t.get("notes"):
            ck.extra["translator_notes"] = t["notes"]
        from scrapli import decorators
        from scrapli.settings import Settings
        if dict(t["messageMap"]) != decorators.FUNC_TIMEOUT_MESSAGE_MAP:
            ck.proof_broken("translator gen/c07.py", "AST message map differs from the imported FUNC_TIMEOUT_MESSAGE_MAP")
        if t["noTerminateDefault"] != Settings.NO_TERMINATE_ON_TIMEOUT:
            ck.proof_broken("translator gen/c07.py", "AST NO_TERMINATE default differs from the imported Settings")
        if decorators._get_timeout_message("no such function") != t["defaultMessage"]:
            ck.proof_broken("translator gen/c07.py", "default message differs")
        # decorated methods by introspection of the imported classes
        import importlib
        intro = []
        for mod, cls in (("scrapli.channel.sync_channel", "Channel"), ("scrapli.channel.async_channel", "AsyncChannel"),
                         ("scrapli.transport.plugins.system.transport", "SystemTransport"), ("scrapli.transport.plugins.telnet.transport", "TelnetTransport"),
                         ("scrapli.transport.plugins.asynctelnet.transport", "AsynctelnetTransport"), ("scrapli.transport.plugins.asyncssh.transport", "AsyncsshTransport"),
                         ("scrapli.transport.plugins.paramiko.transport", "ParamikoTransport"), ("scrapli.transport.plugins.ssh2.transport", "Ssh2Transport")):
            try:
                k = getattr(importlib.import_module(mod), cls)
            except Exception:  # noqa  (ssh2 may be missing)
                continue
            for n, f in vars(k).items():
                w = getattr(f, "__wrapped__", None)
                if callable(f) and w is not None and getattr(f, "__name__", "") == n and f.__code__.co_name == "decorate":
                    intro.append((cls, n, asyncio.iscoroutinefunction(w)))
        ast_set = {tuple(x) for x in t["decorated"]}
        if set(intro) != ast_set:
            ck.proof_broken("translator gen/c07.py", f"decorated methods: AST {sorted(ast_set)} vs introspection {sorted(intro)}")
        # methods carrying @timeout_modifier, by introspection: the closure of `decorate` holds the wrapped function and the
        # code object sits in timeout_modifier
        import scrapli.driver as D
        import inspect
        src_lines, first = inspect.getsourcelines(decorators.timeout_modifier)
        intro_m = []
        for k in (D.GenericDriver, D.AsyncGenericDriver, D.NetworkDriver, D.AsyncNetworkDriver):
            for n, f in vars(k).items():
                w = getattr(f, "__wrapped__", None)
                if callable(f) and w is not None and f.__code__.co_name == "decorate" \
                        and f.__code__.co_filename == decorators.__file__ and first <= f.__code__.co_firstlineno < first + len(src_lines):
                    intro_m.append((k.__name__, n, asyncio.iscoroutinefunction(w)))
        if set(intro_m) != {tuple(x) for x in t["modifierSites"]}:
            ck.proof_broken("translator gen/c07.py", f"@timeout_modifier methods: AST {sorted(t['modifierSites'])} vs introspection {sorted(intro_m)}")
    except Exception as e:  # TranslateError or parse failure
        ck.proof_broken("translator gen/c07.py", repr(e))
    # 2 prove
    ck.prove("ScrapliProps.C07", lemma_files=["ScrapliProps/C07Lemmas.lean", "ScrapliModel/Timeout.lean", "ScrapliModel/TimeoutModifier.lean"])
    if tier == "thorough":
        ck.leanchecker("ScrapliProps.C07")
    # 3 cases
    corpus = json.load(open(VERIF / "corpus" / "C07" / "corpus.json"))
    rng = ck.rng
    pcases = [dict(c) for c in corpus if c["kind"] == "prog"] + prog_cases(rng, 42 if tier == "quick" else 900)
    scases = [dict(c) for c in corpus if c["kind"] == "stack"] + stack_cases(rng, tier)
    selc = select_cases()
    rcases = [dict(c) for c in corpus if c["kind"] in ("telnet", "pty") and (tier == "thorough" or c.get("quick"))]
    if tier == "thorough":
        rcases += thorough_rigs()
    probes = [{"kind": "probe", "transport": k, "hard_timeout": 15} for k in sorted({c["kind"] for c in rcases if not (c["kind"] == "telnet" and c["stack"] == "async")})]
    nproc = max(2, min(12, (os.cpu_count() or 4) - 2))
    # selection table: one worker, no timing
    t_start = time.time()
    sel_res = run_workers(selc, 2, per_case_timeout=20)
    racec = [{"kind": "race", "t": 5, "name": nm, "work": w, "no_term": nt, "pre_timer": pt}
             for nm, w, nt, pt in (("get_prompt", 0, False, None), ("send_input", 1, True, None), ("get_prompt", 0, False, 30.0),
                                   ("read", 1, False, 30.0), ("foo", 0, True, 30.0))]
    race_res = run_workers(racec, 1, per_case_timeout=20)
    slowc = slow_cases(tier)
    slow_res = run_workers(slowc, nproc, per_case_timeout=30)
    drvc = [dict(c) for c in corpus if c["kind"] == "drv"] + drv_cases(rng, tier)
    drv_res = run_workers(drvc, nproc, per_case_timeout=10)
    # pre-filter prog cases for robustness against ties (model under +/- 0.5 tick on a 10x finer scale)
    def fine(p, delta, tdelta=0, depth=0):
        """10x finer time scale; every read longer/shorter by delta; every armed timeout shifted by tdelta * 3 * (depth + 1).
        Reads and timeouts are perturbed SEPARATELY (moving both together can flip a decision and flip it back)."""
        k = p[0]
        if k in ("ret", "raise", "hang"):
            return p
        if k == "work":
            return ["work", max(p[1] * 10 + delta, 0), fine(p[2], delta, tdelta, depth)]
        if k == "spawn":
            return ["spawn", fine(p[1], delta, tdelta, depth + 1), fine(p[2], delta, tdelta, depth)]
        t = p[1] * 10 + (tdelta * 3 * (depth + 1) if p[1] else 0)
        return ["call", t, p[2], fine(p[3], delta, tdelta, depth + 1), fine(p[4], delta, tdelta, depth)]
    VARIANTS = ((0, 0), (-5, 0), (5, 0), (0, -1), (0, 1))
    lines = []
    for c in pcases:
        for delta, tdelta in VARIANTS:
            cc = dict(c, prog=fine(c["prog"], delta, tdelta), release=RELEASE * 10, pre_timer=(c["pre_timer"] * 10 if c.get("pre_timer") else None))
            lines.append(model_line(cc))
    try:
        mo = run_model("C07", lines) if lines else []
    except Exception as e:
        ck.proof_broken("model driver Drv/C07.lean", repr(e))
        return ck.finish()
    keep, ties = [], 0
    for i, c in enumerate(pcases):
        nv = len(VARIANTS)
        z, a, b, ta, tb = (parse_model(mo[nv * i + j]) for j in range(nv))
        key = lambda x: (x["out"], x["msg"], x["closed"], len(x["acts"]), pending(x), x["timer"] is None)  # noqa
        nw = sum(1 for x in prog_tokens(c["prog"]) if x == "work") + 1
        # no decision (done / not done, which deadline first) may flip within +-50 ms: then the end time responds
        # linearly to the perturbation
        ncalls = sum(1 for x in prog_tokens(c["prog"]) if x == "call")
        if key(z) == key(a) == key(b) == key(ta) == key(tb) and None not in (z["fin"], a["fin"], b["fin"], ta["fin"], tb["fin"]) \
                and b["fin"] - z["fin"] == z["fin"] - a["fin"] and abs(b["fin"] - z["fin"]) <= 5 * nw \
                and tb["fin"] - z["fin"] == z["fin"] - ta["fin"] and abs(tb["fin"] - z["fin"]) <= 12 * ncalls:
            keep.append(c)
        elif c.get("note"):
            keep.append(c)      # corpus cases are curated
        else:
            ties += 1
    pcases = keep
    ck.extra["tie_prone_programs_dropped"] = ties
    # model predictions
    timed = pcases + scases
    # the stack cases need the number of completed reads: first real run, then the model
    results = measure(ck, timed + rcases + probes, nproc)
    if results is None:
        return 2
    wakes = {p["transport"]: r for p, r in zip(probes, results[len(timed) + len(rcases):])}
    ck.extra["measured_close_wakes_blocked_read"] = {k: {"close_wakes": v.get("close_wakes"), "wake_s": v.get("wake_s")} for k, v in wakes.items()}
    rig_lines = []
    for c in rcases:
        cw = True if c["mech"] == "asyncio" else bool(wakes.get(c["kind"], {}).get("close_wakes"))
        # the blocked read ends by itself at the socket timeout (telnet <= 10 options), when the peer closes
        # (telnet > 10 options: 600 s socket timeout), after 30 s (fake ssh); a command that is answered returns
        if c.get("cmd"):
            inner = ["work", 0, ["ret"]]
        else:
            own_end = (c["t_sock"] if c.get("nopts", 0) <= 10 else c["hold"]) if c["kind"] == "telnet" else 30.0
            if c["mech"] == "asyncio":
                own_end = c.get("hold", 30.0)
            inner = ["work", int(round(own_end / TICK)), ["raise"]]
        prog = ["call", int(round(c["t_ops"] / TICK)), "send_input", ["call", int(round(c["t_tr"] / TICK)), "read", inner, ["ret"]], ["ret"]]
        rig_lines.append(model_line({"mech": c["mech"], "no_term": c["no_term"], "close_wakes": cw, "prog": prog, "release": 10 ** 6}))
    lines, idx = [], []
    for i, c in enumerate(timed):
        r = results[i]
        if c["kind"] == "stack":
            prog, name = stack_prog(c, r.get("nreads", 0) if r else 0)
            c["prog"], c["opname"] = prog, name
        lines.append(model_line(c))
    sel_lines = [f"sel {1 if c['co'] else 0} {c['cls']} {1 if c['windows'] else 0} {1 if c['main'] else 0} {c['t']}" for c in selc]
    msg_lines = [f"msg {n}" for n in list(ORACLE_MESSAGES) + ["foo", "open"]]
    try:
        mo = run_model("C07", lines + sel_lines + msg_lines + rig_lines)
    except Exception as e:
        ck.proof_broken("model driver Drv/C07.lean", repr(e))
        return ck.finish()
    mo_t, mo_sel = mo[:len(lines)], mo[len(lines):len(lines) + len(sel_lines)]
    mo_msg = mo[len(lines) + len(sel_lines):len(lines) + len(sel_lines) + len(msg_lines)]
    mo_rig = mo[len(lines) + len(sel_lines) + len(msg_lines):]
    # messages: model (generated map) vs real function vs oracle table
    from scrapli.decorators import _get_timeout_message
    for n, ml in zip(list(ORACLE_MESSAGES) + ["foo", "open"], mo_msg):
        real = _get_timeout_message(n)
        want = ORACLE_MESSAGES.get(n, ORACLE_DEFAULT)
        ck.case(("msg", n), nontrivial=n in ORACLE_MESSAGES, tags=("message",))
        if bytes.fromhex(ml).decode() != real:
            ck.disagree("message map model vs _get_timeout_message", {"name": n}, f"impl={real!r} model={bytes.fromhex(ml).decode()!r}")
        else:
            ck.traces_validated += 1
        if real != want:
            ck.violation({"kind": "message", "name": n, "got": real, "want": want}, "timeout message differs from the documented one", matcher)
    # timed cases
    for i, c in enumerate(timed):
        evaluate(ck, c, results[i], parse_model(mo_t[i]))
    for j, c in enumerate(rcases):
        evaluate_rig(ck, c, results[len(timed) + j], parse_model(mo_rig[j]), wakes)
    # selection
    for c, r, ml in zip(selc, sel_res, mo_sel):
        if r is None or "mech" not in r:
            raise_harness(ck, f"selection worker failed on {c}: {r}")
            return 2
        ck.case(("sel", tuple(sorted(c.items()))), nontrivial=bool(c["t"]), tags=("select", f"sel->{r['mech']}"),
                sample={"select": c, "mechanism": r["mech"]})
        if r["mech"] != ml:
            ck.disagree("selectMechanism vs timeout_wrapper", c, f"impl={r['mech']} model={ml}")
        else:
            ck.traces_validated += 1
        want = expected_mech(c)
        if r["mech"] != want:
            ck.violation({**c, "got": r["mech"], "want": want, "viol": "mechanism"},
                         "mechanism differs from the property's table (signal: main thread + library transport; thread: system/telnet or non-main thread; asyncio; 0 disables)", matcher)
        if not r["h_after_dfl"]:
            ck.violation({**c, "viol": "handler_not_restored"}, "SIGALRM handler not restored after an instantly returning call", matcher)
    # the alarm landing in the wrapper's own finally (model: wrapSRaced with the generated epilogueGuarded)
    race_lines = ["race {} u0 {} 0 {} {} {}".format(1 if c["no_term"] else 0, "-" if not c["pre_timer"] else int(round(c["pre_timer"] / TICK)),
                                                   c["t"], c["name"], " ".join(prog_tokens(["work", c["work"], ["ret"]] if c["work"] else ["ret"])))
                  for c in racec]
    try:
        mo_race = run_model("C07", race_lines)
    except Exception as e:
        ck.proof_broken("model driver Drv/C07.lean (race)", repr(e))
        mo_race = None
    for i, (c, r) in enumerate(zip(racec, race_res)):
        if r is None or r.get("harness_error") or not r.get("injected"):
            raise_harness(ck, f"race rig failed on {c}: {r}")
            continue
        ck.case(("race", json.dumps(c, sort_keys=True)), nontrivial=True, tags=("race", f"out={r['out']}"), sample={"race": c, "real": r})
        info = {**c, "mech": "signal", "out": r["out"], "msg": r["msg"], "closed": r["closed"], "handler_same": r["handler_same"],
                "itimer_after": r["itimer_after"]}
        if mo_race is not None:
            m = parse_model(mo_race[i])
            mism = []
            if (r["out"], r["msg"]) != (m["out"], m["msg"]):
                mism.append(f"outcome impl={r['out']}/{r['msg']} model={m['out']}/{m['msg']}")
            if r["closed"] != m["closed"]:
                mism.append(f"closed impl={r['closed']} model={m['closed']}")
            if r["handler_same"] != (m["handler"] == "u0"):
                mism.append(f"handler impl same={r['handler_same']} model={m['handler'][:12]}")
            if (r["itimer_after"] > 0) != (m["timer"] is not None):
                mism.append(f"itimer impl={r['itimer_after']} model={m['timer']}")
            if mism:
                ck.disagree("wrapSRaced vs timeout_wrapper with the alarm inside the finally", c, "; ".join(mism))
            else:
                ck.traces_validated += 1
        # oracle: whatever the interleaving, the previous handler and timer are put back; a timeout closes iff
        if not r["handler_same"]:
            ck.violation({**info, "viol": "epilogue_race"}, "alarm delivered inside the wrapper's finally: the previous SIGALRM handler is not restored", matcher)
        elif bool(c["pre_timer"]) != (r["itimer_after"] > 0):
            ck.violation({**info, "viol": "epilogue_race"}, "alarm delivered inside the wrapper's finally: the previous ITIMER_REAL is not put back / a timer is left armed", matcher)
        if r["out"] == "timeout" and (r["msg"] != ORACLE_MESSAGES.get(c["name"], ORACLE_DEFAULT) or r["closed"] != (not c["no_term"])):
            ck.violation({**info, "viol": "closed_iff"}, "timeout in the epilogue: message / closed-iff", matcher)
    evaluate_slow(ck, slowc, slow_res)
    try:
        mo_drv = run_model("C07", [l for c in drvc for l in drv_model_lines(c)])
    except Exception as e:
        ck.proof_broken("model driver Drv/C07.lean (mod / modop)", repr(e))
        mo_drv = None
    evaluate_drv(ck, drvc, drv_res, mo_drv)
    ck.extra["driver_rig_runs"] = len(drvc)
    replay_findings(ck, timed, results, rcases)
    ck.extra["timed_runs"] = len(timed) + len(rcases)
    ck.extra["workers"] = nproc
    ck.extra["measure_wall_s"] = round(time.time() - t_start, 1)
    ck.extra["programs"] = len(pcases)
    ck.exhaustive = False
    ck.extra["exhaustive_scope"] = "selection table: 2 x 8 class names x main/other thread x windows flag x {0 (three spellings), 0.3 s} exhaustively"
    if getattr(ck, "_trouble", None) and not ck.violations and not ck.broken:
        print(f"HARNESS-TROUBLE {PID}: {ck._trouble}", file=sys.stderr)
        ck.write_evidence(2)
        return 2
    return ck.finish()


def slow_cases(tier):
    """real transports x negotiated options x which limits are 0 (both spellings) — the other limits are 5 s"""
    out = []
    zeros = [(0, 0), (0.0, 0.0), (0, 5.0), (5.0, 0), (5.0, 0.0)] + ([(0.0, 5.0), (5.0, 5.0)] if tier == "thorough" else [])
    for nopts in (0, 10, 12):
        for t_ops, t_tr in zeros:
            out.append({"kind": "slow", "transport": "telnet", "nopts": nopts, "t_ops": t_ops, "t_tr": t_tr, "t_sock": 5.0, "think": 0.3})
    for nopts in ((12,) if tier == "quick" else (0, 10, 12)):
        for t_ops, t_tr in zeros[:3] if tier == "quick" else zeros:
            out.append({"kind": "slow", "transport": "asynctelnet", "nopts": nopts, "t_ops": t_ops, "t_tr": t_tr, "t_sock": 5.0, "think": 0.3})
    for t_ops, t_tr in ([(0, 0), (5.0, 0.0)] if tier == "quick" else zeros):
        out.append({"kind": "slow", "transport": "system", "nopts": 0, "t_ops": t_ops, "t_tr": t_tr, "t_sock": 5.0, "think": 0.3})
    # advisory only (connection establishment is not a channel operation / transport read): timeout_socket = 0
    for tr in ("telnet", "asynctelnet"):
        out.append({"kind": "slow", "transport": tr, "nopts": 3, "t_ops": 5.0, "t_tr": 5.0, "t_sock": 0, "think": 0.3, "advisory": True})
    return out


def evaluate_slow(ck, cases, results):
    adv = {}
    for c, r in zip(cases, results):
        case = {k: v for k, v in c.items() if k != "advisory"}
        if r is None or r.get("hung") or r.get("harness_error"):
            if c.get("advisory"):
                adv[c["transport"]] = str(r)[:80]
                continue
            ck.violation({**case, "viol": "hung", "real": r}, "slow device, limits disabled or far away: the operations did not come back", matcher)
            continue
        if c.get("advisory"):
            adv[c["transport"]] = r["out"] if r["out"] == "ret" else f"{r['exc']}: {r['msg'][:80]}"
            continue
        zero = [k for k in ("t_ops", "t_tr") if not c[k]]
        ck.case(json.dumps(case, sort_keys=True), nontrivial=bool(zero), tags=("slow", c["transport"], f"nopts={c['nopts']}", f"out={r['out']}"),
                sample={"case": case, "real": {k: r.get(k) for k in ("out", "exc", "msg", "elapsed", "result")}})
        info = {**case, "out": r["out"], "exc": r.get("exc"), "msg": r.get("msg"), "elapsed": round(r["elapsed"], 2)}
        if r["out"] != "ret" or r.get("result") != "out" or r.get("prompt") != "r1#":
            ck.violation({**info, "viol": "zero_not_disabled" if zero else "spurious"},
                         "the device answers after 0.3 s of silence and every limit is 0 (disabled) or 5 s: get_prompt + send_input must complete"
                         + (f" — limit(s) {zero} are 0" if zero else ""), matcher)
        elif r["elapsed"] < c["think"] - 0.05:
            ck.violation({**info, "viol": "early"}, "completed faster than one silence of the device: the rig is broken", matcher)
        else:
            ck.traces_validated += 1
    ck.extra["advisory_timeout_socket_0"] = adv


def raise_harness(ck, what):
    ck._trouble = what
    print(f"HARNESS-ERROR {PID}: {what}", file=sys.stderr)


def thorough_rigs():
    out = []
    for nt in (False, True):
        out.append({"kind": "telnet", "stack": "sync", "mech": "thread", "t_ops": 0.4, "t_tr": 30, "t_sock": 1.6, "nopts": 3, "hold": 4.0, "no_term": nt, "hard_timeout": 15})
        out.append({"kind": "telnet", "stack": "async", "mech": "asyncio", "t_ops": 0.4, "t_tr": 30, "t_sock": 1.6, "nopts": 3, "hold": 3.0, "no_term": nt, "hard_timeout": 15})
    out.append({"kind": "telnet", "stack": "sync", "mech": "thread", "t_ops": 0.4, "t_tr": 30, "t_sock": 1.2, "nopts": 12, "hold": 2.5, "no_term": False, "hard_timeout": 15})
    out.append({"kind": "telnet", "stack": "sync", "mech": "thread", "t_ops": 2.0, "t_tr": 0.4, "t_sock": 1.6, "nopts": 3, "hold": 4.0, "no_term": False, "hard_timeout": 15})
    out.append({"kind": "telnet", "stack": "async", "mech": "asyncio", "t_ops": 2.0, "t_tr": 0.4, "t_sock": 1.6, "nopts": 12, "hold": 3.0, "no_term": False, "hard_timeout": 15})
    out.append({"kind": "pty", "mech": "thread", "t_ops": 0.5, "t_tr": 30, "no_term": False, "hard_timeout": 15})
    out.append({"kind": "pty", "mech": "thread", "t_ops": 2.0, "t_tr": 0.5, "no_term": False, "hard_timeout": 15})
    out.append({"kind": "pty", "mech": "thread", "t_ops": 0.5, "t_tr": 30, "no_term": False, "cmd": "show x", "hard_timeout": 15})
    out.append({"kind": "pty", "mech": "thread", "t_ops": 0.5, "t_tr": 30, "no_term": True, "hard_timeout": 4})
    return out


def predicted_seconds(c, r):
    """what the PROPERTY (not the model) allows for a rig case"""
    return None


def measure(ck, cases, nproc):
    """run all cases; a case that looks late is re-measured (up to 3 runs in total, serially, to rule out load)"""
    res = run_workers(cases, nproc)
    for i, r in enumerate(res):
        if r is None or r.get("harness_error"):
            # one retry for infrastructure hiccups
            rr = run_workers([cases[i]], 1)[0]
            if rr is None or rr.get("harness_error"):
                raise_harness(ck, f"worker failed on case {describe(cases[i])}: {r or rr}")
                return None
            res[i] = rr
    for r in res:
        r["attempts"] = 1
    return res


def remeasure(ck, c):
    return run_workers([c], 1)[0]


def evaluate(ck, c, r, m):
    """correspondence (real vs model) and oracle (real vs property) for one prog/stack case"""
    kind = c["kind"]
    case = describe(c)
    t_top = c["t_top"]
    calls_ = calls(c["prog"])
    armed = [t for _, t, _ in calls_ if t > 0]
    nat_d, nat_o = natural(dehang(c["prog"]))
    nontrivial = bool(armed) and (nat_d is None or nat_d > min(armed))
    tags = [kind, c["mech"], f"noterm={int(c['no_term'])}", f"out={r.get('out')}"]
    if kind == "stack":
        tags += [f"op={c['op']}", f"stall={c['stall']}", f"t=({c['t_ops']},{c['t_tr']})"]
    else:
        tags += [f"depth={max([d for d, _, _ in calls_] + [0]) + 1}", f"wakes={int(c['close_wakes'])}"]
    ck.case(json.dumps(case, sort_keys=True), nontrivial=nontrivial, tags=tuple(tags),
            sample={"case": case, "real": {k: r.get(k) for k in ("out", "msg", "elapsed", "closed")}, "model_fin_s": (m["fin"] or 0) * TICK})
    if r.get("hung"):
        ck.violation({**case, "viol": "hung", "mech": c["mech"]}, "the decorated call did not come back although every blocked read is released after 1.4 s", matcher)
        return
    pred_s = m["fin"] * TICK if m["fin"] is not None else None
    tight = TIGHT + 0.02 * len(calls_)
    # ---- (a) correspondence
    attempts = [r]
    def verdict(rr):
        if pred_s is None:
            return "model-never"
        return timing_ok(rr["elapsed"], pred_s, tight)
    def agrees(rr):
        return rr["out"] == m["out"] and rr["closed"] == m["closed"]
    v = verdict(r)
    # a stalled machine makes a run late, and can turn "finishes 100 ms inside the limit" into a timeout: re-measure
    # (serially) before believing either; a real difference shows in every attempt
    # (a stall can also make a run end EARLIER than predicted: a read that overruns past an outer close() finds the next
    # read refused at once) — so every verdict other than ok is re-measured, not only "late"
    while (v in ("late", "early") or not agrees(r)) and len(attempts) < 3:
        rr = remeasure(ck, c)
        if rr is None or rr.get("harness_error") or rr.get("hung"):
            break
        if kind == "stack" and rr.get("nreads") != r.get("nreads"):
            break
        attempts.append(rr)
        v2 = verdict(rr)
        if v2 == "ok" and agrees(rr):
            r, v = rr, v2
            break
        if v2 == "ok" and v != "ok" and not agrees(r):
            r, v = rr, v2
    noisy = all(a.get("hb_gap", 0) > NOISY for a in attempts)
    tie = kind == "stack" and c["t_ops"] == c["t_tr"] and c["t_ops"] > 0
    mism = []
    # an exception of the RIG itself where the model expects no error is rig trouble, not an observation of scrapli: it was
    # re-measured above (up to 3 runs); if it persists its outcome is compared with nothing and judged by nothing — only the
    # clock still counts (a silent-device read that gave up late IS an observation of a limit that did not fire)
    rig_exc = r.get("exc") == "RigError" and m["out"] != "error"
    swallowed = matcher({**case, "mech": c["mech"], "viol": "no_timeout", "exc": r.get("exc")})
    swallowed = swallowed is not None and is_open(ck, swallowed)    # known defect outside the decorator: outcome judged by the oracle only
    if v in ("late", "early") and noisy:
        raise_harness(ck, f"machine too loaded to time {case}: elapsed {[round(a['elapsed'], 2) for a in attempts]} vs predicted {pred_s}, heartbeat gaps {[round(a.get('hb_gap', 0), 3) for a in attempts]}")
    elif v != "ok":
        mism.append(f"time impl={[round(a['elapsed'], 3) for a in attempts]} model={pred_s} ({v})")
    if rig_exc:
        pass
    elif r["out"] != m["out"]:
        if not swallowed:
            mism.append(f"outcome impl={r['out']}({r.get('exc')}) model={m['out']}")
    elif r["out"] == "timeout" and r["msg"] != m["msg"] and not tie:
        mism.append(f"message impl={r['msg']!r} model={m['msg']!r}")
    if r["closed"] != m["closed"] and not rig_exc:
        mism.append(f"closed impl={r['closed']} model={m['closed']}")
    if not r["handler_same"]:
        mism.append("handler impl=changed model=same")
    if (r["itimer_after"] > 0) != (m["timer"] is not None):
        mism.append(f"itimer impl={r['itimer_after']} model={m['timer']}")
    elif m["timer"] is not None and abs(r["itimer_after"] - (m["timer"] * TICK - r["elapsed"])) > 0.5:
        mism.append(f"itimer remaining impl={r['itimer_after']:.2f} model={m['timer'] * TICK - r['elapsed']:.2f}")
    if kind == "prog" and c["mech"] == "thread" and r["workers"] != len(m["acts"]):
        mism.append(f"worker threads impl={r['workers']} model={len(m['acts'])}")
    if kind == "prog" and c["mech"] != "thread" and r["workers"] != 0:
        mism.append(f"worker threads impl={r['workers']} model=0")
    if c["mech"] == "asyncio" and "tasks_left" in r and m["fin"] is not None:
        pend = pending(m, tasks_only=True)
        if len(r["tasks_left"]) != pend:
            mism.append(f"tasks pending after the call impl={r['tasks_left']} model={pend}")
    if mism:
        ck.disagree(f"Timeout model vs timeout_wrapper ({c['mech']})", case, "; ".join(mism))
    else:
        ck.traces_validated += 1
    # ---- (b) oracle: the property on the real observables, never consulting the model
    info = {**case, "mech": c["mech"], "elapsed": round(r["elapsed"], 3), "out": r["out"], "msg": r["msg"], "exc": r.get("exc"), "closed": r["closed"],
            "nested_armed": nested_armed(c["prog"]),
            "inner_longer": any(t > t_top for d, t, _ in calls_ if d > 0) if t_top else False}
    late_flagged = []
    want_mech = expected_mech(c)
    seen = r.get("mech_seen")
    if seen is not None and want_mech not in seen.split("/") and not (want_mech == "asyncio" and seen == "asyncio/direct"):
        ck.violation({**info, "viol": "mechanism", "got": seen, "want": want_mech}, "mechanism differs from the property's table", matcher)
    els = [a["elapsed"] for a in attempts]
    el = min(els)
    quiet = any(a.get("hb_gap", 0) <= NOISY for a in attempts)
    rel_s = c.get("release", RELEASE) * TICK
    promptable = c["mech"] != "thread" or c["close_wakes"]     # a transport whose close() does not end a read cannot be hurried (rig parameter)
    # deadline: every armed top-level operation is over shortly after its timeout
    if t_top and promptable:
        limit = t_top * TICK
        # a second operation afterwards has its own limit
        seq = c["prog"][4]
        while seq[0] == "call":
            limit = limit + seq[1] * TICK if seq[1] else None
            if limit is None:
                break
            seq = seq[4]
        if limit is not None and el > limit + tight:
            if quiet or len(attempts) >= 3:
                if not quiet:
                    raise_harness(ck, f"machine too loaded to judge the deadline of {case}")
                else:
                    late_flagged.append(1); ck.violation({**info, "viol": "late", "limit": limit}, f"raised/returned {el:.2f}s after the start, configured timeout {limit:.2f}s", matcher)
    if not t_top and kind == "stack" and c["t_tr"] and c["stall"] != "never" and promptable:
        if el > c["t_tr"] * TICK + tight and quiet:     # the blocked transport read has its own limit
            late_flagged.append(1); ck.violation({**info, "viol": "late", "limit": c["t_tr"] * TICK}, f"transport read limit {c['t_tr'] * TICK:.2f}s, raised after {el:.2f}s", matcher)
    if rig_exc and not late_flagged:
        raise_harness(ck, f"the rig itself raised {r.get('msg')!r} in {len(attempts)} run(s) of {case} where the model expects {m['out']}: rig trouble, nothing compared")
    if not rig_exc:
        # must time out when it cannot finish; must not when it can
        all_t = [t for _, t, _ in calls_]
        if nat_d is not None and armed and nat_d * TICK < min(armed) * TICK - 0.08:
            if r["out"] != nat_o:
                ck.violation({**info, "viol": "spurious", "want": nat_o}, "an operation that finishes well inside every timeout did not give its own result", matcher)
        if t_top and promptable and nat_d is not None and nat_d * TICK > t_top * TICK + 0.08 and c["prog"][4][0] == "ret":
            if r["out"] != "timeout":
                ck.violation({**info, "viol": "no_timeout"}, "an operation that cannot finish inside its timeout did not raise ScrapliTimeout", matcher)
        if not any(all_t):
            # timeout 0 disables the limit: own outcome, however long it takes
            if r["out"] != nat_o or r["elapsed"] < (nat_d or 0) * TICK - EPS or r["closed"]:
                ck.violation({**info, "viol": "zero_not_disabled", "want": nat_o}, "timeout 0 did not disable the limit", matcher)
            if r.get("workers", 0) or (r.get("mech_seen") not in (None, "direct", "asyncio/direct")):
                ck.violation({**info, "viol": "zero_touched_state"}, "timeout 0: the call was not made directly", matcher)
        # exception class and message; closed iff
        if r["out"] == "timeout":
            names = {n for _, t, n in calls_ if t > 0}
            ok_msgs = {ORACLE_MESSAGES.get(n, ORACLE_DEFAULT) for n in names}
            if r["exc"] != "ScrapliTimeout" or r["msg"] not in ok_msgs:
                ck.violation({**info, "viol": "message", "allowed": sorted(ok_msgs)}, "timeout exception class/message is not the mapped one of a running decorated function", matcher)
            if r["closed"] != (not c["no_term"]):
                ck.violation({**info, "viol": "closed_iff"}, "on timeout the transport must be closed iff NO_TERMINATE_ON_TIMEOUT is off", matcher)
            if r["closed"] and not c["no_term"] and r["close_calls"] < 1:
                ck.violation({**info, "viol": "closed_iff"}, "close() not called", matcher)
        elif r["closed"]:
            ck.violation({**info, "viol": "closed_iff"}, "transport closed although no ScrapliTimeout was raised", matcher)
    # process-wide state
    if not r["handler_same"]:
        ck.violation({**info, "viol": "handler_not_restored"}, "SIGALRM handler after the call is not the handler before it", matcher)
    if c.get("pre_timer"):
        want_left = c["pre_timer"] - r["elapsed"]
        if want_left > 0.06:          # the user's alarm is not due yet: it must still be armed, with the time it has left
            if not (want_left - 0.5 <= r["itimer_after"] <= want_left + 0.03):      # time only moves forward
                ck.violation({**info, "viol": "itimer_not_restored", "pre_timer": c["pre_timer"], "itimer_after": r["itimer_after"]},
                             "a previously armed ITIMER_REAL is not back after the call (disarmed, or armed with more time than it had left)", matcher)
        elif want_left < -0.06:       # it became due during the call: it must not be lost (the user's handler runs, once)
            if r.get("user_alarms", 0) < 1 and r["itimer_after"] == 0:
                ck.violation({**info, "viol": "itimer_not_restored", "pre_timer": c["pre_timer"], "itimer_after": r["itimer_after"],
                              "user_alarms": r.get("user_alarms")},
                             "an ITIMER_REAL armed before the call became due during it and never went off", matcher)
    elif r["itimer_after"] != 0:
        ck.violation({**info, "viol": "itimer_left_armed", "itimer_after": r["itimer_after"]}, "ITIMER_REAL left armed after the call", matcher)
    if r["threads_new"]:
        ck.violation({**info, "viol": "thread_left", "threads": r["threads_new"]}, "a worker thread is still running after the call", matcher)
    if not r["lock_free"]:
        ck.violation({**info, "viol": "lock_left"}, "the channel lock is still held after the call", matcher)
    # asyncio: no task created by the operation survives it (programs that spawn on purpose are correspondence-only)
    if r.get("tasks_left") and not (kind == "prog" and has_spawn(c["prog"])):
        ck.violation({**info, "viol": "task_left", "tasks": r["tasks_left"]}, "a task created by the operation is still pending after it raised/returned", matcher)
    if r.get("followup", "blocks") != "blocks":
        ck.violation({**info, "viol": "followup_read", "followup": r["followup"]},
                     "connection kept after the timeout, but a follow-up read does not behave like a fresh read on the silent device", matcher)


def evaluate_rig(ck, c, r, m, wakes):
    """real transports: (a) the model fed with the MEASURED close-wakes boolean predicts the real run;
    (b) the property's deadline with the rig's own slack"""
    case = {k: v for k, v in c.items() if k not in ("hard_timeout", "quick", "note")}
    slack = 0.9 if c["kind"] == "pty" else 0.5       # PtyProcess.close() itself sleeps 0.1-0.3 s
    pred = m["fin"] * TICK if m["fin"] is not None else None
    mism = []
    if r.get("hung"):
        if pred is not None and pred <= c.get("hard_timeout", 8):
            mism.append(f"impl did not come back within {c.get('hard_timeout')} s, model={pred}")
    else:
        if pred is None or not (pred - EPS - 0.2 <= r["elapsed"] <= pred + slack):
            mism.append(f"time impl={r['elapsed']:.2f} model={pred}")
        if r["out"] != m["out"] or (r["out"] == "timeout" and r["msg"] != m["msg"]):
            mism.append(f"outcome impl={r['out']}/{r.get('msg')} model={m['out']}/{m['msg']}")
        if r["closed"] != m["closed"]:
            mism.append(f"closed impl={r['closed']} model={m['closed']}")
    if mism:
        ck.disagree(f"Timeout model (measured close-wakes) vs real {c['kind']} transport", case, "; ".join(mism) + f"; measured {wakes.get(c['kind'])}")
    else:
        ck.traces_validated += 1
    ck.case(json.dumps(case, sort_keys=True), nontrivial=True, tags=(c["kind"], c["mech"], f"noterm={int(c['no_term'])}", f"out={r.get('out')}"),
            sample={"case": case, "real": {k: r.get(k) for k in ("out", "msg", "elapsed", "closed")}})
    info = {**case, "out": r.get("out"), "msg": r.get("msg"), "elapsed": round(r.get("elapsed", -1), 3)}
    if r.get("hung"):
        ck.violation({**info, "viol": "hung"}, "the decorated call did not come back within the rig's hard limit", matcher)
        return
    if c.get("cmd"):          # the device answers
        if r["out"] != "ret":
            ck.violation({**info, "viol": "spurious"}, "an operation that finishes inside its timeout did not return", matcher)
        return
    limit = min(x for x in (c["t_ops"], c["t_tr"]) if x)
    if r["elapsed"] < limit - EPS:
        ck.violation({**info, "viol": "early"}, "raised before the configured timeout", matcher)
    if r["elapsed"] > limit + slack:
        rr = None
        if r.get("hb_gap", 0) > NOISY:
            rr = remeasure(ck, c)
        if rr is not None and not rr.get("hung") and not rr.get("harness_error") and rr["elapsed"] <= limit + slack:
            r = rr
        else:
            ck.violation({**info, "viol": "late", "limit": limit}, f"ScrapliTimeout surfaced {r['elapsed']:.2f}s after the start, configured timeout {limit:.2f}s", matcher)
    if r["out"] != "timeout" or r["exc"] != "ScrapliTimeout":
        ck.violation({**info, "viol": "no_timeout"}, "silent device: no ScrapliTimeout", matcher)
    else:
        want = ORACLE_MESSAGES["send_input"] if c["t_ops"] < c["t_tr"] else ORACLE_MESSAGES["read"]
        if r["msg"] != want:
            ck.violation({**info, "viol": "message", "want": want}, "timeout message is not the mapped one", matcher)
        if r["closed"] != (not c["no_term"]):
            ck.violation({**info, "viol": "closed_iff"}, "on timeout the transport must be closed iff NO_TERMINATE_ON_TIMEOUT is off", matcher)
    if r["threads_new"]:
        ck.violation({**info, "viol": "thread_left", "threads": r["threads_new"]}, "a worker thread is still running after the call", matcher)
    if not r["lock_free"]:
        ck.violation({**info, "viol": "lock_left"}, "the channel lock is still held after the call", matcher)
    if not r["handler_same"] or r["itimer_after"]:
        ck.violation({**info, "viol": "handler_not_restored"}, "SIGALRM handler / timer changed", matcher)
    if r.get("tasks_left"):
        ck.violation({**info, "viol": "task_left", "tasks": r["tasks_left"]}, "a task created by the operation is still pending after it raised/returned", matcher)
    if r.get("followup", "blocks") != "blocks":
        ck.violation({**info, "viol": "followup_read", "followup": r["followup"]},
                     "connection kept after the timeout, but a follow-up read does not behave like a fresh read on the silent device", matcher)


def replay_findings(ck, timed, results, rcases):
    """one KNOWN-FINDING line per open finding whose stored witness (corpus, tagged with `finding`) still fails"""
    for f in ck.findings:
        if f.get("status") != "open":
            continue
        if ck.known_hits.get(f["id"]):
            ck.known_finding(f["id"], f["what"])


def replay(path):
    """re-run the stored failing case on the real code and print what it does"""
    sys.path.insert(0, str(VERIF / "tools"))
    r = json.load(open(path))
    v = r.get("violation", {}).get("case") or (r.get("no_longer_checks") or [{}])[0].get("case") or {}
    if not v or "kind" not in v:
        print("nothing to replay in", path)
        return 0
    c = {k: v[k] for k in v}
    if c["kind"] == "stack" and "prog" in c:
        c.pop("prog")
    if c["kind"] in ("message",):
        from scrapli.decorators import _get_timeout_message
        print(c["name"], "->", _get_timeout_message(c["name"]), "want", c.get("want"))
        return 0 if _get_timeout_message(c["name"]) == c.get("want") else 1
    c.setdefault("close_wakes", True)
    c.setdefault("no_term", False)
    if c["kind"] == "drv":
        c = {k: c[k] for k in ("kind", "stack", "mech", "cls", "thread", "platform", "op", "t_drv", "kw", "zero", "t_tr", "stall")}
        res = run_workers([c], 1, per_case_timeout=20)[0]
        viols = [("hung", "no result")] if res is None or res.get("harness_error") else drv_oracle(c, res)
        print(json.dumps({"case": c, "limit_in_force_should_be": drv_eff(c) * TICK, "real": res, "violations": viols}, indent=1, default=str))
        return 1 if viols else 0
    if c["kind"] == "slow":
        c = {k: c[k] for k in ("kind", "transport", "nopts", "t_ops", "t_tr", "t_sock", "think")}
        res = run_workers([c], 1, per_case_timeout=30)[0]
        print(json.dumps({"case": c, "real": res}, indent=1, default=str))
        return 0 if res and res.get("out") == "ret" and res.get("result") == "out" else 1
    res = run_workers([c], 1, per_case_timeout=20)[0]
    print(json.dumps({"case": c, "real": res}, indent=1, default=str))
    viol = v.get("viol")
    if res is None or res.get("hung"):
        return 1
    if viol == "late":
        return 1 if res.get("elapsed", 0) > v.get("limit", 0) + TIGHT + 0.1 else 0
    if viol == "itimer_not_restored":
        return 1 if res.get("itimer_after", 0) == 0 else 0
    if viol == "mechanism":
        return 1 if (res.get("mech") or res.get("mech_seen")) != v.get("want") else 0
    if viol in ("handler_not_restored",):
        return 0 if res.get("handler_same", res.get("h_after_dfl")) else 1
    if viol == "closed_iff":
        return 0 if res.get("closed") == (res.get("out") == "timeout" and not c["no_term"]) else 1
    if viol in ("thread_left",):
        return 1 if res.get("threads_new") else 0
    if viol in ("lock_left",):
        return 0 if res.get("lock_free") else 1
    if viol == "epilogue_race":
        return 0 if res.get("handler_same") and (bool(c.get("pre_timer")) == (res.get("itimer_after", 0) > 0)) else 1
    if viol == "task_left":
        return 1 if res.get("tasks_left") else 0
    if viol == "followup_read":
        return 1 if res.get("followup", "blocks") != "blocks" else 0
    if viol == "itimer_left_armed":
        return 1 if res.get("itimer_after") else 0
    return 1


if __name__ == "__main__":
    if "--worker" in sys.argv:
        worker_main()
